#!/bin/sh
# MANIFEST.setup_cmd: builds the analysis tools from files on disk only (offline).
set -e
cd "$(dirname "$0")"
mkdir -p bin .cache evidence
CXXF="$(llvm-config-14 --cxxflags) -fno-rtti -O1 -w"
LIBS="/usr/lib/llvm-14/lib/libclang-cpp.so.14 /usr/lib/llvm-14/lib/libLLVM-14.so"
if [ ! -x bin/spxfacts ] || [ tools/spxfacts.cc -nt bin/spxfacts ]; then
  clang++ $CXXF tools/spxfacts.cc -o bin/spxfacts $LIBS
fi
if [ -f tools/spxglobals.cc ]; then
  if [ ! -x bin/spxglobals ] || [ tools/spxglobals.cc -nt bin/spxglobals ]; then
    clang++ $CXXF tools/spxglobals.cc -o bin/spxglobals /usr/lib/llvm-14/lib/libLLVM-14.so
  fi
fi
echo "setup ok"
