#!/usr/bin/env python3
"""Runs the registered checks against the kept seeded changes (/verif/seeded/<id>/patch.diff).

By default it works on a scratch git worktree of /repo's HEAD (outside /repo and /verif, removed afterwards), with
SPX_REPO pointing there and the evidence of these scratch runs written to a scratch directory, so that /repo and
/verif/evidence are never touched.  With --in-place it applies each patch to /repo itself (git -C /repo apply, run,
git -C /repo checkout -- .) as the brief describes.  Writes seeded/RESULTS.json and updates meta.json 'caught_by'.
usage: seedtest.py [--in-place] [id ...]"""
import json
import os
import shutil
import subprocess
import sys
import tempfile

V = os.path.dirname(os.path.dirname(os.path.abspath(__file__)))


def sh(cmd, **kw):
    return subprocess.run(cmd, shell=True, capture_output=True, text=True, **kw)


def main():
    args = sys.argv[1:]
    in_place = '--in-place' in args
    args = [a for a in args if not a.startswith('--')]
    man = json.load(open(os.path.join(V, 'MANIFEST.json')))
    checks = [(c['property_id'], c['quick_cmd']) for c in man['checks']]
    ids = args or sorted(d for d in os.listdir(os.path.join(V, 'seeded')) if os.path.isdir(os.path.join(V, 'seeded', d)))
    resp = os.path.join(V, 'seeded', 'RESULTS.json')
    results = json.load(open(resp)) if os.path.exists(resp) else {}
    env = dict(os.environ)
    if in_place:
        repo = '/repo'
        dirty = sh('git -C /repo status --porcelain --untracked-files=no').stdout.strip()
        if dirty:
            print('refusing: /repo has uncommitted changes:\n' + dirty)
            return 2
    else:
        repo = tempfile.mkdtemp(prefix='spxseed.', dir='/tmp')
        os.rmdir(repo)
        r = sh('git -C /repo worktree add --detach %s HEAD -q' % repo)
        if r.returncode != 0:
            print('cannot create scratch worktree:', r.stderr)
            return 2
        os.makedirs(os.path.join(repo, '_build', 'soplex'))
        shutil.copy('/repo/_build/soplex/config.h', os.path.join(repo, '_build', 'soplex', 'config.h'))
        # generated, untracked source that the build drops next to the sources
        if os.path.exists('/repo/src/soplex/git_hash.cpp'):
            shutil.copy('/repo/src/soplex/git_hash.cpp', os.path.join(repo, 'src', 'soplex', 'git_hash.cpp'))
        env['SPX_REPO'] = repo
        env['SPX_EVIDENCE_DIR'] = tempfile.mkdtemp(prefix='spxseed-ev.', dir='/tmp')
    try:
        for sid in ids:
            d = os.path.join(V, 'seeded', sid)
            patch = os.path.join(d, 'patch.diff')
            if not os.path.exists(patch):
                continue
            r = sh('git -C %s apply %s' % (repo, patch))
            if r.returncode != 0:
                print(sid, 'patch does not apply to the current HEAD:', r.stderr.strip()[:160])
                results[sid] = {'applies': False}
                continue
            try:
                fired, broken = {}, {}
                # the first check extracts the facts of this variant (cached by content hash); the others then run in parallel
                first = sh(checks[0][1], cwd=V, env=env)
                from concurrent.futures import ThreadPoolExecutor
                with ThreadPoolExecutor(max_workers=8) as ex:
                    rest = list(ex.map(lambda pc: sh(pc[1], cwd=V, env=env), checks[1:]))
                for (pid, cmd), c in zip(checks, [first] + rest):
                    if c.returncode == 1:
                        fired[pid] = [l.strip().replace(repo, '/repo') for l in c.stdout.splitlines() if l.strip().startswith('violated:')][:4]
                    elif c.returncode != 0:
                        broken[pid] = [l for l in c.stdout.splitlines() if 'ANALYSIS-BROKEN' in l][:2]
            finally:
                sh('git -C %s checkout -- .' % repo)
            results[sid] = {'applies': True, 'caught_by': sorted(fired), 'reports': fired, 'analysis_broken': broken}
            mp = os.path.join(d, 'meta.json')
            if os.path.exists(mp):
                m = json.load(open(mp))
                m['caught_by'] = sorted(fired)
                m['reports'] = fired
                json.dump(m, open(mp, 'w'), indent=1)
            print(sid, 'caught by', sorted(fired) or 'NOTHING', ('(analysis broken in %s)' % sorted(broken)) if broken else '')
            for pid, ls in fired.items():
                for l in ls[:1]:
                    print('    ', pid, l[:200])
            json.dump(results, open(resp, 'w'), indent=1, sort_keys=True)
    finally:
        if not in_place:
            sh('git -C /repo worktree remove --force %s' % repo)
            shutil.rmtree(repo, ignore_errors=True)
            shutil.rmtree(env['SPX_EVIDENCE_DIR'], ignore_errors=True)
    return 0


if __name__ == '__main__':
    sys.exit(main())
