#!/usr/bin/env python3
"""Runs the registered checks against the kept seeded changes (/verif/seeded/<id>/patch.diff).
For each: git -C /repo apply, run every claimed check's quick command, record which ones report a VIOLATION
(exit 1), undo with git -C /repo checkout -- . straight afterwards.  Writes seeded/RESULTS.json and updates
meta.json 'caught_by'.  usage: seedtest.py [id ...]"""
import json
import os
import subprocess
import sys

V = os.path.dirname(os.path.dirname(os.path.abspath(__file__)))


def sh(cmd, **kw):
    return subprocess.run(cmd, shell=True, capture_output=True, text=True, **kw)


def main():
    man = json.load(open(os.path.join(V, 'MANIFEST.json')))
    checks = [(c['property_id'], c['quick_cmd']) for c in man['checks']]
    ids = sys.argv[1:] or sorted(d for d in os.listdir(os.path.join(V, 'seeded')) if os.path.isdir(os.path.join(V, 'seeded', d)))
    dirty = sh('git -C /repo status --porcelain --untracked-files=no').stdout.strip()
    if dirty:
        print('refusing: /repo has uncommitted changes:\n' + dirty)
        return 2
    resp = os.path.join(V, 'seeded', 'RESULTS.json')
    results = json.load(open(resp)) if os.path.exists(resp) else {}
    for sid in ids:
        d = os.path.join(V, 'seeded', sid)
        patch = os.path.join(d, 'patch.diff')
        if not os.path.exists(patch):
            continue
        r = sh('git -C /repo apply %s' % patch)
        if r.returncode != 0:
            print(sid, 'patch does not apply:', r.stderr.strip()[:200])
            results[sid] = {'applies': False}
            continue
        try:
            fired = {}
            broken = {}
            for pid, cmd in checks:
                c = sh(cmd, cwd=V)
                if c.returncode == 1:
                    fired[pid] = [l.strip() for l in c.stdout.splitlines() if l.strip().startswith('violated:')][:4]
                elif c.returncode != 0:
                    broken[pid] = [l for l in c.stdout.splitlines() if 'ANALYSIS-BROKEN' in l][:2]
        finally:
            sh('git -C /repo checkout -- .')
        results[sid] = {'applies': True, 'caught_by': sorted(fired), 'reports': fired, 'analysis_broken': broken}
        mp = os.path.join(d, 'meta.json')
        if os.path.exists(mp):
            m = json.load(open(mp))
            m['caught_by'] = sorted(fired)
            m['reports'] = fired
            json.dump(m, open(mp, 'w'), indent=1)
        print(sid, 'caught by', sorted(fired) or 'NOTHING', ('(analysis broken in %s)' % sorted(broken)) if broken else '')
        for pid, ls in fired.items():
            for l in ls[:2]:
                print('    ', pid, l[:220])
    json.dump(results, open(resp, 'w'), indent=1)
    # restore evidence of the unchanged tree
    for pid, cmd in checks:
        sh(cmd, cwd=V)
    return 0


if __name__ == '__main__':
    sys.exit(main())
