#!/usr/bin/env python3
"""Regenerates the generated blocks of DESIGN.md (between <!-- BEGIN GENERATED: name --> / <!-- END GENERATED: name -->) from what the
machinery itself wrote: evidence/<id>.json (rule texts, instance counts, floors, explanation), known_findings.json, seeded/RESULTS.json,
selftest/.  Run after a full `./check <id>` sweep; hand-written text is never touched."""
import glob
import json
import os
import re

V = os.path.dirname(os.path.dirname(os.path.abspath(__file__)))
PROPS = ['C%02d' % i for i in range(1, 21)]


def titles():
    t = {}
    for l in open(os.path.join(V, 'properties.jsonl')):
        d = json.loads(l)
        t[d['id']] = d['title']
    return t


def wrap(s, width=118, indent=''):
    out, line = [], indent
    for w in s.split():
        if len(line) + len(w) + 1 > width and line.strip():
            out.append(line.rstrip())
            line = indent
        line += w + ' '
    if line.strip():
        out.append(line.rstrip())
    return '\n'.join(out)


def rules_block():
    T = titles()
    out = []
    for p in PROPS:
        ep = os.path.join(V, 'evidence', p + '.json')
        if not os.path.exists(ep):
            continue
        e = json.load(open(ep))
        c = e['coverage']
        out.append('#### %s — %s' % (p, T.get(p, '')))
        out.append('')
        out.append(wrap(c['explanation']))
        out.append('')
        out.append('| rule | what is required of every instance | instances today | floor |')
        out.append('|------|-------------------------------------|-----------------|-------|')
        for r, d in sorted(c['rules'].items(), key=lambda kv: [int(x) if x.isdigit() else x for x in re.split(r'(\d+)', kv[0])]):
            out.append('| %s | %s | %d | %d |' % (r, d['text'].replace('|', '\\|'), d['instances'], d['floor']))
        st = c.get('selftest') or []
        patches = sorted(glob.glob(os.path.join(V, 'selftest', p, '*.patch')))
        out.append('')
        out.append('Obligations %d, discharged %d, functions analysed %d; self-test variants: %d (%s).' % (
            c['obligations'], c['discharged'], c.get('functions_analysed', 0), len(patches),
            ', '.join(sorted(set(os.path.basename(x)[:-6].split('__')[-1] for x in patches))) or 'none'))
        kf = c.get('known_findings') or []
        if kf:
            out.append('Known findings reported on today\'s tree: ' + ', '.join(sorted(set('%s (%s)' % (k['id'], k['rule']) for k in kf))) + '.')
        nd = c.get('not_decided') or []
        if nd:
            out.append('')
            out.append('Not decided (printed in the evidence): ' + wrap('; '.join(nd[:12]) + (' ...' if len(nd) > 12 else ''), indent=''))
        out.append('')
    return '\n'.join(out)


def findings_block():
    k = json.load(open(os.path.join(V, 'known_findings.json')))['findings']
    by = {}
    for f in k:
        by.setdefault(f['id'], []).append(f)

    def key(i):
        m = re.match(r'F(\d+)(\w*)', i)
        return (int(m.group(1)), m.group(2))
    out = ['| id | property / rule | status | what failed (from known_findings.json) |', '|----|-----------------|--------|------------------------------------------|']
    for i in sorted(by, key=key):
        fs = by[i]
        rules = sorted(set('%s %s' % (f['property'], f['rule']) for f in fs))
        st = sorted(set(('fixed ' + f.get('commit', '')) if f['status'] == 'fixed' else 'known' for f in fs))
        what = re.sub(r'^fixed: property=\S+ \S+ ', '', fs[0]['what'])
        if len(fs) > 1:
            what += ' [%d instances]' % len(fs)
        out.append('| %s | %s | %s | %s |' % (i, ', '.join(rules), ', '.join(st), what.replace('|', '\\|')))
    return '\n'.join(out)


def seeds_block():
    rp = os.path.join(V, 'seeded', 'RESULTS.json')
    if not os.path.exists(rp):
        return '(no results yet)'
    R = json.load(open(rp))
    out = ['| seeded change | caught by | first report |', '|---------------|-----------|--------------|']
    n_c = 0
    for sid in sorted(R):
        r = R[sid]
        if not r.get('applies', True):
            out.append('| %s | (patch no longer applies to HEAD: the place was repaired since) | |' % sid)
            continue
        cb = r.get('caught_by') or []
        rep = ''
        if cb:
            n_c += 1
            first = (r.get('reports') or {}).get(cb[0]) or ['']
            rep = re.sub(r'^violated: ', '', first[0])[:150].replace('|', '\\|')
        br = r.get('analysis_broken') or {}
        extra = (' (analysis-broken: %s)' % ','.join(sorted(br))) if br else ''
        out.append('| %s | %s%s | %s |' % (sid, ', '.join(cb) if cb else '**not caught**', extra, rep))
    out.append('')
    out.append('%d of %d kept changes are reported by at least one registered quick check.' % (n_c, len([s for s in R if R[s].get('applies', True)])))
    return '\n'.join(out)


def status_block():
    n_rules = n_obl = 0
    for p in PROPS:
        ep = os.path.join(V, 'evidence', p + '.json')
        if os.path.exists(ep):
            c = json.load(open(ep))['coverage']
            n_rules += len(c['rules'])
            n_obl += c['obligations']
    pats = glob.glob(os.path.join(V, 'selftest', '*', '*.patch'))
    rev = [x for x in pats if os.path.basename(x).startswith('F')]
    k = json.load(open(os.path.join(V, 'known_findings.json')))['findings']
    ids = {}
    for f in k:
        ids.setdefault(re.match(r'F\d+', f['id']).group(0), set()).add(f['status'])
    fixed = sorted(i for i, st in ids.items() if st == {'fixed'})
    known = sorted(i for i, st in ids.items() if 'known' in st)
    man = json.load(open(os.path.join(V, 'MANIFEST.json')))
    rp = os.path.join(V, 'seeded', 'RESULTS.json')
    R = json.load(open(rp)) if os.path.exists(rp) else {}
    app = [s_ for s_ in R if R[s_].get('applies', True)]
    caught = [s_ for s_ in app if R[s_].get('caught_by')]
    return ('* claimed properties: %d of 20 (not applicable: %s); rules: %d; rule instances (obligations) on today\'s tree: %d\n'
            '* self-test variants: %d (%d reverted fixes, %d micro-mutations)\n'
            '* genuine defects: %d (%d repaired by `fix:` commits, %d recorded: %s)\n'
            '* seeded changes kept: %d, reported by a registered check: %d' % (
                len(man['checks']), ', '.join(n['property_id'] for n in man.get('not_applicable', [])) or '-', n_rules, n_obl,
                len(pats), len(rev), len(pats) - len(rev), len(ids), len(fixed), len(known), ', '.join(known), len(app), len(caught)))


def main():
    p = os.path.join(V, 'DESIGN.md')
    s = open(p).read()
    for name, fn in (('status', status_block), ('rules', rules_block), ('findings', findings_block), ('seeds', seeds_block)):
        a = '<!-- BEGIN GENERATED: %s -->' % name
        b = '<!-- END GENERATED: %s -->' % name
        if a not in s or b not in s:
            print('marker %s missing' % name)
            continue
        i, j = s.index(a) + len(a), s.index(b)
        s = s[:i] + '\n' + fn() + '\n' + s[j:]
    open(p, 'w').write(s)
    print('DESIGN.md regenerated')


if __name__ == '__main__':
    main()
