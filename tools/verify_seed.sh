#!/bin/bash
# usage: verify_seed.sh <mutant dir with patch.diff + demo.*> <seed id>
# Confirms independently, in a scratch worktree of /repo's HEAD (outside /repo and /verif): the patch applies,
# the library builds, the 468 tests pass, the demonstration fails with the change and passes without it (against
# /repo/_build, i.e. the unchanged tree).  On success copies the mutant to /verif/seeded/<id>/ with meta.json.
set -u
src="$1"; id="$2"
wt=/tmp/wt/verify_$id
log=/tmp/wt/verify_$id.log
exec >"$log" 2>&1
git -C /repo worktree remove --force "$wt" 2>/dev/null
git -C /repo worktree add --detach "$wt" HEAD -q || { echo "RESULT worktree-failed"; exit 1; }
cleanup(){ git -C /repo worktree remove --force "$wt" 2>/dev/null; rm -rf "$wt"; }
if ! git -C "$wt" apply "$src/patch.diff"; then echo "RESULT patch-does-not-apply"; cleanup; exit 1; fi
cmake -G Ninja -S "$wt" -B "$wt/_build" -DCMAKE_BUILD_TYPE=RelWithDebInfo >/dev/null 2>&1
if ! cmake --build "$wt/_build" -j6 >/dev/null 2>&1; then echo "RESULT build-failed"; cleanup; exit 1; fi
tests=$(ctest --test-dir "$wt/_build" -j6 --timeout 900 2>&1 | grep "tests passed")
echo "ctest: $tests"
case "$tests" in *"100% tests passed, 0 tests failed out of 468"*) ;; *) echo "RESULT tests-fail"; cleanup; exit 1;; esac
demo=$(ls "$src"/demo.* | head -1)
build_demo(){ # $1 = tree root, $2 = out
  case "$demo" in
    *.cpp) g++ -std=gnu++14 -O1 -I"$1/src" -I"$1/_build" "$demo" -o "$2" "$1/_build/lib/libsoplex.a" -lgmp -lmpfr -lz -lpthread ;;
    *.c)   gcc -O1 -I"$1/src" -I"$1/_build" "$demo" -o "$2" "$1/_build/lib/libsoplex.a" -lstdc++ -lgmp -lmpfr -lz -lm -lpthread ;;
  esac
}
mkdir -p /tmp/wt/demo_$id
if [ "${demo##*.}" = "sh" ]; then
  (cd "$src" && SOPLEX_ROOT="$wt" bash "$demo"); with=$?
  (cd "$src" && SOPLEX_ROOT=/repo bash "$demo"); without=$?
else
  build_demo "$wt" /tmp/wt/demo_$id/with || { echo "RESULT demo-build-failed"; cleanup; exit 1; }
  build_demo /repo /tmp/wt/demo_$id/without || { echo "RESULT demo-build-failed"; cleanup; exit 1; }
  (cd "$src" && timeout 300 /tmp/wt/demo_$id/with >/tmp/wt/demo_$id/with.out 2>&1); with=$?
  (cd "$src" && timeout 300 /tmp/wt/demo_$id/without >/tmp/wt/demo_$id/without.out 2>&1); without=$?
fi
echo "demo with change: exit $with; without: exit $without"
cleanup
if [ "$with" -ne 0 ] && [ "$without" -eq 0 ]; then
  mkdir -p /verif/seeded/$id
  cp "$src/patch.diff" /verif/seeded/$id/patch.diff
  cp "$demo" /verif/seeded/$id/
  [ -f "$src/README.txt" ] && cp "$src/README.txt" /verif/seeded/$id/README.txt
  python3 - "$id" "$with" "$without" "$tests" <<'PY'
import json,sys,os
id,w,wo,tests=sys.argv[1:5]
p='/verif/seeded/%s/meta.json'%id
meta={'id':id,'property':id.split('-')[0],'confirmed':{'builds':True,'ctest':tests.strip(),'demo_exit_with_change':int(w),'demo_exit_on_unchanged_tree':int(wo)},
      'what_i_ran':'tools/verify_seed.sh: scratch worktree of /repo HEAD + patch, cmake/ninja build, ctest -j6 (468/468), demo built against the patched library (must fail) and against /repo/_build (must pass)',
      'needs_to_manifest':'see README.txt (written by the sub-agent that produced the change)','caught_by':None}
json.dump(meta,open(p,'w'),indent=1)
PY
  echo "RESULT confirmed"
else
  echo "RESULT demo-does-not-discriminate"
fi
rm -rf /tmp/wt/demo_$id
