#!/usr/bin/env python3
"""Regenerates /verif/MANIFEST.json from the table below (one entry per property).  A property is
'claimed' when it has an entry in CLAIMED *and* its rule module rules/<id>.py exists; everything else
is listed under not_applicable with its reason."""
import json
import os

V = os.path.dirname(os.path.dirname(os.path.abspath(__file__)))

NOTE = ("Trusted base: clang 14 front end and CFG builder, the extractor tools/spxfacts.cc, the rule engine in rules/. "
        "Analysed configuration: the baseline build's flags (gnu++14, config.h of /repo/_build: GMP, MPFR, Boost, zlib, no PaPILO), "
        "instantiation R=double (+ Rational LP classes). Exceptional paths (throw / failed assert) carry no obligation. "
        "Run-time values are not modelled: only the named structural clauses are decided.")

CLAIMED = {
    'C07': dict(
        text="Structural necessary conditions, decided exhaustively over every rule instance in the resolved program: each of the 72 public LP "
             "modifiers x 3 sync modes performs exactly the effects the mode demands on every non-aborting CFG path (real LP, rational LP, "
             "range-type arrays, solution invalidation); both mutations of one modifier draw their values from the same parameters / the "
             "rational getter of the same quantity; bulk sync points re-derive the range types; the two range-type classifiers agree and use one "
             "notion of infinity (the INFTY parameter); the range-type arrays are never read where no rational LP exists; permutation removals "
             "remap the arrays consistently; the arrays are reset wherever a rational LP object is created; the rational LP is never assigned "
             "from a persistently scaled real LP; no tolerance comparison decides what the rational LP stores. The exact solver's LP transformations re-dimension the range-type arrays together with the LP. Not a proof of the behavioural "
             "statement: exactness of conversions and the LP classes' own arithmetic are not decided.",
        technique="CFG must-pass-through / reachability under finite sync-mode and scaling-state assumptions over the clang-resolved AST; decision-table comparison; type-directed tolerance-comparison lint",
        ref="DESIGN.md section 4, C07"),
}

CLAIMED['C06'] = dict(
    text="Structural necessary conditions, exhaustively over every rule instance: every public modifier mutates the real LP with the LP method of "
         "its own quantity, forwards its index parameters in order and invalidates the cached solution on every non-aborting path; removal "
         "wrappers build and forward one permutation of the LP's own dimension; the _...Real helpers keep the stored basis arrays in the index "
         "domain of the changed quantity and re-derive _hasBasis in the solver-loaded arm; SPxLPBase's storage primitives always mutate the "
         "row-wise and the column-wise copy together; new data reaches a persistently scaled LP with the LP's own scale flag; the solver's "
         "overrides forward the same arguments, un-initialise and notify the basis; remapping loops after permutation removals run upwards over "
         "the old dimension. Not a proof that the containers compute the right LP or that re-solves agree.",
    technique="CFG must-pass-through, dominance/post-dominance pairing and argument-flow rules over the clang-resolved AST of all modifiers, helpers, LP primitives and solver overrides",
    ref="DESIGN.md section 4, C06")

CLAIMED['C11'] = dict(
    text="Structural necessary conditions, exhaustively over every rule instance: no floating-point value enters a Rational in any member function of "
         "CLUFactorRational / SLUFactorRational or in the assembly and query functions of the rational basis matrix (with a positive control "
         "for the matcher); every entry point that can change the basis matrix, its dimension or the basis drops the cached factorization in "
         "every sync mode in which it mutates the rational LP; the exact basis queries refactorize when needed, never use a factorization whose "
         "status is not OK, use left/right solves and the caller's index correctly, and the matrix is assembled from the rational LP by the "
         "freshly refilled basis indices. Not a proof that the elimination is correct or that singularity is detected exactly.",
    technique="type-directed conversion lint over the resolved AST; call-graph must-summaries under sync-mode assumptions; guarded-reachability and dominance rules",
    ref="DESIGN.md section 4, C11")

CLAIMED['C15'] = dict(
    text="Structural necessary conditions, exhaustively over every table row and rule instance: the three parameter tables are complete, ordered "
         "(lower <= default <= upper by constant evaluation) and uniquely named; every enumerator has its own case in its typed setter and inner "
         "value switches enumerate exactly the documented range; the range guards reject out-of-range values including NaN; no rejecting return of "
         "a setter is reachable after a state change; the value arrays are written only by their owners and every loop over a parameter array is "
         "bounded by that array's own COUNT; setters touch the LPs only in the sense/offset/sync arms; the two text front ends compare names "
         "exactly against the right table and reach the same typed setter through the same conversion. Bool parameters are parsed from exact literals. Not a proof that a stored value is the value "
         "later used, nor of printed precision.",
    technique="table extraction + constant evaluation, three-valued guard evaluation, CFG reachability (mutate-before-reject), who-may-write and sibling-parser comparison over the clang-resolved AST",
    ref="DESIGN.md section 4, C15")

CLAIMED['C20'] = dict(
    text="Structural necessary conditions for every one of the 56 extern \"C\" wrappers (set cross-checked against soplex_interface.h): the wrapper "
         "calls exactly the C++ member(s) its name stands for on the handle and returns that result through casts only; parameter and status codes "
         "are passed by cast; pointer parameters are subscripted only within a length the caller gave, vectors a C++ getter may have re-sized are "
         "not read beyond their own dimension, string buffers are sized from the string actually copied; arguments reach the C++ parameter of the "
         "same kind (lower/lhs, upper/rhs, objective, index) and every Rational is built from numerator and denominator of one pair at one index. "
         "No storage-less sparse-vector local is assigned in a wrapper. Not a proof of value equality through the C layer.",
    technique="wrapper-table, bounded-subscript, argument-kind and num/denom-pairing rules over the clang-resolved AST of soplex_interface.cpp",
    ref="DESIGN.md section 4, C20")

CLAIMED['C14'] = dict(
    text="Structural necessary conditions, exhaustively over every token, arm and generator: both basis writers emit only tokens the reader handles, "
         "under the same conditions; each reader arm assigns the statuses the writer's arm had and the reader's defaults are exactly what the "
         "writer omits (composition of the decision tables is the identity on valid bases); default names are generated from a fresh buffer per "
         "item in the same format on all sides (a loop-carried accumulation rule with positive and negative control); the state writers hand one "
         "pair of name sets to LP and basis writer and saveSettingsFile writes every value next to the name of the same table and index plus the "
         "random seed. Not a proof that a re-solve from the restored basis agrees.",
    technique="token/decision-table extraction and composition, loop-carried-accumulation dataflow rule with controls, argument-flow rules over the clang-resolved AST",
    ref="DESIGN.md section 4, C14")

CLAIMED['C18'] = dict(
    text="The structural clause 'no mutable state shared between solver objects', decided exhaustively over every global variable that the LLVM IR of "
         "every library unit defines or instantiates (including statics inside Boost/fmt/zstr headers that SoPlex's calls instantiate): each is "
         "constant, thread_local, a guard, or written only by its own dynamic initialiser; addresses handed out by accessor functions are followed "
         "one call level; plus: no call to a non-reentrant or process-configuring C library function anywhere in library code. Positive controls "
         "fire on every run. One known finding (Boost's process-wide default precision) is reported as KNOWN-FINDING. Not a proof of race freedom "
         "inside GMP/MPFR/zlib nor of result equality.",
    technique="LLVM-IR global-variable use classification (custom libLLVM pass) joined with a forbidden-call scan over the clang-resolved AST",
    ref="DESIGN.md section 4, C18")

CLAIMED['C17'] = dict(
    text="Structural necessary conditions over the copy path computed from the call graph (classes whose user-provided operator= is reachable from "
         "SoPlexBase::operator=): every member that a public observer of SoPlexBase reads is written by its class's operator=; SoPlexBase's pointer "
         "and shared_ptr members are not taken from the source and every copied component that carries a Tolerances pointer is re-bound to the "
         "copy's own object (including the solver's cloned pricer / ratio tester / starter); every member the default-constructor path assigns is "
         "also assigned on the copy-construction path; no nondeterminism source (rand, time seeding, foreign RNG engines, unordered iteration) "
         "occurs in library code (positive controls fire on every run); an if inside a copy operation whose branch copies a member from the source "
         "never tests the destination's own member; a raw back-pointer that a copy operation copies verbatim is re-bound to the copy's own object "
         "on the copy path (the five instances that fired until the fourth session - a copy of a persistently scaled solver kept "
         "pointing at the source's scaler and scaling factors - are repaired: F31 / F31b). Component members that SoPlexBase's set*Param functions configure are copied by the component's operator= or re-applied after the copy; "
         "a flag guarding a member vector is copied together with the vector. Not a proof of bit-identical results.",
    technique="observer read-set vs. copy write-set comparison, constructor-parity dataflow, alias/re-bind rules and forbidden-API scan over the clang-resolved AST and call graph",
    ref="DESIGN.md section 4, C17")

CLAIMED['C16'] = dict(
    text="Structural necessary conditions, exhaustively over every rule instance: in SPxSolverBase::solve no pivot is reachable once the iteration-limit "
         "or interrupt test holds (CFG pruned under the assumption that the test, in exactly its >= form, is true) and the true arms abort with the "
         "right status; in the polishing loops the limit tests lie between any two pivots and set the stop flag every loop tests; abort statuses "
         "are never rewritten to a definite verdict and their arms store solution and basis; the exact solver maps stoppedTime/stoppedIter to "
         "ABORT_TIME/ABORT_ITER and _isSolveStopped compares used amounts with the limits; every iteration/time budget handed to a solver is limit "
         "minus amount already used; the interrupt pointer is forwarded by every caller that has one, and a function that takes it reads or "
         "forwards it (the three instances that fired until the fourth session - the exact solver ignored the interrupt flag - are repaired: F34). "
         "Not a proof of resumability or of objective-limit truth.",
    technique="CFG reachability under guard-true assumptions, decision-table rules on status switches, argument-shape and parameter-forwarding rules over the clang-resolved AST",
    ref="DESIGN.md section 4, C16")

CLAIMED['C09'] = dict(
    text="Structural necessary conditions, exhaustively over every spxLdexp call and rule instance: each scaling / unscaling step applies the exponent "
         "its quantity and direction demand (weight table over row and column exponents; exponent expressions reduced to linear forms with locals "
         "resolved to their nearest preceding definition) and subscripts every exponent array in that array's index domain (row index, column "
         "index, position inside a sparse vector); LP numbers are written by the scalers only as spxLdexp(old, int) and exponents only from "
         "integer expressions; user-level accessors never go through the _scaler pointer; writeFile(unscale) writes an unscaled copy with the same "
         "arguments; the per-row/per-column arrays including the scale exponents move together in every permutation, removal and resize; "
         "single-index setters compare new and stored value in the same space; doAddRow(s) / doAddCol(s) read the other dimension's exponents only "
         "after missing columns / rows have been created. A mirrored copy of scaled data is taken after the scaling, not before. Not a proof that scalers choose good exponents or that ldexp does not overflow.",
    technique="linear-form extraction over exponent arrays with a weight table (units-of-measure style), index-domain inference, parallel-array co-movement and guard-shape rules over the clang-resolved AST",
    ref="DESIGN.md section 4, C09")

CLAIMED['C13'] = dict(
    text="Structural necessary conditions in the reader code (about 100 functions of the LP, MPS, basis and settings readers and NameSet): every fixed-size "
         "char buffer is used only through bounded idioms (classification of every use; pointer walks and index copies bounded only by their source are "
         "reported); placement-new objects are destroyed before their memory is freed and spx_alloc'ed locals are freed on every normal exit; buffers "
         "that share a growing size variable are all re-sized; NameSet::add's capacity guard covers the bytes consumed; failed reads clear what they "
         "built; throwing conversions in the settings front ends are inside try blocks; the test after a stream read takes its exit arm at end of "
         "file; a char pointer is not advanced beyond the terminator it was found on; every call of a reader helper that asserts an input predicate is "
         "unreachable when the predicate is false; an MPS field is used as a string only after a null test since the line was read; no assertion "
         "states something about text or numbers read from the file; every character-scanning loop's condition is false at the terminator. A scalar filled by a stream read is initialised or the read is tested. Positive "
         "controls fire on every run. This pins known-dangerous idioms; it is not a proof of memory safety - a fuzzer is the natural tool for the rest.",
    technique="buffer-use classification, alloc/free and construct/destroy pairing on the CFG, reachability under predicate-false / field-null assumptions, three-valued evaluation of stream-state, terminator and scanning-loop tests, linear guard/consumption comparison over the clang-resolved AST",
    ref="DESIGN.md section 4, C13")

CLAIMED['C12'] = dict(
    text="Structural necessary conditions, exhaustively over every writer token and reader function: every LP keyword, sense, 'free' and infinity "
         "token and every MPS section, row sense and bound indicator the writers emit is accepted by the reader (LP keywords through a "
         "re-implementation of the reader's pattern language, MPS tokens through strcmp literals and switch case labels) and each bound indicator "
         "and row sense is composed with the reader arm it selects; real and rational code use the same tables; default names have one format "
         "everywhere; the LP writer prints 17 significant digits before any number is written and MPS uses %.15; in the rational readers no "
         "floating-point function or temporary lies between a token and its Rational (positive controls fire); no writer cuts a name (a %s conversion "
         "with a precision only for strings bounded by it); every formatted record fits the buffer it is printed into (maximal conversion widths, %f "
         "bounded only under a dominating magnitude test); the writers are total over row / bound kinds (no arm of a split on infinite sides throws); "
         "the zero stripping of the number parser always leaves a digit. A local LP built by a writer gets tolerances before use. Not a proof that the re-read LP is equivalent; the dual writer is not covered.",
    technique="writer-token vs reader-recogniser table composition, constant/precision rules, printf-format width analysis against buffer extents, case-split totality and a type-directed float-detour lint over the clang-resolved AST",
    ref="DESIGN.md section 4, C12")

CLAIMED['C05'] = dict(
    text="Structural necessary conditions in the five basis-inverse / basis-multiply queries: the result of every scaling computation is consumed; wherever "
         "a split on the kind of basis member applies a scale exponent the column arm uses the column exponent and the slack arm the row exponent with "
         "opposite signs; exponents are looked up at number(baseId(E)) of the member that was tested, or at the decoded row index, never at the basis "
         "position, and at an index whose domain (loop bound, vector dimension, parameter contract) is the rows for a row exponent and the columns for "
         "a column exponent; the scaler object is dereferenced only under a test of the pointer itself (or see below); sparse outputs are filled within *ninds after "
         "setup(); products with the basis matrix are accumulated, never collected by appending sparse vectors and densifying; scaled and unscaled "
         "variants of an operation are exclusive; no raw caller-supplied value is combined with a product of a scaled internal vector while scaling is "
         "being undone. The scaler pointer may also be dereferenced under the scaled state of the LP, provided every assignment of that pointer "
         "keeps the invariant scaled => pointer is the scaler that scaled (the five instances that fired until the fourth session are repaired: F28). "
         "Not a proof that the solves return the inverse.",
    technique="discarded-result, net-exponent sign/kind pairing, index-provenance and index-domain, null-discipline, accumulation-shape and homogeneity-under-assumption rules over the clang-resolved AST and CFG",
    ref="DESIGN.md section 4, C05")

CLAIMED['C03'] = dict(
    text="Structural necessary conditions in the exact solver: every transformation bracket (stored LP, lifting, equality form, stored basis, "
         "unboundedness and feasibility problems) is closed on every normal path, under the same parameter and in reverse order; feasibility flags "
         "become true only from exact tolerance comparisons of violations that were computed from one solution, or under an acceptor (rational "
         "reconstruction, exact factorization), and OPTIMAL is assigned only under primalFeasible && dualFeasible; violations and tolerances are "
         "Rational and no floating-point value enters a Rational where violations are computed; the rational objective value is objective times "
         "primal in the user's sense plus the objective offset wherever it is computed; with a persistently scaled real LP the exact solver undoes the "
         "scaling before its first refinement / floating-point solve step. A solution accepted by the exact solver reaches the objective-value computation on every path; the Farkas certificate is normalised for the "
         "optimisation sense. Not a proof that refinement converges or that the transformations and the "
         "reconstruction test are right inside.",
    technique="typestate-style bracket checking on the CFG under parameter assumptions, provenance rules for acceptance flags, type-directed conversion lint over the clang-resolved AST",
    ref="DESIGN.md section 4, C03")

CLAIMED['C08'] = dict(
    text="Bookkeeping clauses only, exhaustively over every rule instance: every removeRow/removeCol of a reduction is dominated in its loop iteration "
         "by an m_hist.append (or fixColumn); every post-step that moves the displaced row/column back does so for all three vectors and then assigns "
         "all three at the re-inserted index on every non-throwing path (classes whose assignment sits in a data-dependent loop are listed as not "
         "decided); all 16 PostStep classes are concrete with own execute/clone and a uniform execute signature; unsimplify runs the whole history "
         "backwards with the vectors in order; every simplifier result is mapped, verdicts never become OPTIMAL, VANISHED is reconstructed from the "
         "presolver; the reduced LP carries simplifier offset + user offset. The Result of every reduction called by simplify() is examined; a bound derived from a row is installed only after the crossing test; sibling "
         "post-steps agree that a BASIC row with zero residual gets its dual assigned. The substance of the property - validity of each reduction and of each "
         "undo formula - is NOT decided: the two seeded formula changes for C08 are not caught.",
    technique="dominance on the back-edge-free CFG, definite-assignment (must-pass) after an index-shift idiom, class-table and decision-table rules over the clang-resolved AST",
    ref="DESIGN.md section 4, C08")

CLAIMED['C04'] = dict(
    text="Structural necessary conditions: the status conversion tables compose to the identity on non-basic statuses, map BASIC to dual statuses and "
         "every dual status back to BASIC, exhaustively over both enumerations with throwing defaults; isBasisValid tests dimensions, the four "
         "invalid status/bound combinations for rows and columns alike and the basic count, and a descriptor is validated before it is installed; the "
         "stored-basis bookkeeping obligations of C06 (index domains, own-dimension resize, remapping over the old dimension) are re-evaluated; the "
         "three basis queries share one three-way split and one source per arm with the slack basis as default; the bound/side status updaters are "
         "mirror images of each other. The lower/upper status maps of the bound updaters are one-to-one. Not a proof that the basis matrix is nonsingular or that a re-used basis reproduces the result.",
    technique="decision-table extraction and composition, validator-shape rules, index-domain rules and a mirror-sibling comparison under a lower<->upper renaming over the clang-resolved AST",
    ref="DESIGN.md section 4, C04")

CLAIMED['C01'] = dict(
    text="Plumbing clauses only: at every call site in SoPlexBase of a producer, transformer or consumer of a solution vector the vector handed over is "
         "of the callee's kind, and the public getters read the stored vector of their own kind; in the store path internal scaling is undone before "
         "unsimplify, an active simplifier always unsimplifies and all four vectors (and the basis) are then taken from it, persistent scaling is "
         "undone before returning, all four vectors and both rays are unscaled with the LP that was passed; the simplex loop assigns OPTIMAL only "
         "under priced && maxinfeas + shift() <= tolerance with no shift left (the documented escape is listed, not counted) and an OPTIMAL solution of "
         "a transformed LP is verified; the objective of a vanished LP uses the user-space objective and offset. where a function splits on the optimisation sense the two arms differ; pricers and ratio testers subscript the solver's "
         "vectors only inside loops over the dimension those vectors have. The numerical substance "
         "(feasibility, dual signs, stationarity, completeness) is NOT decided.",
    technique="vector-kind (units-of-measure) agreement at resolved call sites, must-pass-through under scaling/simplifier assumptions, control-dependence rules on status assignments",
    ref="DESIGN.md section 4, C01")
CLAIMED['C02'] = dict(
    text="Plumbing clauses only: primal rays and Farkas vectors travel through their own producers, unscalers and getters; the 'has ray' / 'has Farkas' "
         "flags are defined from the matching status and from 'the solver holds the user's LP', and under a flag the vector is fetched; simplifier "
         "verdicts map to INFEASIBLE / INForUNBD (an UNBOUNDED verdict of the presolver is never adopted unverified) and never to OPTIMAL; with ENSURERAY a verdict of the simplifier or of a presolved LP is "
         "re-established on the original LP; after an entering pivot apparent unboundedness under an active shift is reset; certificate builders "
         "clear the vector before filling it. That a verdict is true and a certificate valid is NOT decided.",
    technique="vector-kind agreement, flag-definition and flag-implies-fetch rules, decision-table rules on the verdict switches over the clang-resolved AST and CFG",
    ref="DESIGN.md section 4, C02")

CLAIMED['C19'] = dict(
    text="Ownership and removal-shape clauses only: every container / vector class that releases a raw-pointer member in its destructor has user-provided or "
         "deleted copy operations that never copy that pointer verbatim; the address shift returned by the arena reallocators reaches the re-basing code "
         "at every call site, or its discard is structurally justified; removal by permutation in LPRowSetBase / LPColSetBase moves the parallel arrays "
         "for all old indices (bound taken before the removal); no do-while loop is controlled by a countdown that can be zero at entry (positive "
         "control); remove(nums, n) is never implemented by removing one renumbering element at a time; in SVSetBase the amount inserted in place after "
         "ensureMem(E) is bounded by E. loops with a pre-decrement in the condition, loops bounded by a value just set to zero and descending subscript loops that stop "
         "before index 0 are reported; add/append primitives never clear what is there. The abstract-data-type behaviour itself (key stability, dense numbering, permutation results, hash-table "
         "deletion, vector arithmetic, sorting) quantifies over operation sequences and contents and is NOT decided.",
    technique="rule-of-three and returned-shift dataflow rules over class facts and resolved call sites; loop-bound provenance, countdown-loop shape, sequential-removal shape and reservation/consumption comparison over the clang-resolved AST",
    ref="DESIGN.md section 4, C19")

CLAIMED['C10'] = dict(
    text="Structural necessary conditions only; the numerical statement (residuals at rounding level, well-conditioned matrices never reported singular) "
         "is NOT decided. Decided, exhaustively over every rule instance in CLUFactor<R> / SLUFactor<R>: every subscript of a permutation, diagonal, "
         "start/length or index/value array whose index was read from an array of known value domain is of that array's index domain (row, column, "
         "pivot position, file offset; 429 of 806 subscripts are decided, loop counters and parameters carry no verdict); an assignment of SINGULAR "
         "to the status is followed by return / throw, factor() tests the status between its stages, the status is reset to OK only where a "
         "factorization starts or a product-form update completes, SPxBasisBase::factorize maps SINGULAR to a singular unfactorized basis and "
         "throws; in the two- and three-right-hand-side solves every call hands over the data of one right-hand side and every right-hand side "
         "passes the stages of the single solve; plus the generic shape rules over these files.",
    technique="index-domain (units-of-measure) inference over array value domains with alias resolution, statement-successor and decision-table rules, call-argument grouping and stage-set comparison between sibling solve variants over the clang-resolved AST",
    ref="DESIGN.md section 4, C10")

# rules added late in the build (rules/late.py, rules/shapes.py): one sentence per property, appended to the level text
LATE = {
    'C01': "Added late: a loop over basis positions never reads colStatus(i)/rowStatus(i) with the position (R01.7).",
    'C02': "Added late: test() and coTest() of the entering simplex handle the same nonbasic statuses (R02.7); the entry of the entering variable in a ray / Farkas vector carries the opposite sign of the multiplier of the update vector (R02.8).",
    'C03': "Added late: reduced-cost sign and lifted entries (R03.8-R03.10); no array re-sized twice in a row and each basis status array re-sized to a count of its own kind (R03.11); _rangeTypeReal() never sees a value converted from a rational (R03.12); tau is compared with the feasibility tolerance by one operator where the auxiliary solution is accepted and where it is used (R03.13); the normalisation of the dual multipliers by the multiplier of the objective row consults the objective sense (R03.14).",
    'C04': "Added late: after reloading the LP into the solver the stored basis is loaded again (R04.7); SPxSolverBase::status() consults the basis status before reporting OPTIMAL (R04.8).",
    'C07': "Added late: areLPsInSync() reads through the unscaled accessors (R07.11); no rational reaches the floating-point LP through mpq_get_d (R07.12); sense and offset re-applied wherever an LP is cleared or created (R07.13).",
    'C08': "Added late: a verdict UNBOUNDED / DUAL_INFEASIBLE of SPxMainSM is governed by a comparison that uses the dual feasibility tolerance (R08.12); no PostStep::execute() branches on the objective sense (R08.13); FixVariablePS consults the sign of the reduced cost (R08.14); stored m_strictLo / m_strictUp are read by execute() (R08.15).",
    'C09': "Added late: bounds and sides are scaled / unscaled only under a test against infinity (R09.9, R09.10); scaleExp grows with the side / bound arrays (R09.11); with persistent scaling off a scaled LP is unscaled before the solve (R09.12).",
    'C10': "Added late: arrays indexed by l.startSize are re-allocated together (R10.5); a forest* member function calls the forest* twin of every helper that has one (R10.6); sibling cross-check with the rational LU: every CLUFactor<R> member resets each work-vector / table entry that the same member of CLUFactorRational resets (R10.7).",
    'C11': "Added late: co-sized arrays (R11.6), fill-ins queued once (R11.7), a factorization whose status is not OK is discarded before computeBasisInverseRational() returns (R11.8), forest twins (R11.9), the cached factorization is cleared wherever an undo function of the exact solver cuts the basis back (R11.10); sibling cross-check with the floating-point LU: every CLUFactorRational member resets each work-vector / table entry that the same member of CLUFactor<R> resets, so a solve leaves its work vector all-zero for the next sparse right-hand side (R11.11).",
    'C12': "Added late: every vec.add(colidx, ..) of the LP-format reader is governed by a look-up vec.pos(colidx) (R12.9); a GREATER_EQUAL arm that uses lhs(i) as a number handles the free row (R12.10).",
    'C13': "Added late: no decision on a later character of the MPS indicator field alone (R13.15); MPSreadCols tests vec.pos(idx) before vec.add (R13.16); ratFromString() tests the denominator (R13.17); input files are opened through spxOpenInputFile(), never by constructing the throwing stream from a name (R13.18); MPS value fields are converted by the checked helper, never by atof() (R13.19); the LP-format reader counts names against rows (R13.20).",
    'C14': "Added late: saveSettingsFile() writes real parameters with a precision that round-trips a double (R14.7); writeBasisFile() forwards to the solver only if the object has a basis (R14.8).",
    'C15': "Added late: the typed setters skip an unchanged value only when init is false (R15.9); setSettings() does not overwrite the stored settings before calling the setters (R15.10); a setter arm that changes the stored LPs invalidates the solution (R15.11); a # that ends the value token starts a comment (R15.12); conversions consume the whole token and the type token is compared exactly (R15.13); no value is forwarded through a pointer that another parameter re-targets (R15.14); no == / != against realParam(INFTY) (R15.15).",
    'C16': "Added late: every terminal arm of _evaluateResult() clears the row objectives of the refined LP (R16.7); the undo functions of the exact solver subscript the solution vectors only under a condition that says a solution exists (R16.8).",
    'C17': "Added late: an array-of-pointers member copied verbatim is re-bound elementwise by the copy operation of the owning class (R17.12); nothing SoPlexBase::operator= executes after copying status and solution reaches _invalidateSolution() (R17.13); the owned rational LP is released on every path to its re-allocation (R17.14); SLUFactor / SLUFactorRational::assign() re-dimension the temporary vectors they do not copy (R17.15).",
    'C19': "Added late: compound assignment operators (R19.9), key/number inverse maps (R19.10), copying a set of empty vectors (R19.11), no clear() after num was overwritten (R19.12), a one-statement while loop steps the counter its guard tests (R19.13), has(DataKey) range-checks (R19.14), a loop filling a fresh block is not bounded by the old capacity alone (R19.15), loops over theitem are bounded by size() (R19.16), no bounds-asserting subscript to form an address for setMem() (R19.17), reMax() clamps against the size in effect (R19.18), filling members of SVectorBase set the size (R19.19), Array::insert at begin() + i (R19.20), the open-addressing invariants of DataHashTable - the end-of-chain status is assigned only by a loop over all slots so remove() leaves a tombstone, m_used follows every single-slot status change, add() and index() walk the same probe sequence (R19.21-R19.23).",
    'C20': "Added late: every undo of an LP extension of the exact solver re-dimensions the solution vectors of the extended kind on every path, because the getters behind SoPlex_get*Real copy the whole vector into the caller's array (R20.7); memory from new held in a local pointer of a C function is deleted on every path unless returned (R20.8).",
}
SHAPES = " Generic shape rules S1-S12 (rules/shapes.py: infinity comparisons, position-or-minus-one tests, loop bounds, sparse position/index, mirror chains and mirror sibling functions, sense ternaries, comparators, row/column loop domains, argument selection, mirror switch arms) and S13 (rules/late.py: a sign flip of an element inside a loop addresses an element that varies with the loop) are reported under the property that owns the function."

NA = {
}

PENDING = "rule module not built yet in this round (design exists in DESIGN.md section 4); not claimed until its check runs"


def main():
    props = [json.loads(l) for l in open(os.path.join(V, 'properties.jsonl'))]
    checks, na = [], []
    for p in props:
        pid = p['id']
        if pid in CLAIMED and os.path.exists(os.path.join(V, 'rules', pid.lower() + '.py')):
            c = CLAIMED[pid]
            checks.append({
                'property_id': pid,
                'quick_cmd': './check %s' % pid,
                'thorough_cmd': './check %s --tier thorough' % pid,
                'evidence_file': 'evidence/%s.json' % pid,
                'replay_cmd_template': './check %s --replay {path}' % pid,
                'engine': 'spxfacts+spxrules',
                'level_claimed': {'category': 'other', 'text': c['text'] + (' ' + LATE[pid] if pid in LATE else '') + SHAPES, 'design_ref': c['ref']},
                'level_note': NOTE,
                'technique': c['technique'],
            })
        else:
            na.append({'property_id': pid, 'reason': NA.get(pid, PENDING)})
    man = {
        'version': 1,
        'setup_cmd': './setup.sh',
        'hooks': {
            'guard': 'SOPLEX_VERIF_STATIC',
            'enable': 'none needed: the analysis reads the unmodified sources and drives template instantiation from /verif/units/inst_real.cpp; there are no hook commits',
            'baseline_off_cmd': 'ctest --test-dir /repo/_build -j8 --timeout 900',
            'source_commits': [],
            'add_only': True,
        },
        'engines': [
            {'name': 'spxfacts', 'path': 'tools/spxfacts.cc', 'serves_properties': [c['property_id'] for c in checks],
             'kind_free_text': 'libTooling (clang 14) fact extractor: resolved AST + CFG of every function body instantiated from /repo/src'},
            {'name': 'spxrules', 'path': 'rules/', 'serves_properties': [c['property_id'] for c in checks],
             'kind_free_text': 'Python rule engine: CFG pruning under finite assumptions, must-pass-through, dominance, decision tables, call-graph summaries'},
        ],
        'checks': checks,
        'not_applicable': na,
        'notes': 'Static analysis only. Every claimed check decides structural necessary conditions (DESIGN.md section 4), never the behavioural '
                 'statement as a whole. Exit 2 (ANALYSIS-BROKEN) means an anchor vanished or a shape was not recognised: neither pass nor violation.',
    }
    json.dump(man, open(os.path.join(V, 'MANIFEST.json'), 'w'), indent=1)
    print('claimed:', [c['property_id'] for c in checks])
    print('not applicable:', [n['property_id'] for n in na])


if __name__ == '__main__':
    main()
