// E1 spxfacts — rule-agnostic fact extractor for scipopt/soplex (libTooling, clang 14).
//
// For every function body whose *template pattern* lies under --root (and not under an
// excluded prefix) it writes: identity, a compact AST of the body (nodes table), the CFG
// (blocks -> node ids, branch condition, successors), constructor initialisers.  For every
// class / enum / variable with static storage in scope it writes a declaration record.
// Output: one JSON file per pattern source file under --out, strings interned per file.
// The rule engine (Python) does all matching; nothing property-specific lives here.
#include "clang/AST/ASTConsumer.h"
#include "clang/AST/ASTContext.h"
#include "clang/AST/DeclTemplate.h"
#include "clang/AST/ExprCXX.h"
#include "clang/AST/RecursiveASTVisitor.h"
#include "clang/AST/StmtCXX.h"
#include "clang/Analysis/CFG.h"
#include "clang/Frontend/CompilerInstance.h"
#include "clang/Frontend/FrontendAction.h"
#include "clang/Index/USRGeneration.h"
#include "clang/Tooling/CommonOptionsParser.h"
#include "clang/Tooling/Tooling.h"
#include "llvm/Support/CommandLine.h"
#include "llvm/Support/raw_ostream.h"
#include <map>
#include <set>
#include <string>
#include <vector>

using namespace clang;
using namespace clang::tooling;

static llvm::cl::OptionCategory Cat("spxfacts");
static llvm::cl::opt<std::string> OutDir("out", llvm::cl::desc("output directory"), llvm::cl::Required, llvm::cl::cat(Cat));
static llvm::cl::opt<std::string> Root("root", llvm::cl::desc("source root in scope"), llvm::cl::init("/repo/src"), llvm::cl::cat(Cat));
static llvm::cl::opt<std::string> Exclude("exclude", llvm::cl::desc("excluded prefix"), llvm::cl::init("/repo/src/soplex/external"), llvm::cl::cat(Cat));
static llvm::cl::opt<bool> MainOnly("main-only", llvm::cl::desc("only declarations located in the main file"), llvm::cl::cat(Cat));
static llvm::cl::opt<bool> Boosted("boosted", llvm::cl::desc("keep mpfr/cpp_dec_float instantiations"), llvm::cl::cat(Cat));
static llvm::cl::opt<std::string> Tag("tag", llvm::cl::desc("unit tag used in output file names"), llvm::cl::init("u"), llvm::cl::cat(Cat));

namespace {

static void replaceAll(std::string &s, const std::string &a, const std::string &b) {
  size_t p = 0;
  while ((p = s.find(a, p)) != std::string::npos) { s.replace(p, a.size(), b); p += b.size(); }
}
static std::string tidy(std::string s) {
  replaceAll(s, "boost::multiprecision::number<boost::multiprecision::backends::gmp_rational, boost::multiprecision::et_off>", "Rational");
  replaceAll(s, "boost::multiprecision::number<boost::multiprecision::backends::gmp_rational, boost::multiprecision::expression_template_option::et_off>", "Rational");
  replaceAll(s, "boost::multiprecision::number<boost::multiprecision::backends::gmp_rational, 0>", "Rational");
  replaceAll(s, "soplex::Rational", "Rational");
  replaceAll(s, "std::basic_string<char, std::char_traits<char>, std::allocator<char>>", "std::string");
  replaceAll(s, "std::basic_string<char>", "std::string");
  return s;
}
static std::string jsonEsc(const std::string &s) {
  std::string o; o.reserve(s.size() + 2);
  for (unsigned char c : s) {
    switch (c) {
    case '"': o += "\\\""; break;
    case '\\': o += "\\\\"; break;
    case '\n': o += "\\n"; break;
    case '\t': o += "\\t"; break;
    case '\r': o += "\\r"; break;
    default:
      if (c < 0x20 || c >= 0x7f) { char b[8]; snprintf(b, sizeof b, "\\u%04x", c); o += b; }
      else o += (char)c;
    }
  }
  return o;
}

// One output file = one pattern source file.
struct OutFile {
  std::map<std::string, int> sidx;
  std::vector<std::string> strs;
  std::vector<std::string> funcs, classes, enums, globals;
  int S(const std::string &s) {
    auto it = sidx.find(s);
    if (it != sidx.end()) return it->second;
    int k = strs.size(); strs.push_back(s); sidx[s] = k; return k;
  }
};

class Extractor : public RecursiveASTVisitor<Extractor> {
public:
  ASTContext &Ctx;
  SourceManager &SM;
  PrintingPolicy PP;
  std::map<std::string, OutFile> files;
  std::set<std::string> seenFuncs, seenClasses, seenEnums, seenGlobals;
  std::map<const Decl *, std::string> usrCache;

  explicit Extractor(ASTContext &C) : Ctx(C), SM(C.getSourceManager()), PP(C.getLangOpts()) {
    PP.SuppressTagKeyword = true; PP.Bool = true; PP.FullyQualifiedName = true;
    PP.SuppressUnwrittenScope = true; PP.SuppressInlineNamespace = true; PP.TerseOutput = true;
  }
  bool shouldVisitTemplateInstantiations() const { return true; }
  bool shouldVisitImplicitCode() const { return true; }

  std::string usr(const Decl *D) {
    if (!D) return "";
    D = D->getCanonicalDecl();
    auto it = usrCache.find(D);
    if (it != usrCache.end()) return it->second;
    SmallString<256> buf;
    std::string r;
    if (!index::generateUSRForDecl(D, buf)) r = std::string(buf.str());
    usrCache[D] = r;
    return r;
  }
  std::string qname(const NamedDecl *D) {
    std::string s; llvm::raw_string_ostream os(s);
    D->printQualifiedName(os, PP);
    if (auto *FD = dyn_cast<FunctionDecl>(D))
      if (auto *TA = FD->getTemplateSpecializationArgs()) {
        printTemplateArgumentList(os, TA->asArray(), PP);
      }
    os.flush();
    return tidy(s);
  }
  std::string tname(QualType T) {
    if (T.isNull()) return "";
    return tidy(T.getCanonicalType().getAsString(PP));
  }
  // file of the pattern location; "" if out of scope
  std::string fileOf(SourceLocation L, unsigned *line = nullptr) {
    if (L.isInvalid()) return "";
    SourceLocation E = SM.getExpansionLoc(L);
    PresumedLoc P = SM.getPresumedLoc(E);
    if (P.isInvalid()) return "";
    if (line) *line = P.getLine();
    std::string f = P.getFilename();
    // normalise /repo/src/soplex/../soplex.hpp style paths
    for (;;) {
      size_t p = f.find("/../");
      if (p == std::string::npos || p == 0) break;
      size_t q = f.rfind('/', p - 1);
      if (q == std::string::npos) break;
      f.erase(q, p + 3 - q);
    }
    return f;
  }
  bool inScope(const std::string &f, SourceLocation L) {
    if (f.empty()) return false;
    if (MainOnly && !SM.isInMainFile(SM.getExpansionLoc(L))) return false;
    if (f.compare(0, Root.size(), Root) != 0) return false;
    if (!Exclude.empty() && f.compare(0, Exclude.size(), Exclude) == 0) return false;
    return true;
  }
  bool boostedName(const std::string &n) {
    if (Boosted) return false;
    return n.find("mpfr_float_backend") != std::string::npos || n.find("cpp_dec_float") != std::string::npos
        || n.find("float128") != std::string::npos;
  }
  static const FunctionDecl *patternOf(const FunctionDecl *FD) {
    if (const FunctionDecl *P = FD->getTemplateInstantiationPattern()) return P;
    return FD;
  }

  // ---------------------------------------------------------------- function bodies
  struct FnCtx {
    OutFile *out;
    std::string nodes;       // JSON array body
    int n = 0;
    std::map<const Stmt *, int> sid;
    std::map<const Decl *, int> did;     // VarDecl pseudo nodes
    std::map<const Decl *, int> localId; // params + locals
    int nlocals = 0;
  };

  int localIdOf(FnCtx &F, const Decl *D) {
    auto it = F.localId.find(D);
    if (it != F.localId.end()) return it->second;
    int k = F.nlocals++; F.localId[D] = k; return k;
  }
  static bool transparent(const Stmt *S) {
    if (isa<ParenExpr>(S) || isa<ExprWithCleanups>(S) || isa<MaterializeTemporaryExpr>(S) ||
        isa<CXXBindTemporaryExpr>(S) || isa<ConstantExpr>(S) || isa<SubstNonTypeTemplateParmExpr>(S))
      return true;
    if (auto *IC = dyn_cast<ImplicitCastExpr>(S)) {
      switch (IC->getCastKind()) {
      case CK_LValueToRValue: case CK_NoOp: case CK_FunctionToPointerDecay: case CK_ArrayToPointerDecay:
      case CK_DerivedToBase: case CK_UncheckedDerivedToBase: case CK_NullToPointer: case CK_BuiltinFnToFnPtr:
        return true;
      default: return false;
      }
    }
    return false;
  }
  static const Stmt *peel(const Stmt *S) {
    while (S && transparent(S)) {
      const Stmt *c = nullptr;
      for (const Stmt *k : S->children()) { c = k; break; }
      if (auto *SN = dyn_cast<SubstNonTypeTemplateParmExpr>(S)) c = SN->getReplacement();
      if (!c) break;
      S = c;
    }
    return S;
  }

  void refDecl(FnCtx &F, std::string &o, const ValueDecl *D) {
    if (!D) return;
    if (auto *EC = dyn_cast<EnumConstantDecl>(D)) {
      o += ",\"dk\":\"enum\",\"n\":" + std::to_string(F.out->S(qname(EC)));
      o += ",\"v\":" + std::to_string((long long)EC->getInitVal().getExtValue());
      return;
    }
    if (auto *VD = dyn_cast<VarDecl>(D)) {
      bool local = VD->isLocalVarDeclOrParm() && !VD->isStaticLocal();
      if (local) {
        o += std::string(",\"dk\":\"") + (isa<ParmVarDecl>(VD) ? "parm" : "local") + "\"";
        o += ",\"n\":" + std::to_string(F.out->S(VD->getNameAsString()));
        o += ",\"u\":" + std::to_string(F.out->S("L" + std::to_string(localIdOf(F, VD))));
        if (auto *PV = dyn_cast<ParmVarDecl>(VD)) o += ",\"pi\":" + std::to_string(PV->getFunctionScopeIndex());
      } else {
        o += ",\"dk\":\"global\",\"n\":" + std::to_string(F.out->S(qname(VD)));
        o += ",\"u\":" + std::to_string(F.out->S(usr(VD)));
      }
      return;
    }
    if (auto *FD = dyn_cast<FunctionDecl>(D)) {
      o += ",\"dk\":\"func\",\"n\":" + std::to_string(F.out->S(qname(FD)));
      o += ",\"u\":" + std::to_string(F.out->S(usr(FD)));
      return;
    }
    if (auto *FD = dyn_cast<FieldDecl>(D)) {
      o += ",\"dk\":\"field\",\"n\":" + std::to_string(F.out->S(qname(FD)));
      o += ",\"u\":" + std::to_string(F.out->S(usr(FD)));
      return;
    }
    if (auto *ND = dyn_cast<NamedDecl>(D)) {
      o += ",\"dk\":\"other\",\"n\":" + std::to_string(F.out->S(qname(ND)));
    }
  }

  void calleeInfo(FnCtx &F, std::string &o, const FunctionDecl *FD, bool virt) {
    if (!FD) return;
    o += ",\"n\":" + std::to_string(F.out->S(qname(FD)));
    o += ",\"u\":" + std::to_string(F.out->S(usr(FD)));
    if (virt) o += ",\"vc\":1";
  }

  int emitVarDecl(FnCtx &F, const VarDecl *VD) {
    int initIdx = -1;
    if (VD->hasInit()) initIdx = emit(F, VD->getInit());
    int id = F.n++;
    F.did[VD] = id;
    unsigned line = 0; fileOf(VD->getLocation(), &line);
    std::string o = "{\"i\":" + std::to_string(id) + ",\"k\":" + std::to_string(F.out->S("VarDecl")) + ",\"l\":" + std::to_string(line);
    o += ",\"t\":" + std::to_string(F.out->S(tname(VD->getType())));
    bool local = !VD->isStaticLocal() && !VD->hasGlobalStorage();
    o += ",\"n\":" + std::to_string(F.out->S(VD->getNameAsString()));
    if (local) o += ",\"u\":" + std::to_string(F.out->S("L" + std::to_string(localIdOf(F, VD))));
    else { o += ",\"u\":" + std::to_string(F.out->S(usr(VD))) + ",\"st\":1"; }
    if (auto *CAT = Ctx.getAsConstantArrayType(VD->getType()))
      o += ",\"ext\":" + std::to_string((long long)CAT->getSize().getZExtValue());
    if (VD->getType()->isReferenceType()) o += ",\"ref\":1";
    o += ",\"c\":[";
    if (initIdx >= 0) o += std::to_string(initIdx);
    o += "]}";
    if (!F.nodes.empty()) F.nodes += ",\n";
    F.nodes += o;
    return id;
  }

  // post-order emission: children first, so that a node's id is larger than its children's
  int emit(FnCtx &F, const Stmt *S0) {
    if (!S0) return -1;
    const Stmt *S = peel(S0);
    auto it = F.sid.find(S);
    if (it != F.sid.end()) { F.sid[S0] = it->second; return it->second; }

    std::vector<int> kids;
    std::string extra;
    auto named = [&](const char *key, const Stmt *c) {
      if (!c) return;
      const Stmt *p = peel(c);
      auto f = F.sid.find(p);
      if (f != F.sid.end()) extra += std::string(",\"") + key + "\":" + std::to_string(f->second);
    };

    if (auto *DS = dyn_cast<DeclStmt>(S)) {
      for (const Decl *D : DS->decls())
        if (auto *VD = dyn_cast<VarDecl>(D)) kids.push_back(emitVarDecl(F, VD));
    } else if (isa<LambdaExpr>(S)) {
      // body not followed (not part of this function's CFG)
    } else if (auto *DA = dyn_cast<CXXDefaultArgExpr>(S)) {
      kids.push_back(emit(F, DA->getExpr()));
    } else if (auto *DI = dyn_cast<CXXDefaultInitExpr>(S)) {
      kids.push_back(emit(F, DI->getExpr()));
    } else if (auto *CS = dyn_cast<CXXCatchStmt>(S)) {
      kids.push_back(emit(F, CS->getHandlerBlock()));
    } else {
      for (const Stmt *c : S->children()) if (c) kids.push_back(emit(F, c));
    }

    int id = F.n++;
    F.sid[S] = id; F.sid[S0] = id;
    unsigned line = 0; fileOf(S->getBeginLoc(), &line);
    std::string o = "{\"i\":" + std::to_string(id) + ",\"k\":" + std::to_string(F.out->S(S->getStmtClassName())) + ",\"l\":" + std::to_string(line);
    if (auto *E = dyn_cast<Expr>(S)) {
      o += ",\"t\":" + std::to_string(F.out->S(tname(E->getType())));
    }
    if (auto *DR = dyn_cast<DeclRefExpr>(S)) refDecl(F, o, DR->getDecl());
    else if (auto *ME = dyn_cast<MemberExpr>(S)) { refDecl(F, o, ME->getMemberDecl()); if (ME->isArrow()) o += ",\"ar\":1"; }
    else if (auto *MC = dyn_cast<CXXMemberCallExpr>(S)) {
      const CXXMethodDecl *MD = MC->getMethodDecl();
      bool virt = false;
      if (MD && MD->isVirtual()) {
        virt = true;
        if (auto *ME = dyn_cast<MemberExpr>(MC->getCallee()->IgnoreParenImpCasts())) if (ME->hasQualifier()) virt = false;
      }
      calleeInfo(F, o, MD, virt);
    } else if (auto *OC = dyn_cast<CXXOperatorCallExpr>(S)) {
      calleeInfo(F, o, OC->getDirectCallee(), false);
      o += ",\"o\":" + std::to_string(F.out->S(getOperatorSpelling(OC->getOperator())));
    } else if (auto *CE = dyn_cast<CallExpr>(S)) {
      calleeInfo(F, o, CE->getDirectCallee(), false);
    } else if (auto *CC = dyn_cast<CXXConstructExpr>(S)) {
      calleeInfo(F, o, CC->getConstructor(), false);
    } else if (auto *BO = dyn_cast<BinaryOperator>(S)) {
      o += ",\"o\":" + std::to_string(F.out->S(BO->getOpcodeStr().str()));
    } else if (auto *UO = dyn_cast<UnaryOperator>(S)) {
      o += ",\"o\":" + std::to_string(F.out->S((UO->isPostfix() ? std::string("post") : std::string("")) + UnaryOperator::getOpcodeStr(UO->getOpcode()).str()));
    } else if (auto *CA = dyn_cast<CastExpr>(S)) {
      o += ",\"o\":" + std::to_string(F.out->S(CA->getCastKindName()));
    } else if (auto *IL = dyn_cast<IntegerLiteral>(S)) {
      llvm::APInt v = IL->getValue();
      if (v.getActiveBits() <= 62) o += ",\"v\":" + std::to_string((long long)v.getZExtValue());
      else { SmallString<32> b; v.toStringUnsigned(b); o += ",\"v\":\"" + std::string(b.str()) + "\""; }
    } else if (auto *FL = dyn_cast<FloatingLiteral>(S)) {
      SmallString<32> b; FL->getValue().toString(b);
      o += ",\"v\":\"" + std::string(b.str()) + "\"";
    } else if (auto *SL = dyn_cast<StringLiteral>(S)) {
      if (SL->getCharByteWidth() == 1) o += ",\"v\":\"" + jsonEsc(SL->getBytes().str()) + "\"";
    } else if (auto *CL = dyn_cast<CharacterLiteral>(S)) {
      o += ",\"v\":" + std::to_string(CL->getValue());
    } else if (auto *BL = dyn_cast<CXXBoolLiteralExpr>(S)) {
      o += std::string(",\"v\":") + (BL->getValue() ? "1" : "0");
    } else if (auto *UE = dyn_cast<UnaryExprOrTypeTraitExpr>(S)) {
      o += ",\"o\":" + std::to_string(F.out->S(UE->getKind() == UETT_SizeOf ? "sizeof" : "trait"));
      Expr::EvalResult R;
      if (!UE->isValueDependent() && UE->EvaluateAsInt(R, Ctx)) o += ",\"v\":" + std::to_string((long long)R.Val.getInt().getExtValue());
      if (UE->isArgumentType()) o += ",\"at\":" + std::to_string(F.out->S(tname(UE->getArgumentType())));
    } else if (auto *CS = dyn_cast<CaseStmt>(S)) {
      Expr::EvalResult R;
      if (CS->getLHS() && !CS->getLHS()->isValueDependent() && CS->getLHS()->EvaluateAsInt(R, Ctx))
        o += ",\"v\":" + std::to_string((long long)R.Val.getInt().getExtValue());
      named("sub", CS->getSubStmt());
    } else if (auto *GS = dyn_cast<GotoStmt>(S)) {
      o += ",\"n\":" + std::to_string(F.out->S(GS->getLabel()->getNameAsString()));
    } else if (auto *LS = dyn_cast<LabelStmt>(S)) {
      o += ",\"n\":" + std::to_string(F.out->S(LS->getDecl()->getNameAsString()));
    } else if (auto *CT = dyn_cast<CXXCatchStmt>(S)) {
      o += ",\"ct\":" + std::to_string(F.out->S(CT->getExceptionDecl() ? tname(CT->getCaughtType()) : std::string("...")));
    } else if (auto *NE = dyn_cast<CXXNewExpr>(S)) {
      if (NE->isArray()) o += ",\"arr\":1";
      o += ",\"at\":" + std::to_string(F.out->S(tname(NE->getAllocatedType())));
      if (NE->getNumPlacementArgs() > 0) o += ",\"pl\":1";
    } else if (auto *DE = dyn_cast<CXXDeleteExpr>(S)) {
      if (DE->isArrayForm()) o += ",\"arr\":1";
    }
    if (auto *IS = dyn_cast<IfStmt>(S)) { named("cond", IS->getCond()); named("then", IS->getThen()); named("else", IS->getElse()); }
    else if (auto *WS = dyn_cast<WhileStmt>(S)) { named("cond", WS->getCond()); named("body", WS->getBody()); }
    else if (auto *DS = dyn_cast<DoStmt>(S)) { named("cond", DS->getCond()); named("body", DS->getBody()); }
    else if (auto *FS = dyn_cast<ForStmt>(S)) { named("init", FS->getInit()); named("cond", FS->getCond()); named("inc", FS->getInc()); named("body", FS->getBody()); }
    else if (auto *SS = dyn_cast<SwitchStmt>(S)) { named("cond", SS->getCond()); named("body", SS->getBody()); }
    else if (auto *CO = dyn_cast<ConditionalOperator>(S)) { named("cond", CO->getCond()); named("then", CO->getTrueExpr()); named("else", CO->getFalseExpr()); }
    o += extra;
    o += ",\"c\":[";
    bool first = true;
    for (int k : kids) if (k >= 0) { if (!first) o += ","; o += std::to_string(k); first = false; }
    o += "]}";
    if (!F.nodes.empty()) F.nodes += ",\n";
    F.nodes += o;
    return id;
  }

  bool VisitFunctionDecl(FunctionDecl *FD) {
    if (!FD->doesThisDeclarationHaveABody()) return true;
    if (FD->isDependentContext()) return true;
    if (FD->isInvalidDecl()) return true;
    const FunctionDecl *Pat = patternOf(FD);
    unsigned line = 0;
    std::string f = fileOf(Pat->getLocation(), &line);
    if (!inScope(f, Pat->getLocation())) return true;
    // implicit special members: take the location of the class
    std::string name = qname(FD);
    if (boostedName(name)) return true;
    std::string u = usr(FD);
    if (u.empty()) u = name + "#" + tname(FD->getType());
    if (!seenFuncs.insert(u).second) return true;
    Stmt *Body = FD->getBody();
    if (!Body) return true;

    OutFile &O = files[f];
    FnCtx F; F.out = &O;
    for (const ParmVarDecl *P : FD->parameters()) localIdOf(F, P);

    std::string inits;
    if (auto *CD = dyn_cast<CXXConstructorDecl>(FD)) {
      for (const CXXCtorInitializer *I : CD->inits()) {
        int e = emit(F, I->getInit());
        std::string what;
        if (I->isAnyMemberInitializer()) what = qname(I->getAnyMember());
        else if (I->getBaseClass()) what = "base:" + tname(QualType(I->getBaseClass(), 0));
        if (!inits.empty()) inits += ",";
        inits += "{\"f\":" + std::to_string(O.S(what)) + ",\"e\":" + std::to_string(e) + ",\"w\":" + (I->isWritten() ? "1" : "0") + "}";
      }
    }
    int bodyId = emit(F, Body);

    // CFG
    std::string cfgs;
    {
      CFG::BuildOptions BO;
      BO.setAllAlwaysAdd();
      BO.AddInitializers = true;
      std::unique_ptr<CFG> G = CFG::buildCFG(FD, Body, &Ctx, BO);
      if (G) {
        cfgs = "{\"entry\":" + std::to_string(G->getEntry().getBlockID()) + ",\"exit\":" + std::to_string(G->getExit().getBlockID()) + ",\"blocks\":[";
        bool fb = true;
        for (const CFGBlock *B : *G) {
          if (!fb) cfgs += ",\n"; fb = false;
          cfgs += "{\"id\":" + std::to_string(B->getBlockID()) + ",\"e\":[";
          bool fe = true; int last = -1;
          for (const CFGElement &E : *B) {
            int nid = -1;
            if (auto CS = E.getAs<CFGStmt>()) {
              const Stmt *S = CS->getStmt();
              auto it = F.sid.find(S);
              if (it != F.sid.end()) nid = it->second;
              else if (auto *DS = dyn_cast<DeclStmt>(S)) {
                if (DS->isSingleDecl()) { auto d = F.did.find(DS->getSingleDecl()); if (d != F.did.end()) nid = d->second; }
              }
            } else if (auto CI = E.getAs<CFGInitializer>()) {
              auto it = F.sid.find(CI->getInitializer()->getInit());
              if (it != F.sid.end()) nid = it->second;
            }
            if (nid < 0 || nid == last) continue;
            last = nid;
            if (!fe) cfgs += ","; fe = false;
            cfgs += std::to_string(nid);
          }
          cfgs += "]";
          if (const Stmt *T = B->getTerminatorStmt()) { auto it = F.sid.find(T); if (it != F.sid.end()) cfgs += ",\"t\":" + std::to_string(it->second); }
          if (const Stmt *C = B->getTerminatorCondition(false)) { auto it = F.sid.find(C); if (it != F.sid.end()) cfgs += ",\"cond\":" + std::to_string(it->second); }
          if (const Stmt *L = B->getLabel()) { auto it = F.sid.find(L); if (it != F.sid.end()) cfgs += ",\"lab\":" + std::to_string(it->second); }
          if (B->hasNoReturnElement()) cfgs += ",\"nr\":1";
          cfgs += ",\"s\":[";
          bool fs = true;
          for (auto SI = B->succ_begin(); SI != B->succ_end(); ++SI) {
            if (!fs) cfgs += ","; fs = false;
            const CFGBlock *SB = SI->getReachableBlock();
            if (SB) cfgs += std::to_string(SB->getBlockID());
            else if (SI->getPossiblyUnreachableBlock()) cfgs += std::to_string(-2 - (int)SI->getPossiblyUnreachableBlock()->getBlockID());
            else cfgs += "-1";
          }
          cfgs += "]}";
        }
        cfgs += "]}";
      }
    }

    unsigned endline = 0; fileOf(Pat->getEndLoc(), &endline);
    std::string r = "{\"u\":" + std::to_string(O.S(u)) + ",\"name\":" + std::to_string(O.S(name));
    r += ",\"short\":" + std::to_string(O.S(FD->getNameAsString()));
    r += ",\"sig\":" + std::to_string(O.S(tname(FD->getType())));
    r += ",\"line\":" + std::to_string(line) + ",\"endline\":" + std::to_string(endline);
    if (auto *MD = dyn_cast<CXXMethodDecl>(FD)) {
      std::string cn; { llvm::raw_string_ostream os(cn); MD->getParent()->printQualifiedName(os, PP);
        if (auto *Spec = dyn_cast<ClassTemplateSpecializationDecl>(MD->getParent())) printTemplateArgumentList(os, Spec->getTemplateArgs().asArray(), PP); }
      r += ",\"cls\":" + std::to_string(O.S(tidy(tname(Ctx.getRecordType(MD->getParent())))));
      r += ",\"cu\":" + std::to_string(O.S(usr(MD->getParent())));
      const char *acc = MD->getAccess() == AS_public ? "public" : MD->getAccess() == AS_protected ? "protected" : "private";
      r += std::string(",\"acc\":\"") + acc + "\"";
      if (MD->isVirtual()) r += ",\"virtual\":1";
      if (MD->isConst()) r += ",\"const\":1";
      if (MD->isStatic()) r += ",\"static\":1";
      if (!MD->isUserProvided()) r += ",\"implicit\":1";
      std::string ov;
      for (const CXXMethodDecl *B : MD->overridden_methods()) { if (!ov.empty()) ov += ","; ov += std::to_string(O.S(usr(B))); }
      if (!ov.empty()) r += ",\"ov\":[" + ov + "]";
      if (auto *CD = dyn_cast<CXXConstructorDecl>(MD)) {
        r += std::string(",\"mk\":\"") + (CD->isCopyConstructor() ? "copyctor" : CD->isMoveConstructor() ? "movector" : CD->isDefaultConstructor() ? "defctor" : "ctor") + "\"";
      } else if (isa<CXXDestructorDecl>(MD)) r += ",\"mk\":\"dtor\"";
      else if (MD->isCopyAssignmentOperator()) r += ",\"mk\":\"copyassign\"";
      else if (MD->isMoveAssignmentOperator()) r += ",\"mk\":\"moveassign\"";
    }
    if (FD->isExternC()) r += ",\"externc\":1";
    if (FD->getTemplatedKind() != FunctionDecl::TK_NonTemplate || FD->isTemplateInstantiation()) r += ",\"inst\":1";
    r += ",\"params\":[";
    bool fp = true;
    for (const ParmVarDecl *P : FD->parameters()) {
      if (!fp) r += ","; fp = false;
      r += "{\"n\":" + std::to_string(O.S(P->getNameAsString())) + ",\"t\":" + std::to_string(O.S(tname(P->getType()))) + "}";
    }
    r += "]";
    r += ",\"ret\":" + std::to_string(O.S(tname(FD->getReturnType())));
    if (!inits.empty()) r += ",\"inits\":[" + inits + "]";
    r += ",\"body\":" + std::to_string(bodyId);
    r += ",\"nodes\":[\n" + F.nodes + "]";
    if (!cfgs.empty()) r += ",\"cfg\":" + cfgs;
    r += "}";
    O.funcs.push_back(std::move(r));
    return true;
  }

  // ---------------------------------------------------------------- classes
  bool VisitCXXRecordDecl(CXXRecordDecl *RD) {
    if (!RD->isThisDeclarationADefinition() || RD->isDependentContext() || RD->isLambda()) return true;
    const CXXRecordDecl *Pat = RD;
    if (const CXXRecordDecl *P = RD->getTemplateInstantiationPattern()) Pat = P;
    unsigned line = 0;
    std::string f = fileOf(Pat->getLocation(), &line);
    if (!inScope(f, Pat->getLocation())) return true;
    std::string name = tidy(tname(Ctx.getRecordType(RD)));
    if (boostedName(name)) return true;
    std::string u = usr(RD);
    if (!seenClasses.insert(u.empty() ? name : u).second) return true;
    OutFile &O = files[f];
    std::string r = "{\"u\":" + std::to_string(O.S(u)) + ",\"name\":" + std::to_string(O.S(name)) + ",\"line\":" + std::to_string(line);
    r += ",\"bases\":[";
    bool fb = true;
    for (const CXXBaseSpecifier &B : RD->bases()) {
      if (!fb) r += ","; fb = false;
      r += std::to_string(O.S(tname(B.getType())));
    }
    r += "],\"fields\":[";
    bool ff = true;
    for (const FieldDecl *FD : RD->fields()) {
      if (!ff) r += ","; ff = false;
      r += "{\"n\":" + std::to_string(O.S(FD->getNameAsString())) + ",\"q\":" + std::to_string(O.S(qname(FD))) + ",\"u\":" + std::to_string(O.S(usr(FD))) + ",\"t\":" + std::to_string(O.S(tname(FD->getType())));
      if (FD->hasInClassInitializer()) r += ",\"init\":1";
      if (FD->isMutable()) r += ",\"mut\":1";
      QualType T = FD->getType();
      r += std::string(",\"tk\":\"") + (T->isPointerType() ? "ptr" : T->isReferenceType() ? "ref" : T->isBooleanType() ? "bool" : T->isEnumeralType() ? "enum" : T->isIntegerType() ? "int" : T->isFloatingType() ? "float" : T->isArrayType() ? "array" : "class") + "\"";
      r += "}";
    }
    r += "],\"methods\":[";
    bool fm = true;
    for (const CXXMethodDecl *MD : RD->methods()) {
      if (!fm) r += ","; fm = false;
      r += "{\"n\":" + std::to_string(O.S(MD->getNameAsString())) + ",\"u\":" + std::to_string(O.S(usr(MD)));
      r += ",\"sig\":" + std::to_string(O.S(tname(MD->getType())));
      const char *acc = MD->getAccess() == AS_public ? "public" : MD->getAccess() == AS_protected ? "protected" : "private";
      r += std::string(",\"acc\":\"") + acc + "\"";
      if (MD->isVirtual()) r += ",\"virtual\":1";
      if (MD->isPure()) r += ",\"pure\":1";
      if (MD->isConst()) r += ",\"const\":1";
      if (MD->isStatic()) r += ",\"static\":1";
      if (MD->isDeleted()) r += ",\"deleted\":1";
      if (MD->isDefaulted()) r += ",\"defaulted\":1";
      if (MD->isImplicit()) r += ",\"implicit\":1";
      if (MD->isUserProvided()) r += ",\"userprov\":1";
      const char *mk = "method";
      if (auto *CD = dyn_cast<CXXConstructorDecl>(MD)) mk = CD->isCopyConstructor() ? "copyctor" : CD->isMoveConstructor() ? "movector" : CD->isDefaultConstructor() ? "defctor" : "ctor";
      else if (isa<CXXDestructorDecl>(MD)) mk = "dtor";
      else if (MD->isCopyAssignmentOperator()) mk = "copyassign";
      else if (MD->isMoveAssignmentOperator()) mk = "moveassign";
      r += std::string(",\"mk\":\"") + mk + "\"";
      std::string ov;
      for (const CXXMethodDecl *B : MD->overridden_methods()) { if (!ov.empty()) ov += ","; ov += std::to_string(O.S(usr(B))); }
      if (!ov.empty()) r += ",\"ov\":[" + ov + "]";
      r += "}";
    }
    r += "]";
    if (RD->isAbstract()) r += ",\"abstract\":1";
    r += std::string(",\"copyctor\":\"") + (RD->hasUserDeclaredCopyConstructor() ? "user" : (RD->needsImplicitCopyConstructor() && RD->defaultedCopyConstructorIsDeleted()) ? "deleted" : "implicit") + "\"";
    r += std::string(",\"copyassign\":\"") + (RD->hasUserDeclaredCopyAssignment() ? "user" : "implicit") + "\"";
    r += std::string(",\"dtor\":\"") + (RD->hasUserDeclaredDestructor() ? "user" : "implicit") + "\"";
    r += "}";
    O.classes.push_back(std::move(r));
    return true;
  }

  bool VisitEnumDecl(EnumDecl *ED) {
    if (!ED->isThisDeclarationADefinition() || ED->isDependentContext()) {
      if (!ED->isThisDeclarationADefinition()) return true;
    }
    const EnumDecl *Pat = ED;
    if (const EnumDecl *P = ED->getTemplateInstantiationPattern()) Pat = P;
    unsigned line = 0;
    std::string f = fileOf(Pat->getLocation(), &line);
    if (!inScope(f, Pat->getLocation())) return true;
    if (ED->getDeclContext()->isDependentContext()) return true;
    std::string name = qname(ED);
    if (ED->getDeclName().isEmpty()) {
      // typedef enum {...} IntParam;  -> name it after the typedef, else after its line
      std::string outer;
      if (auto *RD = dyn_cast<CXXRecordDecl>(ED->getDeclContext())) outer = tname(Ctx.getRecordType(RD)) + "::";
      else if (auto *PD = dyn_cast<NamedDecl>(ED->getDeclContext())) outer = qname(PD) + "::";
      if (const TypedefNameDecl *TD = ED->getTypedefNameForAnonDecl()) name = tidy(outer + TD->getNameAsString());
      else name = tidy(outer + "(anonymous@" + std::to_string(line) + ")");
    }
    if (boostedName(name)) return true;
    if (!seenEnums.insert(name).second) return true;
    OutFile &O = files[f];
    std::string r = "{\"name\":" + std::to_string(O.S(name)) + ",\"line\":" + std::to_string(line) + ",\"items\":[";
    bool fi = true;
    for (const EnumConstantDecl *EC : ED->enumerators()) {
      if (!fi) r += ","; fi = false;
      r += "[" + std::to_string(O.S(EC->getNameAsString())) + "," + std::to_string((long long)EC->getInitVal().getExtValue()) + "]";
    }
    r += "]}";
    O.enums.push_back(std::move(r));
    return true;
  }

  bool VisitVarDecl(VarDecl *VD) {
    if (!VD->hasGlobalStorage() || isa<ParmVarDecl>(VD)) return true;
    if (VD->getDeclContext()->isDependentContext()) return true;
    if (!VD->isThisDeclarationADefinition() && !VD->isStaticDataMember()) return true;
    const VarDecl *Pat = VD;
    if (const VarDecl *P = VD->getTemplateInstantiationPattern()) Pat = P;
    unsigned line = 0;
    std::string f = fileOf(Pat->getLocation(), &line);
    if (!inScope(f, Pat->getLocation())) return true;
    std::string name = qname(VD);
    if (boostedName(name)) return true;
    std::string u = usr(VD);
    if (!seenGlobals.insert(u.empty() ? name : u).second) return true;
    OutFile &O = files[f];
    QualType T = VD->getType();
    std::string r = "{\"name\":" + std::to_string(O.S(name)) + ",\"u\":" + std::to_string(O.S(u)) + ",\"line\":" + std::to_string(line) + ",\"t\":" + std::to_string(O.S(tname(T)));
    bool c = T.isConstQualified() || VD->isConstexpr();
    if (auto *AT = Ctx.getAsArrayType(T)) c = c || Ctx.getBaseElementType(AT).isConstQualified();
    if (c) r += ",\"const\":1";
    if (VD->getTLSKind() != VarDecl::TLS_None) r += ",\"tls\":1";
    if (VD->isStaticLocal()) r += ",\"staticlocal\":1";
    if (VD->isStaticDataMember()) r += ",\"staticmember\":1";
    if (auto *FD = dyn_cast<FunctionDecl>(VD->getDeclContext())) r += ",\"fn\":" + std::to_string(O.S(qname(FD)));
    r += "}";
    O.globals.push_back(std::move(r));
    return true;
  }
};

class Consumer : public ASTConsumer {
public:
  void HandleTranslationUnit(ASTContext &Ctx) override {
    Extractor X(Ctx);
    X.TraverseDecl(Ctx.getTranslationUnitDecl());
    unsigned nerr = Ctx.getDiagnostics().getClient() ? Ctx.getDiagnostics().getClient()->getNumErrors() : 0;
    size_t nf = 0;
    for (auto &kv : X.files) {
      std::string base = kv.first;
      for (char &c : base) if (c == '/') c = '_';
      std::string path = OutDir + "/" + Tag + "__" + base + ".json";
      std::error_code EC;
      llvm::raw_fd_ostream os(path, EC);
      if (EC) { llvm::errs() << "cannot write " << path << "\n"; continue; }
      OutFile &O = kv.second;
      os << "{\"file\":\"" << jsonEsc(kv.first) << "\",\"unit\":\"" << jsonEsc(Tag) << "\",\"S\":[";
      for (size_t i = 0; i < O.strs.size(); ++i) { if (i) os << ","; os << "\"" << jsonEsc(O.strs[i]) << "\""; }
      os << "],\n\"funcs\":[\n";
      for (size_t i = 0; i < O.funcs.size(); ++i) { if (i) os << ",\n"; os << O.funcs[i]; }
      os << "],\n\"classes\":[\n";
      for (size_t i = 0; i < O.classes.size(); ++i) { if (i) os << ",\n"; os << O.classes[i]; }
      os << "],\n\"enums\":[\n";
      for (size_t i = 0; i < O.enums.size(); ++i) { if (i) os << ",\n"; os << O.enums[i]; }
      os << "],\n\"globals\":[\n";
      for (size_t i = 0; i < O.globals.size(); ++i) { if (i) os << ",\n"; os << O.globals[i]; }
      os << "]}\n";
      nf += O.funcs.size();
    }
    llvm::outs() << "spxfacts unit=" << Tag << " files=" << X.files.size() << " functions=" << nf << " frontend_errors=" << nerr << "\n";
  }
};

class Action : public ASTFrontendAction {
public:
  std::unique_ptr<ASTConsumer> CreateASTConsumer(CompilerInstance &, StringRef) override {
    return std::make_unique<Consumer>();
  }
};

} // namespace

int main(int argc, const char **argv) {
  auto Exp = CommonOptionsParser::create(argc, argv, Cat);
  if (!Exp) { llvm::errs() << llvm::toString(Exp.takeError()); return 2; }
  ClangTool Tool(Exp->getCompilations(), Exp->getSourcePathList());
  int rc = Tool.run(newFrontendActionFactory<Action>().get());
  // front-end errors are reported on stderr by clang; the driver decides what is tolerated
  return rc == 0 ? 0 : 3;
}
