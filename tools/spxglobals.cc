// E5 spxglobals — lists every mutable, non-thread-local global variable that a set of LLVM bitcode
// modules defines (or instantiates as linkonce_odr) and classifies every use of its address:
// load / store / atomic / passed to a callee / returned (then followed one call level up).
// Output: JSON on stdout.  Rule-agnostic; the verdict is taken by rules/c18.py.
#include "llvm/IR/Constants.h"
#include "llvm/IR/DebugInfoMetadata.h"
#include "llvm/IR/Function.h"
#include "llvm/IR/GlobalVariable.h"
#include "llvm/IR/Instructions.h"
#include "llvm/IR/LLVMContext.h"
#include "llvm/IR/Module.h"
#include "llvm/IRReader/IRReader.h"
#include "llvm/Support/SourceMgr.h"
#include "llvm/Support/raw_ostream.h"
#include "llvm/Demangle/Demangle.h"
#include <map>
#include <set>
#include <string>
#include <vector>

using namespace llvm;

static std::string esc(const std::string &s) {
  std::string o;
  for (unsigned char c : s) {
    if (c == '"') o += "\\\""; else if (c == '\\') o += "\\\\"; else if (c < 0x20) { char b[8]; snprintf(b, sizeof b, "\\u%04x", c); o += b; } else o += (char)c;
  }
  return o;
}

struct Use1 { std::string kind, fn, callee; unsigned line = 0; int argno = -1; };

static unsigned lineOf(const Instruction *I) {
  if (const DebugLoc &L = I->getDebugLoc()) return L.getLine();
  return 0;
}

static void classify(const Value *V, std::vector<Use1> &out, std::set<const Value *> &seen, int depth, const Module &M);

static void followReturned(const Function *F, std::vector<Use1> &out, std::set<const Value *> &seen, int depth, const Module &M) {
  if (depth > 2) return;
  for (const User *U : F->users()) {
    if (auto *CB = dyn_cast<CallBase>(U)) {
      if (CB->getCalledOperand()->stripPointerCasts() == F) classify(CB, out, seen, depth + 1, M);
    }
  }
}

static void classify(const Value *V, std::vector<Use1> &out, std::set<const Value *> &seen, int depth, const Module &M) {
  if (!seen.insert(V).second) return;
  for (const User *U : V->users()) {
    if (auto *CE = dyn_cast<ConstantExpr>(U)) { classify(CE, out, seen, depth, M); continue; }
    auto *I = dyn_cast<Instruction>(U);
    if (!I) continue;
    std::string fn = I->getFunction()->getName().str();
    if (auto *LI = dyn_cast<LoadInst>(I)) {
      Use1 u; u.kind = LI->isAtomic() ? "atomic-load" : "load"; u.fn = fn; u.line = lineOf(I); out.push_back(u);
      // a loaded pointer is a different object: not followed
    } else if (auto *SI = dyn_cast<StoreInst>(I)) {
      Use1 u; u.fn = fn; u.line = lineOf(I);
      if (SI->getPointerOperand() == V) u.kind = SI->isAtomic() ? "atomic-store" : "store";
      else u.kind = "address-stored";
      out.push_back(u);
    } else if (isa<AtomicRMWInst>(I) || isa<AtomicCmpXchgInst>(I)) {
      Use1 u; u.kind = "atomic-rmw"; u.fn = fn; u.line = lineOf(I); out.push_back(u);
    } else if (auto *CB = dyn_cast<CallBase>(I)) {
      const Function *Callee = dyn_cast<Function>(CB->getCalledOperand()->stripPointerCasts());
      for (unsigned a = 0; a < CB->arg_size(); ++a) {
        if (CB->getArgOperand(a) == V) {
          Use1 u; u.kind = "passed"; u.fn = fn; u.line = lineOf(I); u.argno = (int)a;
          u.callee = Callee ? Callee->getName().str() : "<indirect>";
          out.push_back(u);
        }
      }
    } else if (isa<GetElementPtrInst>(I) || isa<BitCastInst>(I) || isa<AddrSpaceCastInst>(I) || isa<PHINode>(I) || isa<SelectInst>(I)) {
      classify(I, out, seen, depth, M);
    } else if (isa<ReturnInst>(I)) {
      Use1 u; u.kind = "returned"; u.fn = fn; u.line = lineOf(I); out.push_back(u);
      followReturned(I->getFunction(), out, seen, depth, M);
    } else if (isa<ICmpInst>(I) || isa<PtrToIntInst>(I)) {
      // comparisons of the address: harmless
    } else {
      Use1 u; u.kind = std::string("other:") + I->getOpcodeName(); u.fn = fn; u.line = lineOf(I); out.push_back(u);
    }
  }
}

int main(int argc, char **argv) {
  LLVMContext Ctx;
  outs() << "{\"modules\":[\n";
  bool firstM = true;
  for (int a = 1; a < argc; ++a) {
    SMDiagnostic Err;
    std::unique_ptr<Module> M = parseIRFile(argv[a], Err, Ctx);
    if (!M) { errs() << "cannot read " << argv[a] << "\n"; return 2; }
    if (!firstM) outs() << ",\n"; firstM = false;
    outs() << "{\"file\":\"" << esc(argv[a]) << "\",\"functions\":" << M->size() << ",\"globals\":[\n";
    bool firstG = true;
    for (const GlobalVariable &G : M->globals()) {
      if (G.isDeclaration()) continue;
      if (G.isConstant()) continue;
      StringRef N = G.getName();
      if (N.startswith("llvm.") || N.startswith("_ZTV") || N.startswith("_ZTI") || N.startswith("_ZTS") || N.startswith(".str") || N.startswith("__const")) continue;
      std::vector<Use1> uses; std::set<const Value *> seen;
      classify(&G, uses, seen, 0, *M);
      if (!firstG) outs() << ",\n"; firstG = false;
      std::string dem = demangle(N.str());
      std::string ty; { raw_string_ostream os(ty); G.getValueType()->print(os); }
      unsigned line = 0; std::string dfile;
      SmallVector<DIGlobalVariableExpression *, 1> GVs; G.getDebugInfo(GVs);
      if (!GVs.empty()) { line = GVs[0]->getVariable()->getLine(); dfile = GVs[0]->getVariable()->getFilename().str(); }
      outs() << "{\"name\":\"" << esc(N.str()) << "\",\"demangled\":\"" << esc(dem) << "\",\"tls\":" << (G.isThreadLocal() ? "true" : "false")
             << ",\"guard\":" << (N.startswith("_ZGV") ? "true" : "false") << ",\"linkage\":" << (int)G.getLinkage()
             << ",\"type\":\"" << esc(ty.substr(0, 120)) << "\",\"file\":\"" << esc(dfile) << "\",\"line\":" << line << ",\"uses\":[";
      bool fu = true;
      for (const Use1 &u : uses) {
        if (!fu) outs() << ","; fu = false;
        outs() << "{\"k\":\"" << u.kind << "\",\"fn\":\"" << esc(u.fn) << "\",\"line\":" << u.line;
        if (!u.callee.empty()) outs() << ",\"callee\":\"" << esc(u.callee) << "\",\"arg\":" << u.argno;
        outs() << "}";
      }
      outs() << "]}";
    }
    outs() << "]}";
  }
  outs() << "]}\n";
  return 0;
}
