#!/usr/bin/env python3
"""Generates the micro-mutation patches of /verif/selftest/<prop>/ from /repo's current sources.
Each entry: (property, name, rule expected to fire, file under /repo, old text, new text).  The old text must occur
exactly once.  Re-run after /repo changed at one of these places."""
import difflib
import os
import sys

V = os.path.dirname(os.path.dirname(os.path.abspath(__file__)))
REPO = '/repo'

M = [
    ('C07', 'drop-invalidate-changeLhsReal', 'R07.1', 'src/soplex.hpp',
     "   _changeLhsReal(i, lhs);\n\n   if(intParam(SoPlexBase<R>::SYNCMODE) == SYNCMODE_AUTO)\n   {\n      _rationalLP->changeLhs(i, lhs);\n      _rowTypes[i] = _rangeTypeRational(_rationalLP->lhs(i), _rationalLP->rhs(i));\n   }\n\n   _invalidateSolution();",
     "   _changeLhsReal(i, lhs);\n\n   if(intParam(SoPlexBase<R>::SYNCMODE) == SYNCMODE_AUTO)\n   {\n      _rationalLP->changeLhs(i, lhs);\n      _rowTypes[i] = _rangeTypeRational(_rationalLP->lhs(i), _rationalLP->rhs(i));\n   }\n"),
    ('C07', 'swap-range-type-args', 'R07.2', 'src/soplex.hpp',
     "   _rationalLP->changeRange(i, lhs, rhs);\n   _rowTypes[i] = _rangeTypeRational(lhs, rhs);",
     "   _rationalLP->changeRange(i, lhs, rhs);\n   _rowTypes[i] = _rangeTypeRational(rhs, lhs);"),
    ('C07', 'sync-without-range-types', 'R07.3', 'src/soplex.hpp',
     "   else\n      *_rationalLP = *_realLP;\n\n   _recomputeRangeTypesRational();", "   else\n      *_rationalLP = *_realLP;\n"),
    ('C06', 'changeElement-one-sided', 'R06.3', 'src/soplex/spxlpbase.h',
     "            LPRowSetBase<R>::add2(i, 1, &j, &newVal);\n            LPColSetBase<R>::add2(j, 1, &i, &newVal);", "            LPRowSetBase<R>::add2(i, 1, &j, &newVal);"),
    ('C06', 'override-without-unInit', 'R06.6', 'src/soplex/changesoplex.hpp',
     "   SPxLPBase<R>::changeRow(i, newRow, scale);\n\n   if(SPxBasisBase<R>::status() > SPxBasisBase<R>::NO_PROBLEM)\n      SPxBasisBase<R>::changedRow(i);\n\n   unInit();",
     "   SPxLPBase<R>::changeRow(i, newRow, scale);\n\n   if(SPxBasisBase<R>::status() > SPxBasisBase<R>::NO_PROBLEM)\n      SPxBasisBase<R>::changedRow(i);\n"),
    ('C06', 'helper-swapped-indices', 'R06.2', 'src/soplex.hpp',
     "      if(_basisStatusRows[i] != SPxSolverBase<R>::BASIC && _basisStatusCols[j] == SPxSolverBase<R>::BASIC)",
     "      if(_basisStatusRows[j] != SPxSolverBase<R>::BASIC && _basisStatusCols[j] == SPxSolverBase<R>::BASIC)"),
    ('C11', 'helper-keeps-lu-cache', 'R11.2', 'src/soplex.hpp',
     "         _basisStatusRows[i] = _basisStatusRows[_basisStatusRows.size() - 1];\n         _basisStatusRows.removeLast();\n      }\n   }\n\n   _rationalLUSolver.clear();",
     "         _basisStatusRows[i] = _basisStatusRows[_basisStatusRows.size() - 1];\n         _basisStatusRows.removeLast();\n      }\n   }\n"),
    ('C11', 'row-query-solves-right', 'R11.3', 'src/soplex.hpp',
     "      _rationalLUSolver.solveLeft(vec, *_unitVectorRational(r));", "      _rationalLUSolver.solveRight(vec, *_unitVectorRational(r));"),
    ('C16', 'iteration-test-weakened', 'R16.1', 'src/soplex/spxsolve.hpp',
     "               /* check if we have iterations left */\n               if(maxIters >= 0 && iterations() >= maxIters)\n               {\n                  SPX_MSG_INFO2((*this->spxout), (*this->spxout) << \" --- maximum number of iterations (\" << maxIters\n                                << \") reached\" << std::endl;)\n                  m_status = ABORT_ITER;\n                  stop = true;\n                  break;\n               }\n\n               if(interrupt != nullptr && *interrupt)\n               {\n                  SPX_MSG_INFO2((*this->spxout),\n                                (*this->spxout) << \" --- aborted due to interrupt signal\" << std::endl;)\n                  m_status = ABORT_TIME;\n                  stop = true;\n                  break;\n               }\n\n               enter(enterId);",
     "               /* check if we have iterations left */\n               if(maxIters >= 0 && iterations() > maxIters)\n               {\n                  SPX_MSG_INFO2((*this->spxout), (*this->spxout) << \" --- maximum number of iterations (\" << maxIters\n                                << \") reached\" << std::endl;)\n                  m_status = ABORT_ITER;\n                  stop = true;\n                  break;\n               }\n\n               if(interrupt != nullptr && *interrupt)\n               {\n                  SPX_MSG_INFO2((*this->spxout),\n                                (*this->spxout) << \" --- aborted due to interrupt signal\" << std::endl;)\n                  m_status = ABORT_TIME;\n                  stop = true;\n                  break;\n               }\n\n               enter(enterId);"),
    ('C16', 'abort-arm-rewritten', 'R16.2', 'src/soplex/solvereal.hpp',
     "   case SPxSolverBase<R>::ABORT_TIME:\n   case SPxSolverBase<R>::ABORT_ITER:\n   case SPxSolverBase<R>::REGULAR:\n   case SPxSolverBase<R>::RUNNING:\n",
     "   case SPxSolverBase<R>::ABORT_TIME:\n   case SPxSolverBase<R>::ABORT_ITER:\n      _status = SPxSolverBase<R>::OPTIMAL;\n\n   case SPxSolverBase<R>::REGULAR:\n   case SPxSolverBase<R>::RUNNING:\n"),
    ('C08', 'remove-without-record', 'R08.1', 'src/soplex/spxmainsm.hpp',
     "               std::shared_ptr<PostStep> ptr(new FreeZeroObjVariablePS(lp, j, unconstrained_below,\n                                             col_idx_sorted, this->_tolerances));\n               m_hist.append(ptr);",
     "               std::shared_ptr<PostStep> ptr(new FreeZeroObjVariablePS(lp, j, unconstrained_below,\n                                             col_idx_sorted, this->_tolerances));"),
    ('C09', 'scaleLower-wrong-sign', 'R09.1', 'src/soplex/spxscaler.hpp',
     "   return spxLdexp(lower, -colscaleExp[col]);", "   return spxLdexp(lower, colscaleExp[col]);"),
    ('C09', 'unscaleDual-wrong-array', 'R09.1', 'src/soplex/spxscaler.hpp',
     "      pi[i] = spxLdexp(pi[i], rowscaleExp[i]);", "      pi[i] = spxLdexp(pi[i], -rowscaleExp[i]);"),
    ('C20', 'wrapper-calls-sibling', 'R20.1', 'src/soplex_interface.cpp',
     "   Vector lhsvec(dim, lhs);\n   so->changeLhsReal(lhsvec);", "   Vector lhsvec(dim, lhs);\n   so->changeRhsReal(lhsvec);"),
    ('C20', 'bounds-swapped', 'R20.3', 'src/soplex_interface.cpp',
     "   so->addColReal(LPCol(objval, col, ub, lb));", "   so->addColReal(LPCol(objval, col, lb, ub));"),
    ('C14', 'writer-token-unknown-to-reader', 'R14.1', 'src/soplex/spxbasis.hpp', "            os << \" UL \"", "            os << \" UB \""),
    ('C15', 'table-entry-missing', 'R15.1', 'src/soplex.hpp',
     "   upper[SoPlexBase<R>::REPRESENTATION] = 2;\n", "   upper[SoPlexBase<R>::OBJSENSE] = 2;\n"),
    ('C01', 'dual-into-redcost', 'R01.1', 'src/soplex/solvereal.hpp',
     "   _solver.getDualSol(_solReal._dual);\n   _solver.getRedCostSol(_solReal._redCost);", "   _solver.getDualSol(_solReal._redCost);\n   _solver.getRedCostSol(_solReal._dual);"),
    ('C01', 'persistent-unscale-skipped', 'R01.2', 'src/soplex/solvereal.hpp',
     "   if(_isRealLPScaled)\n      _unscaleSolutionReal(*_realLP, true);\n\n   // check solution for violations and solve again if necessary", "   // check solution for violations and solve again if necessary"),
    ('C02', 'ray-of-presolved-lp-offered', 'R02.2', 'src/soplex/solvereal.hpp',
     "   _solReal._hasPrimalRay = (status() == SPxSolverBase<R>::UNBOUNDED && _isRealLPLoaded);", "   _solReal._hasPrimalRay = (status() == SPxSolverBase<R>::UNBOUNDED);"),
    ('C03', 'lp-not-restored', 'R03.1', 'src/soplex/solverational.hpp',
     "   // restore objective, bounds, and sides of Real LP in case they have been modified during iterative refinement\n   _restoreLPReal();", "   // restore objective, bounds, and sides of Real LP in case they have been modified during iterative refinement"),
    ('C04', 'validator-accepts-infinite-upper', 'R04.2', 'src/soplex/spxsolver.hpp',
     "                  || (p_cols[col] == ON_UPPER && this->upper(col) >= R(infinity))\n", ""),
    ('C04', 'round-trip-broken', 'R04.1', 'src/soplex/spxsolver.hpp',
     "      case ZERO :\n         cstat = SPxBasisBase<R>::Desc::P_FREE;", "      case ZERO :\n         cstat = SPxBasisBase<R>::Desc::P_ON_LOWER;"),
    ('C05', 'slack-exponent-same-sign', 'R05.2', 'src/soplex.hpp',
     "               scaleExp = - _scaler->getRowScaleExp(_solver.number(_solver.basis().baseId(r)));", "               scaleExp = _scaler->getRowScaleExp(_solver.number(_solver.basis().baseId(r)));"),
    ('C12', 'mps-bound-token-unknown', 'R12.1', 'src/soplex/spxlpbase_real.hpp',
     "            MPSwriteRecord(p_output, \"UP\", \"BOUND\", getColName(*this, i, p_cnames, name1), upper(i));", "            MPSwriteRecord(p_output, \"XX\", \"BOUND\", getColName(*this, i, p_cnames, name1), upper(i));"),
    ('C16', 'interrupt-not-forwarded', 'R16.5', 'src/soplex/solvereal.hpp', "      _preprocessAndSolveReal(true, interrupt);", "      _preprocessAndSolveReal(true);"),
    ('C17', 'flag-not-copied', 'R17.1', 'src/soplex.hpp', "      _hasBasis = rhs._hasBasis;\n", ""),
    # generic shape rules (rules/shapes.py)
    ('C06', 'changeUpper-scales-as-lower', 'R06.S7', 'src/soplex/spxlpbase.h',
     "         LPColSetBase<R>::upper_w(i) = lp_scaler->scaleUpper(*this, i, newUpper);", "         LPColSetBase<R>::upper_w(i) = lp_scaler->scaleLower(*this, i, newUpper);"),
    ('C06', 'changeUpper-tests-minus-infinity', 'R06.S7', 'src/soplex/spxlpbase.h',
     "      if(scale && newUpper < R(infinity))", "      if(scale && newUpper < R(-infinity))"),
    ('C19', 'permutation-entry-tested-positive', 'R19.S2', 'src/soplex/lprowsetbase.h',
     "      SVSetBase<R>::remove(perm);\n\n      for(int i = 0; i < j; ++i)\n      {\n         if(perm[i] >= 0 && perm[i] != i)", "      SVSetBase<R>::remove(perm);\n\n      for(int i = 0; i < j; ++i)\n      {\n         if(perm[i] > 0 && perm[i] != i)"),
    ('C06', 'lower-compared-with-plus-infinity', 'R06.S1', 'src/soplex/changesoplex.hpp',
     "      if(newLower <= R(-infinity))", "      if(newLower <= R(infinity))"),
    # C10 (floating-point LU)
    ('C10', 'diagonal-by-column-index', 'R10.1', 'src/soplex/clufactor.hpp',
     "   n = 0;\n\n   for(i = thedim - 1; i >= 0; --i)\n   {\n      r = rorig[i];\n      x = diag[r] * rhs[r];\n\n      if(isNotZero(x, eps))",
     "   n = 0;\n\n   for(i = thedim - 1; i >= 0; --i)\n   {\n      r = rorig[i];\n      c = corig[i];\n      x = diag[c] * rhs[r];\n\n      if(isNotZero(x, eps))"),
    ('C10', 'singular-without-return', 'R10.2', 'src/soplex/clufactor.hpp',
     "      else if(k == 0)\n      {\n         this->stat = SLinSolver<R>::SINGULAR;\n         return;\n      }\n   }", "      else if(k == 0)\n      {\n         this->stat = SLinSolver<R>::SINGULAR;\n      }\n   }"),
    ('C10', 'second-rhs-with-first-count', 'R10.3', 'src/soplex/clufactor.hpp',
     "   rn = vSolveUright(vec, idx, rhs, ridx, rn, eps);\n\n   vSolveUrightNoNZ(vec2, rhs2, ridx2, rn2, eps2);\n\n   /*\n    *  rn = vSolveUright2(",
     "   rn = vSolveUright(vec, idx, rhs, ridx, rn, eps);\n\n   vSolveUrightNoNZ(vec2, rhs2, ridx2, rn, eps2);\n\n   /*\n    *  rn = vSolveUright2("),
    ('C10', 'second-rhs-skips-update-stage', 'R10.3', 'src/soplex/clufactor.hpp',
     "      rn = vSolveUpdateRight(vec, idx, rn, eps);\n      vSolveUpdateRightNoNZ(vec2, eps2);\n   }\n\n   return rn;",
     "      rn = vSolveUpdateRight(vec, idx, rn, eps);\n   }\n\n   return rn;"),
    ('C17', 'basis-backpointer-not-rebound', 'R17.6', 'src/soplex/spxsolver.hpp', "         SPxBasisBase<R>::theLP = this;\n\n         // the basis matrix is an array", "         // the basis matrix is an array"),
    ('C17', 'guard-reads-destination', 'R17.5', 'src/soplex/slufactor.hpp', "   if(old.l.ridx != nullptr)\n   {\n      assert(old.l.rbeg  != nullptr);", "   if(this->l.ridx != nullptr)\n   {\n      assert(old.l.rbeg  != nullptr);"),
    ('C18', 'mutable-global-counter', 'R18.1', 'src/soplex/spxout.cpp',
     "namespace soplex\n{\n", "namespace soplex\n{\nstatic int spxout_instances = 0;\nint countSPxOutInstances() { return ++spxout_instances; }\n"),
    ('C19', 'shift-discarded', 'R19.2', 'src/soplex/svsetbase.h',
     "      ptrdiff_t delta = SVSetBaseArray::reMax(newmax);", "      SVSetBaseArray::reMax(newmax);\n      ptrdiff_t delta = 0;"),
    ('C13', 'buffer-limit-too-large', 'R13.1', 'src/soplex/mpsinput.h',
     "      spxSnprintf(m_probname, MAX_LINE_LEN, \"%s\", p_probname);", "      spxSnprintf(m_probname, 2 * MAX_LINE_LEN, \"%s\", p_probname);"),
]


def main():
    bad = 0
    for prop, name, rule, rel, old, new in M:
        p = os.path.join(REPO, rel)
        s = open(p).read()
        if s.count(old) != 1:
            print('SKIP %s/%s: old text occurs %d times in %s' % (prop, name, s.count(old), rel))
            bad += 1
            continue
        t = s.replace(old, new)
        d = ''.join(difflib.unified_diff(s.splitlines(True), t.splitlines(True), 'a/' + rel, 'b/' + rel, n=3))
        os.makedirs(os.path.join(V, 'selftest', prop), exist_ok=True)
        open(os.path.join(V, 'selftest', prop, 'mut-%s__%s.patch' % (name, rule)), 'w').write(d)
    print('%d mutants written, %d skipped' % (len(M) - bad, bad))
    return 1 if bad else 0


if __name__ == '__main__':
    sys.exit(main())
