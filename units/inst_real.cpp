// U-inst: analysis-only translation unit owned by /verif (never compiled into anything).
// It includes only /repo/src headers and forces every member function of the header
// templates into the resolved AST by explicit instantiation, so that the rules visit
// code that no test and no shipped unit instantiates.
#include "soplex.h"
#include "soplex/spxautopr.h"
#include "soplex/spxhybridpr.h"
#include "soplex/spxweightpr.h"
#include "soplex/spxsteepexpr.h"
#include "soplex/spxparmultpr.h"
#include "soplex/spxdantzigpr.h"
#include "soplex/spxdevexpr.h"
#include "soplex/spxsteeppr.h"
#include "soplex/spxdefaultrt.h"
#include "soplex/spxharrisrt.h"
#include "soplex/spxfastrt.h"
#include "soplex/spxboundflippingrt.h"
#include "soplex/spxweightst.h"
#include "soplex/spxsumst.h"
#include "soplex/spxvectorst.h"
#include "soplex/spxequilisc.h"
#include "soplex/spxgeometsc.h"
#include "soplex/spxleastsqsc.h"
#include "soplex/spxmainsm.h"
#include "soplex/slufactor.h"
#include "soplex/slufactor_rational.h"
#include "soplex/datahashtable.h"
#include "soplex/nameset.h"
#include "soplex/mpsinput.h"

namespace soplex
{
template class SoPlexBase<double>;
template class SPxSolverBase<double>;
template class SPxBasisBase<double>;
template class SPxLPBase<double>;
template class SPxMainSM<double>;
template class SPxScaler<double>;
template class SPxEquiliSC<double>;
template class SPxGeometSC<double>;
template class SPxLeastSqSC<double>;
template class SLUFactor<double>;
template class CLUFactor<double>;
template class SPxAutoPR<double>;
template class SPxHybridPR<double>;
template class SPxWeightPR<double>;
template class SPxSteepExPR<double>;
template class SPxSteepPR<double>;
template class SPxParMultPR<double>;
template class SPxDantzigPR<double>;
template class SPxDevexPR<double>;
template class SPxDefaultRT<double>;
template class SPxHarrisRT<double>;
template class SPxFastRT<double>;
template class SPxBoundFlippingRT<double>;
template class SPxWeightST<double>;
template class SPxSumST<double>;
template class SPxVectorST<double>;
template class SPxStarter<double>;
template class SPxPricer<double>;
template class SPxRatioTester<double>;
template class SPxSimplifier<double>;
template class SVSetBase<double>;
template class LPRowSetBase<double>;
template class LPColSetBase<double>;
template class LPRowBase<double>;
template class LPColBase<double>;
template class SVectorBase<double>;
template class DSVectorBase<double>;
template class SSVectorBase<double>;
template class UnitVectorBase<double>;
template class DataArray<int>;
template class DataArray<double>;
template class DataArray<bool>;
template class ClassArray<Nonzero<double>>;
template class Array<double>;
template class Array<UnitVectorBase<double>>;
template class DataSet<int>;
template class ClassSet<SVSetBase<double>::DLPSV>;
template class DataHashTable<NameSet::Name, DataKey>;

// member templates are not covered by the explicit class instantiations above: the vector conversions and the bulk append
template SVectorBase<double>& SVectorBase<double>::operator=<double>(const SSVectorBase<double>&);
template SVectorBase<double>& SVectorBase<double>::operator=<double>(const SVectorBase<double>&);
template void DSVectorBase<double>::add<double>(const SVectorBase<double>&);
template DSVectorBase<double>& DSVectorBase<double>::operator=<double>(const SVectorBase<double>&);
template VectorBase<double>& VectorBase<double>::operator=<double>(const SVectorBase<double>&);
template VectorBase<double>& VectorBase<double>::operator-=<double>(const SSVectorBase<double>&);
template VectorBase<double>& VectorBase<double>::operator+=<double>(const SSVectorBase<double>&);
template VectorBase<double>& VectorBase<double>::operator-=<double>(const SVectorBase<double>&);
template VectorBase<double>& VectorBase<double>::operator+=<double>(const SVectorBase<double>&);
}
