// Positive controls for rules whose expected match count on /repo is zero.  This file is owned by /verif,
// analysed by E1 under the tag "ctl" with --root /verif/units, never compiled into anything.  Each function
// contains exactly the construct its rule must report; a run in which a control does NOT fire is
// ANALYSIS-BROKEN (the matcher went blind), never a pass.
#include <cassert>
#include <algorithm>
#include <cctype>
#include <cstdlib>
#include <cstring>
#include <ctime>
#include <sstream>
#include <string>
#include <vector>
#include <unordered_map>
#include "soplex/spxdefines.h"
#include "soplex/basevectors.h"
#include "soplex/didxset.h"

namespace verif_ctl
{
// R14.2: loop-carried accumulation of generated names (the shape of finding F1)
int accumulating_names(int n, std::vector<std::string>& out)
{
   std::stringstream name;

   for(int j = 0; j < n; ++j)
   {
      name << "x" << j;
      out.push_back(name.str());
   }

   return n;
}

// R14.2 negative control: fresh stream per item
int fresh_names(int n, std::vector<std::string>& out)
{
   for(int j = 0; j < n; ++j)
   {
      std::stringstream name;
      name << "x" << j;
      out.push_back(name.str());
   }

   return n;
}

// R18.2 / R17.4: non-reentrant and nondeterministic library calls
char* uses_strtok(char* s)
{
   return strtok(s, " ");
}

int uses_rand()
{
   srand((unsigned) time(nullptr));
   return rand();
}

// R17.4: iteration over an unordered container
int iterates_unordered(const std::unordered_map<int, int>& m)
{
   int s = 0;

   for(const auto& kv : m)
      s = s * 31 + kv.first;

   return s;
}

// R18.1: mutable global written after static initialisation
static int g_counter = 0;
int bumps_global()
{
   return ++g_counter;
}

// R18.1b: function-local statics that are shared between objects: a mutable one, and a const one whose value is fixed
// by whichever caller comes first
int static_buffer_writer(const char* s)
{
   static char remembered[16];

   if(remembered[0] == '\0')
      strncpy(remembered, s, 15);

   return remembered[0];
}

int static_from_argument(int n)
{
   static const int first = n * 2;
   return first;
}

// R13.1: unbounded copy into a fixed-size buffer (the shape of finding F2)
void unbounded_copy(const char* src)
{
   char name[16];
   int i = 0;

   while(*src != '\0' && *src != ' ')
      name[i++] = *src++;

   name[i] = '\0';
   (void) name;
}

// R13.4: throwing conversion outside any try block
int unguarded_stoi(const char* s)
{
   return std::stoi(s);
}

// R12.4: floating detour on a path that is supposed to be exact
double parses_with_atof(const char* s)
{
   return atof(s);
}

// R05.6: a matrix-vector product collected by appending sparse columns and densified by assignment (the shape of finding F32)
double sums_columns_by_append(const soplex::SVectorBase<double>* cols, const double* x, int n, int dim)
{
   soplex::DSVectorBase<double> y(dim);

   for(int i = 0; i < n; ++i)
      y.add(x[i] * cols[i]);

   soplex::VectorBase<double> dense(dim);
   dense = y;
   return dense[0];
}

// R13.11: an assertion about the character class of text that comes from a file (the shape of finding F37)
int asserts_digits(const char* text)
{
   std::string s(text);
   assert(std::all_of(s.begin(), s.end(), ::isdigit));
   return atoi(s.c_str());
}

// R13.11 (second pattern): a section reader asserting a relation between numbers it has read from the file (the shape of F40)
struct RowsCtl { double lhs(int) const; double rhs(int) const; double& rhs_w(int); };
void MPSreadRangesControl(RowsCtl& rset, int idx, double val)
{
   assert(rset.lhs(idx) == rset.rhs(idx));
   rset.rhs_w(idx) += val;
}

// R19.4: a do-while controlled by a countdown runs its body once even when the count is zero (the shape of findings F55 / F57)
void countdown_do_while(int* a, int n, int count)
{
   do
   {
      --count;
      a[n + count] = 0;
   }
   while(count > 0);
}

// R19.7: loop shapes that silently skip work (the shapes of findings F65 / F68)
int predecrement_condition(int* key, int n, int last)
{
   for(int i = last; --n; --i)
      key[n] = i;

   return n;
}

int zero_bound_loop(const int* src, int* dst)
{
   int nnz = 0;

   for(int i = 0; i < nnz; ++i)
   {
      dst[nnz] = src[i];
      ++nnz;
   }

   return nnz;
}

// R19.8: an "append" that throws away what is there (the shape of finding F66)
struct AppendCtl
{
   std::vector<int> data;
   void clear() { data.clear(); }
   void add(const AppendCtl& other)
   {
      clear();
      data.insert(data.end(), other.data.begin(), other.data.end());
   }
};
void use_append_ctl(AppendCtl& a, const AppendCtl& b) { a.add(b); }

// R19.7 (third shape): a descending loop over all entries that stops before index 0 (the shape of seeded change C07-4)
int descending_skips_zero(const int* a, int size)
{
   int sum = 0;

   for(int j = size - 1; j > 0; --j)
      sum += a[j];

   return sum;
}
// generic shape rules (rules/shapes.py): one positive control per shape
// S1: a comparison with infinity that is always true
bool infinity_tautology(double lower)
{
   return lower <= double(soplex::infinity);
}

// S2: the result of a "position or -1" function tested with > 0: position 0 counts as not found
bool sentinel_excludes_zero(const soplex::DIdxSet& set, int i)
{
   return set.pos(i) > 0;
}

// S2 (arrays): a permutation entry tested with > 0
int perm_excludes_zero(const int* perm, int n)
{
   int kept = 0;

   for(int i = 0; i < n; ++i)
      if(perm[i] > 0)
         ++kept;

   return kept;
}

// S5: a loop over the positions of a sparse vector that subscripts the vector by index with the position
double position_used_as_index(const soplex::SVectorBase<double>& vec)
{
   double sum = 0.0;

   for(int i = 0; i < vec.size(); ++i)
      sum += vec[i];

   return sum;
}

// S6: an else-if chain whose conditions are sign mirror images and whose second arm mixes the two sides
double mirror_arm_mixed(double val, double sLo, double sUp)
{
   double slackVal = 0.0;

   if(val > 0)
   {
      if(sUp >= double(soplex::infinity))
         return 1.0;

      slackVal = sUp;
   }
   else if(val < 0)
   {
      if(sUp >= double(soplex::infinity))
         return 1.0;

      slackVal = sLo;
   }

   return slackVal;
}

// S7: mirror-named member functions with the same shape where one of them mixes the sides
struct BoundsCtl
{
   double lo[4];
   double up[4];
   double changeLower(int i, double v)
   {
      if(v <= double(-soplex::infinity))
         lo[i] = double(-soplex::infinity);
      else
         lo[i] = v;

      return lo[i];
   }
   double changeUpper(int i, double v)
   {
      if(v >= double(soplex::infinity))
         up[i] = double(soplex::infinity);
      else
         lo[i] = v;

      return up[i];
   }
};
double use_bounds_ctl(BoundsCtl& b) { return b.changeLower(0, 1.0) + b.changeUpper(0, 2.0); }

// R08.8: a sign test on a value computed from the raw objective coefficient
struct ObjLpCtl
{
   double c[4];
   double obj(int j) const { return c[j]; }
};
bool raw_objective_sign_test(const ObjLpCtl& lp, int j, double aij)
{
   double sObj = lp.obj(j) / aij;
   return sObj > 0.0;
}

// S8: a sense ternary that negates a different quantity
double sense_negates_other(bool MINIMIZE, const double* obj, int j, int k)
{
   return MINIMIZE ? obj[k] : -obj[j];
}

// R19.9: a subtraction operator that adds
struct MinusCtl
{
   double val[4];
   MinusCtl& operator-=(const MinusCtl& o)
   {
      for(int i = 0; i < 4; ++i)
         val[i] += o.val[i];

      return *this;
   }
};
void use_minus_ctl(MinusCtl& a, const MinusCtl& b) { a -= b; }

// S12: a switch that swaps one side only
enum SideCtl { ON_LOWER, ON_UPPER, BASIC };
SideCtl swap_one_side_only(SideCtl s)
{
   SideCtl r = BASIC;

   switch(s)
   {
   case ON_LOWER:
      r = ON_UPPER;
      break;

   case ON_UPPER:
   case BASIC:
   default:
      r = s;
      break;
   }

   return r;
}

// S9: a comparator that transforms only one of its interchangeable arguments
bool one_sided_comparator(char ch1, char ch2)
{
   return ch1 == std::toupper(ch2);
}

// R11.5: the diagonal (addressed by row) read with a column index
struct LuCtl
{
   struct { int* orig; int* perm; } row, col;
   double* diag;
   double diag_by_column(int i) const
   {
      int c = col.orig[i];
      return diag[c];
   }
};
double use_lu_ctl(const LuCtl& l) { return l.diag_by_column(0); }

// S3: an ascending loop that starts at 1 although nothing handled the element 0
double ascending_skips_zero(const double* a, int n)
{
   double sum = 1.0;

   for(int i = 1; i < n; ++i)
      sum += a[i];

   return sum;
}

// S10: a row counter used to address column data
struct RowColCtl
{
   int nRows() const { return 3; }
   int nCols() const { return 5; }
   double lo[5];
   double lower(int j) const { return lo[j]; }
};
double row_counter_addresses_columns(const RowColCtl& lp)
{
   double s = 0.0;

   for(int i = 0; i < lp.nRows(); ++i)
      s += lp.lower(i);

   return s;
}

// S11: swapped arguments
struct RangeCtl
{
   double l, u;
   void changeRange(double newLhs, double newRhs) { l = newLhs; u = newRhs; }
};
void swapped_arguments(RangeCtl& r, double lhs, double rhs) { r.changeRange(rhs, lhs); }
}

// R19.17: the address one past the last element formed with a bounds-asserting subscript and handed to setMem()
namespace verif_ctl
{
struct CheckedArrCtl
{
   double* data;
   int thesize;
   double& operator[](int n) { return data[n]; }
};
struct VecCtl { void setMem(int n, double* m); };
void address_by_checked_subscript(CheckedArrCtl& arr, VecCtl& v, int used)
{
   v.setMem(0, &arr[used]);
}
}
