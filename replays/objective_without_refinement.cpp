// F61: exact solve with iterative_refinement = false: when the first floating-point solution already meets the (zero) tolerances the
// solve routine returned before the objective value is computed; objValueRational() reported a stale 0.
#include "soplex.h"
#include <iostream>
using namespace soplex;
int main()
{
   SoPlex s;
   s.setIntParam(SoPlex::VERBOSITY, 0);
   s.setIntParam(SoPlex::SOLVEMODE, SoPlex::SOLVEMODE_RATIONAL);
   s.setIntParam(SoPlex::SYNCMODE, SoPlex::SYNCMODE_AUTO);
   s.setRealParam(SoPlex::FEASTOL, 0.0);
   s.setRealParam(SoPlex::OPTTOL, 0.0);
   s.setBoolParam(SoPlex::ITERATIVE_REFINEMENT, false);
   s.setIntParam(SoPlex::OBJSENSE, SoPlex::OBJSENSE_MINIMIZE);
   DSVectorRational c(0);
   s.addColRational(LPColRational(1, c, Rational(infinity), 1));      // min x, x >= 1
   s.setRealParam(SoPlex::OBJ_OFFSET, 3.0);
   SPxSolver::Status st = s.optimize();
   std::cout << "status " << st << " objective " << s.objValueRational() << " (expected 4)" << std::endl;
   return s.objValueRational() == 4 ? 0 : 1;
}
