// F41b (behaviour): a copy-constructed SoPlex never receives storeBasisSimplexFreq (SPxSolverBase's constructor does not initialise it,
// SPxSolverBase::operator= does not copy it, and only SoPlexBase::setIntParam ever sets it).  With precision boosting enabled the exact
// solver evaluates `iterations() % storeBasisSimplexFreq` in the floating-point simplex loop: in the copy the divisor is 0 / indeterminate.
#include "soplex.h"
#include <iostream>
using namespace soplex;
int main(int argc, char** argv)
{
   SoPlex a;
   a.setIntParam(SoPlex::VERBOSITY, 0);
   a.setIntParam(SoPlex::READMODE, SoPlex::READMODE_RATIONAL);
   a.setIntParam(SoPlex::SOLVEMODE, SoPlex::SOLVEMODE_RATIONAL);
   a.setIntParam(SoPlex::SYNCMODE, SoPlex::SYNCMODE_AUTO);
   a.setIntParam(SoPlex::CHECKMODE, SoPlex::CHECKMODE_RATIONAL);
   a.setRealParam(SoPlex::FEASTOL, 0.0);
   a.setRealParam(SoPlex::OPTTOL, 0.0);
   a.setBoolParam(SoPlex::PRECISION_BOOSTING, true);
   a.readFile(argc > 1 ? argv[1] : "/repo/check/instances/afiro.mps");
   SoPlex b(a);
   std::cout << "a: " << a.optimize() << std::endl;
   std::cout << "b: " << b.optimize() << std::endl;      // copy of the same LP with the same parameters
   return 0;
}
