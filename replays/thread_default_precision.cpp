// F12 (C18): SoPlex uses BP::default_precision(v) / BP::default_precision(); with Boost >= 1.76 the
// setter writes, and the getter reads, one process-wide value. Thread A's view of "its" precision is
// changed by thread B merely constructing a solver object.
#include "soplex.h"
#include <thread>
#include <iostream>
#include <atomic>
using namespace soplex;
using BP = boost::multiprecision::number<boost::multiprecision::mpfr_float_backend<0>, boost::multiprecision::et_off>;
int main(){
  std::atomic<int> stage{0}; unsigned seenBefore=0, seenAfter=0;
  std::thread A([&]{ SoPlex a;                 // sets the default to 50 digits, as every constructor does
                     BP::default_precision(100); // what _boostPrecision() does in thread A
                     seenBefore = BP::default_precision(); stage=1; while(stage!=2) std::this_thread::yield();
                     seenAfter  = BP::default_precision();      // what _boostPrecision()/tolerance code reads next
                   });
  std::thread B([&]{ while(stage!=1) std::this_thread::yield(); SoPlex b; (void)b; stage=2; });
  A.join(); B.join();
  std::cout<<"thread A reads its precision: before B constructs a solver = "<<seenBefore<<", after = "<<seenAfter<<"\n";
  return seenBefore==seenAfter ? 0 : 1;
}
