// F49: changeElementRational(i, j, Rational) with a nonzero below the floating-point epsilon (1e-30) left the coefficient of the
//      RATIONAL LP at 0 - SPxLPBase<Rational>::changeElement decided with isNotZero(val, epsilon).
// F50: with a non-default INFTY parameter (1e20), changeBoundsReal(j, -1e30, 1e30) in sync mode auto classified the column as boxed
//      (comparison with the global constant 1e100) while its rational bounds are infinite: assertion in _computeBoundsViolation.
#include "soplex.h"
#include <iostream>
using namespace soplex;
int main()
{
   int rc = 0;
   {
      SoPlex s;
      s.setIntParam(SoPlex::VERBOSITY, 0);
      s.setIntParam(SoPlex::SYNCMODE, SoPlex::SYNCMODE_AUTO);
      s.readFile("/repo/check/instances/afiro.mps");
      Rational tiny = Rational(1) / Rational(1000000);
      tiny = tiny * tiny * tiny * tiny * tiny;          // 1e-30
      s.changeElementRational(0, 0, tiny);
      bool ok = (s.rowVectorRational(0)[0] == tiny);
      std::cout << "F49: rational coefficient after changeElementRational(0, 0, 1e-30) is " << (ok ? "1e-30" : "not 1e-30") << std::endl;
      if(!ok) rc |= 1;
   }
   {
      SoPlex s;
      s.setIntParam(SoPlex::VERBOSITY, 0);
      s.setRealParam(SoPlex::INFTY, 1e20);
      s.setIntParam(SoPlex::SYNCMODE, SoPlex::SYNCMODE_AUTO);
      s.readFile("/repo/check/instances/afiro.mps");
      s.changeBoundsReal(0, -1e30, 1e30);
      s.setIntParam(SoPlex::SOLVEMODE, SoPlex::SOLVEMODE_RATIONAL);
      s.setRealParam(SoPlex::FEASTOL, 0);
      s.setRealParam(SoPlex::OPTTOL, 0);
      SPxSolver::Status st = s.optimize();
      std::cout << "F50: exact solve with INFTY = 1e20 and bounds +-1e30: status " << st << std::endl;
      if(st != SPxSolver::OPTIMAL && st != SPxSolver::UNBOUNDED) rc |= 2;
   }
   return rc;
}
