// F21: SPxLPBase<Rational>::changeElement(int,int,const mpq_t*) decides "zero" by mpq_get_d(): a rational whose
// double image underflows to 0 (1/10^400) removes the coefficient instead of storing it.
#include "soplex.h"
#include <iostream>
using namespace soplex;
int main(){
  SoPlex s; s.setIntParam(SoPlex::VERBOSITY,0); s.setIntParam(SoPlex::SYNCMODE, SoPlex::SYNCMODE_AUTO);
  DSVectorRational dummy(0);
  s.addColRational(LPColRational(Rational(1), dummy, Rational(10), Rational(0)));
  DSVectorRational r(1); r.add(0, Rational(2)); s.addRowRational(LPRowRational(Rational(1), r, Rational(100)));
  mpq_t v; mpq_init(v); mpq_set_str(v, "1/1", 10);
  mpz_ui_pow_ui(mpq_denref(v), 10, 400);   // v = 10^-400
  s.changeElementRational(0,0,&v);
  Rational got = s.rowVectorRational(0).size()>0 ? s.rowVectorRational(0).value(0) : Rational(0);
  std::cout<<"entries in row 0: "<<s.rowVectorRational(0).size()<<" coefficient is zero: "<<(got==0)<<"\n";
  bool ok = (s.rowVectorRational(0).size()==1 && got!=0);
  std::cout<<(ok?"ok\n":"FAIL: a non-zero rational coefficient was dropped\n");
  return ok?0:1;
}
