#include "soplex.h"
#include <iostream>
using namespace soplex;
int main(int argc,char**argv){
  SoPlex s; s.setIntParam(SoPlex::VERBOSITY,0);
  bool ok = s.readFile(argv[1]);
  std::cout<<"readFile -> "<<ok<<" rows="<<s.numRows()<<" cols="<<s.numCols()<<"\n";
  return 0;
}
