// F64: SoPlex_getRowVectorRational assigned the row to a default-constructed SVectorRational (no storage): abort / wild write for every
// non-empty row.
#include "soplex.h"
#include "soplex_interface.h"
#include <iostream>
using namespace soplex;
int main(){ void* s=SoPlex_create(); SoPlex_setIntParam(s, SoPlex::VERBOSITY, 0); SoPlex_setIntParam(s, SoPlex::SYNCMODE, SoPlex::SYNCMODE_AUTO); double e[2]={0,0}; SoPlex_addColReal(s,e,0,0,1.0,0.0,10.0); SoPlex_addColReal(s,e,0,0,1.0,0.0,10.0); double r[2]={1.5,3.0}; SoPlex_addRowReal(s,r,2,2,0.0,5.0);
 long idx[2]={-1,-1}, num[2]={0,0}, den[2]={0,0}; int nnz=0; SoPlex_getRowVectorRational(s,0,&nnz,idx,num,den); std::cout<<"nnz "<<nnz<<": ("<<idx[0]<<") "<<num[0]<<"/"<<den[0]<<"  ("<<idx[1]<<") "<<num[1]<<"/"<<den[1]<<std::endl; return (nnz==2)?0:1; }
