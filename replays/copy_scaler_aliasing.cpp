// F31b: SPxScaler::operator= copies m_activeColscaleExp / m_activeRowscaleExp verbatim; they point at the scaling-factor arrays
// stored inside the LP of the *source* SoPlex.  The copy's unscaled basis queries (getBasisInverseRowReal(.., unscale=true) etc.)
// read the scaling factors through these pointers, i.e. from the source: changing the source changes what the copy returns.
#include "soplex.h"
#include <iostream>
#include <vector>
#include <cmath>
using namespace soplex;
int main(int argc, char** argv)
{
   SoPlex a;
   a.setIntParam(SoPlex::VERBOSITY, 0);
   a.setIntParam(SoPlex::SIMPLIFIER, SoPlex::SIMPLIFIER_OFF);
   a.readFile(argc > 1 ? argv[1] : "/repo/check/instances/adlittle.mps");
   a.optimize();
   SoPlex b(a);
   int m = b.numRowsReal();
   std::vector<double> before(m), after(m);
   int r = m - 1;
   if(!b.getBasisInverseRowReal(r, before.data(), nullptr, nullptr, true)) { std::cout << "no basis inverse row\n"; return 2; }
   // change only the source: remove its first rows (its stored row scaling factors move), b is not touched
   int idx[3] = {0, 1, 2};
   a.removeRowsReal(idx, 3);
   if(!b.getBasisInverseRowReal(r, after.data(), nullptr, nullptr, true)) { std::cout << "no basis inverse row (2)\n"; return 2; }
   double diff = 0;
   for(int i = 0; i < m; i++) diff = std::max(diff, std::fabs(before[i] - after[i]));
   std::cout << "max difference of row " << r << " of the copy's basis inverse before/after modifying the source: " << diff << std::endl;
   return diff == 0.0 ? 0 : 1;
}
