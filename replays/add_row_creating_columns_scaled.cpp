// F52: SPxLPBase::doAddRow / doAddCol create missing columns (rows) when the new vector refers to an index beyond the LP.  On a
// persistently scaled LP (after one solve) they read the scaling exponent of those columns (rows) BEFORE creating them:
// DataArray::operator[] assertion `n < thesize` (out-of-bounds read without assertions).  The same calls work on an unsolved LP.
#include "soplex.h"
#include <iostream>
using namespace soplex;
static int run(bool solveFirst)
{
   SoPlex a;
   a.setIntParam(SoPlex::VERBOSITY, 0);
   a.readFile("/repo/check/instances/afiro.mps");
   if(solveFirst) a.optimize();
   int n = a.numColsReal(), m = a.numRowsReal();
   DSVector r(2);
   r.add(0, 1.0);
   r.add(n + 2, 2.0);                       // refers to a column that does not exist yet
   a.addRowReal(LPRow(-infinity, r, 100.0));
   DSVector c(2);
   c.add(1, 1.0);
   c.add(m + 3, 4.0);                       // refers to a row that does not exist yet
   a.addColReal(LPCol(0.0, c, 10.0, 0.0));
   std::cout << (solveFirst ? "after a solve : " : "unsolved LP   : ") << "columns " << n << " -> " << a.numColsReal() << ", rows " << m << " -> " << a.numRowsReal()
             << ", new coefficients " << a.coefReal(m, n + 2) << " and " << a.coefReal(m + 3, a.numColsReal() - 1) << ", status " << a.optimize() << std::endl;
   return (a.coefReal(m, n + 2) == 2.0 && a.coefReal(m + 3, a.numColsReal() - 1) == 4.0) ? 0 : 1;
}
int main() { int x = run(false); int y = run(true); return x | y; }
