NAME t
ROWS
 N obj
 L c1
COLUMNS
 x obj 1). c1 1
RHS
ENDATA
