NAME t
ROWS
 N obj
 G c1
COLUMNS
    x         obj                1.0   c1                 1.0
RHS
    rhs       c1                 1.0
RANGES
    rng       c1                 2.0
    rng       c1                 3.0
ENDATA
