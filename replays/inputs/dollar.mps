NAME t
ROWS
 N obj
 L c1
COLUMNS
    x         obj                1.0   c1                 1.0
RHS
BOUNDS
              $ comment
ENDATA
