// F53: LPRowSetBase::remove(const int nums[], int n, int* perm) and its LPColSetBase twin take the loop bound `num()` AFTER the
// vectors have been removed, so survivors whose old index is >= the new count (exactly those that are moved into the holes) never
// get their sides / bounds / objective / scaling exponent moved along: a row keeps its vector but takes over another row's sides.
#include "soplex.h"
#include <iostream>
using namespace soplex;
int main()
{
   int rc = 0;
   {
      LPRowSetBase<Real> rs;
      for(int i = 0; i < 5; i++)
      {
         DSVector v(1);
         v.add(i, 1.0 + i);
         rs.add(LPRowBase<Real>(10.0 * i, v, 10.0 * i + 5));          // row i: lhs 10i, rhs 10i+5, entry (i, 1+i)
      }
      int nums[1] = {1};
      int perm[5];
      rs.remove(nums, 1, perm);
      for(int old = 0; old < 5; old++)
      {
         if(perm[old] < 0) continue;
         int nw = perm[old];
         bool vecok = rs.rowVector(nw).size() == 1 && rs.rowVector(nw).index(0) == old;
         bool sideok = rs.lhs(nw) == 10.0 * old && rs.rhs(nw) == 10.0 * old + 5;
         std::cout << "row " << old << " -> " << nw << ": vector " << (vecok ? "ok" : "WRONG") << ", sides [" << rs.lhs(nw) << "," << rs.rhs(nw) << "] " << (sideok ? "ok" : "WRONG (expected [" + std::to_string(10 * old) + "," + std::to_string(10 * old + 5) + "])") << std::endl;
         if(!vecok || !sideok) rc = 1;
      }
   }
   {
      LPColSetBase<Real> cs;
      for(int j = 0; j < 5; j++)
      {
         DSVector v(1);
         v.add(j, 1.0 + j);
         cs.add(LPColBase<Real>(100.0 + j, v, 10.0 * j + 5, 10.0 * j));
      }
      int nums[2] = {0, 2};
      int perm[5];
      cs.remove(nums, 2, perm);
      for(int old = 0; old < 5; old++)
      {
         if(perm[old] < 0) continue;
         int nw = perm[old];
         bool ok = cs.lower(nw) == 10.0 * old && cs.upper(nw) == 10.0 * old + 5 && cs.maxObj(nw) == 100.0 + old && cs.colVector(nw).index(0) == old;
         std::cout << "col " << old << " -> " << nw << ": " << (ok ? "ok" : "WRONG bounds / objective") << std::endl;
         if(!ok) rc = 1;
      }
   }
   return rc;
}
