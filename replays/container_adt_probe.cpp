// F54 / F55 / F56: random operation sequences on DataSet, NameSet, SVSet and DIdxSet against simple reference models (fixed seed).
// Before the fixes: NameSet::remove(nums, n) removed the wrong names (assertion in DataSet::key), SVSet::xtend reallocated the arena
// in place (assertion olddata == data), DIdxSet::remove(n, m) lost members and corrupted the heap.
#include "soplex.h"
#include "soplex/dataset.h"
#include "soplex/nameset.h"
#include "soplex/svset.h"
#include "soplex/didxset.h"
#include <iostream>
#include <map>
#include <set>
#include <vector>
#include <random>
#include <string>
using namespace soplex;
static int bad=0;
#define CHECK(c,msg) do{ if(!(c)){ bad++; if(bad<30) std::cout<<"FAIL: "<<msg<<std::endl; } }while(0)
int main(){ std::mt19937 rng(5);
 // DataSet<int>
 for(int trial=0;trial<200;trial++){ DataSet<int> ds(4); std::map<int,int> model; /* key.idx -> value */ std::vector<DataKey> keys;
   for(int step=0;step<200;step++){ int op=rng()%10;
     if(op<5){ if(ds.num()>=ds.max()) ds.reMax(ds.max()*2+1); DataKey k; int v=rng()%1000; ds.add(k,v); keys.push_back(k); CHECK(ds.has(k)&&ds[k]==v,"DataSet add/lookup"); }
     else if(op<8 && !keys.empty()){ int p=rng()%keys.size(); DataKey k=keys[p]; if(ds.has(k)){ int n=ds.num(); ds.remove(k); CHECK(ds.num()==n-1 && !ds.has(k),"DataSet remove by key"); } keys.erase(keys.begin()+p); }
     else if(op==8 && ds.num()>2){ int n=ds.num(); std::vector<int> perm(n); std::vector<int> vals(n); std::vector<DataKey> ks(n); for(int i=0;i<n;i++){ vals[i]=ds[i]; ks[i]=ds.key(i); perm[i]= (rng()%3==0)?-1:0; } ds.remove(perm.data()); int kept=0; for(int i=0;i<n;i++) if(perm[i]>=0){ kept++; CHECK(perm[i]<ds.num() && ds[perm[i]]==vals[i],"DataSet remove(perm): survivor "<<i<<" -> "<<perm[i]); CHECK(ds.has(ks[i])&&ds.number(ks[i])==perm[i],"DataSet remove(perm): key of survivor"); } else CHECK(!ds.has(ks[i]),"DataSet remove(perm): removed key still present"); CHECK(kept==ds.num(),"DataSet remove(perm) count");
        std::vector<DataKey> nk; for(auto&k:keys) if(ds.has(k)) nk.push_back(k); keys=nk; }
     else { for(int i=0;i<ds.num();i++){ CHECK(ds.number(ds.key(i))==i,"DataSet dense numbering"); } }
     CHECK(ds.isConsistent(),"DataSet consistent"); } }
 // NameSet
 for(int trial=0;trial<100;trial++){ NameSet ns(2,8); std::map<std::string,int> present; int counter=0;
   for(int step=0;step<300;step++){ int op=rng()%10; std::string nm="n"+std::to_string(rng()%60);
     if(op<5){ bool had=ns.has(nm.c_str()); int n=ns.num(); ns.add(nm.c_str()); if(had) CHECK(ns.num()==n,"NameSet add duplicate changes size"); else CHECK(ns.num()==n+1 && ns.has(nm.c_str()) && ns.number(nm.c_str())==n,"NameSet add "<<nm<<" number "<<ns.number(nm.c_str())<<" expected "<<n); present[nm]=1; }
     else if(op<8){ bool had=ns.has(nm.c_str()); int n=ns.num(); if(had){ ns.remove(nm.c_str()); CHECK(!ns.has(nm.c_str()) && ns.num()==n-1,"NameSet remove "<<nm); present.erase(nm);} }
     else if(op==8){ for(auto&kv:present){ CHECK(ns.has(kv.first.c_str()),"NameSet lost name "<<kv.first); if(ns.has(kv.first.c_str())){ int k=ns.number(kv.first.c_str()); CHECK(k>=0&&k<ns.num()&&std::string(ns[k])==kv.first,"NameSet number/name mismatch for "<<kv.first); } } CHECK((int)present.size()==ns.num(),"NameSet size "<<ns.num()<<" vs model "<<present.size()); }
     else if(ns.num()>3){ int n=ns.num(); std::vector<int> nums; for(int i=0;i<n;i++) if(rng()%4==0) nums.push_back(i); std::vector<std::string> names(n); for(int i=0;i<n;i++) names[i]=ns[i]; ns.remove(nums.data(),(int)nums.size()); std::set<int> rm(nums.begin(),nums.end()); for(int i=0;i<n;i++){ if(rm.count(i)){ CHECK(!ns.has(names[i].c_str()),"NameSet remove(list): "<<names[i]<<" still there"); present.erase(names[i]); } else CHECK(ns.has(names[i].c_str()),"NameSet remove(list): lost "<<names[i]); } }
     CHECK(ns.isConsistent(),"NameSet consistent"); } }
 // SVSet
 for(int trial=0;trial<100;trial++){ SVSet sv(1,4); std::vector<std::vector<std::pair<int,double>>> model; 
   for(int step=0;step<150;step++){ int op=rng()%10;
     if(op<5){ int len=rng()%5; DSVector v(len); std::vector<std::pair<int,double>> m; for(int k=0;k<len;k++){ v.add(k*2, 1.0+k+step); m.push_back({k*2,1.0+k+step}); } sv.add(v); model.push_back(m); }
     else if(op<7 && sv.num()>0){ int i=rng()%sv.num(); sv.remove(i); model[i]=model.back(); model.pop_back(); }
     else if(op==7 && sv.num()>0){ int i=rng()%sv.num(); int extra=1+rng()%4; sv.xtend(sv[i], sv[i].size()+extra); int idx=1000+step; sv[i].add(idx, 7.5); model[i].push_back({idx,7.5}); }
     else if(op==8 && sv.num()>2){ int n=sv.num(); std::vector<int> perm(n); for(int i=0;i<n;i++) perm[i]=(rng()%3==0)?-1:0; auto old=model; sv.remove(perm.data()); std::vector<std::vector<std::pair<int,double>>> nm(sv.num()); for(int i=0;i<n;i++) if(perm[i]>=0){ CHECK(perm[i]<sv.num(),"SVSet perm range"); if(perm[i]<sv.num()) nm[perm[i]]=old[i]; } model=nm; }
     CHECK((int)model.size()==sv.num(),"SVSet size"); for(int i=0;i<sv.num()&&i<(int)model.size();i++){ const SVector& v=sv[i]; bool ok=v.size()==(int)model[i].size(); for(auto&pr:model[i]) if(ok){ int p=v.pos(pr.first); ok = p>=0 && v.value(p)==pr.second; } CHECK(ok,"SVSet vector "<<i<<" content at step "<<step<<" op "<<op); }
     CHECK(sv.isConsistent(),"SVSet consistent"); } }
 // DIdxSet
 for(int trial=0;trial<100;trial++){ DIdxSet s; std::vector<int> model; for(int step=0;step<100;step++){ int op=rng()%6; if(op<3){ int v=rng()%50; if(s.pos(v)<0){ s.addIdx(v); model.push_back(v);} } else if(op==3&&s.size()>0){ int p=rng()%s.size(); int v=s.index(p); s.remove(p); model.erase(std::find(model.begin(),model.end(),v)); } else if(op==4 && s.size()>2){ int a=rng()%s.size(), b=rng()%s.size(); if(a>b) std::swap(a,b); std::set<int> rm; for(int p=a;p<=b;p++) rm.insert(s.index(p)); s.remove(a,b); std::vector<int> nm; for(int v:model) if(!rm.count(v)) nm.push_back(v); model=nm; }
     CHECK(s.size()==(int)model.size(),"DIdxSet size "<<s.size()<<" vs "<<model.size()); std::set<int> a; for(int p=0;p<s.size();p++) a.insert(s.index(p)); CHECK(a.size()==(size_t)s.size(),"DIdxSet duplicates"); for(int v:model) CHECK(s.pos(v)>=0,"DIdxSet lost "<<v); } }
 std::cout<<"failures "<<bad<<std::endl; return bad?1:0; }
