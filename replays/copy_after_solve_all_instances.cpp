// C17: copy construction and assignment of a solved SoPlex object, for every instance of the test set and several pricers:
// the copy reports the same status, objective value and primal solution as the source (bit-identical, without re-solving),
// and re-solving the copy ends with the same status.
#include "soplex.h"
#include <iostream>
#include <string>
#include <cmath>
#include <cstring>
using namespace soplex;
int main(int argc,char**argv){ int bad=0; std::string f=argv[1]; int pr=argc>2?atoi(argv[2]):-1;
  SoPlex a; a.setIntParam(SoPlex::VERBOSITY,0); if(pr>=0) a.setIntParam(SoPlex::PRICER,pr); if(!a.readFile(f.c_str())) return 3; a.optimize();
  SoPlex b(a); SoPlex c; c=a;
  for(SoPlex* x: {&b,&c}){
    if(x->status()!=a.status()) { std::cout<<f<<": status of the copy differs\n"; bad++; continue; }
    if(a.status()==SPxSolver::OPTIMAL){
      if(x->objValueReal()!=a.objValueReal()) { std::cout<<f<<": objective of the copy differs\n"; bad++; }
      VectorReal pa(a.numColsReal()), px(a.numColsReal()); a.getPrimal(pa); x->getPrimal(px);
      if(memcmp(pa.get_const_ptr(),px.get_const_ptr(),sizeof(double)*a.numColsReal())) { std::cout<<f<<": primal of the copy differs\n"; bad++; }
    }
    x->optimize();
    if(x->status()!=a.status()) { std::cout<<f<<": status after re-solving the copy differs: "<<x->status()<<" vs "<<a.status()<<"\n"; bad++; }
    else if(a.status()==SPxSolver::OPTIMAL && std::fabs(x->objValueReal()-a.objValueReal())>1e-6*(1+std::fabs(a.objValueReal()))) { std::cout<<f<<": objective after re-solving the copy differs\n"; bad++; }
  }
  return bad?1:0; }
