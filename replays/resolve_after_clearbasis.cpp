// C17: solving the same unmodified object again after clearBasis() must reproduce status, iteration count and bit-identical solution
#include "soplex.h"
#include <iostream>
#include <cstring>
using namespace soplex;
int main(int argc,char**argv){ int bad=0; 
  SoPlex a; a.setIntParam(SoPlex::VERBOSITY,0); if(!a.readFile(argv[1])) return 3; a.optimize();
  int it1=a.numIterations(); SPxSolver::Status s1=a.status(); int n=a.numColsReal(); VectorReal p1(n); a.getPrimal(p1); double o1=a.objValueReal();
  a.clearBasis(); a.optimize();
  int it2=a.numIterations(); VectorReal p2(n); a.getPrimal(p2);
  if(a.status()!=s1||it1!=it2||o1!=a.objValueReal()||memcmp(p1.get_const_ptr(),p2.get_const_ptr(),8*n)){ bad++; std::cout<<argv[1]<<": first solve status "<<s1<<" iterations "<<it1<<" obj "<<o1<<"; after clearBasis status "<<a.status()<<" iterations "<<it2<<" obj "<<a.objValueReal()<<(memcmp(p1.get_const_ptr(),p2.get_const_ptr(),8*n)?" primal differs":"")<<"\n"; }
  return bad; }
