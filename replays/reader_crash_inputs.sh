#!/bin/bash
# F35-F38, F40: seven small files on which the readers crashed (found by a 15-minute libFuzzer run over readLPF/readMPS in both read
# modes, then minimised by hand; dollar.mps was predicted by rule R13.10 before it was tried).  Each is read by the soplex binary
# in floating-point and in rational read mode; every run must end with exit status 0 and a syntax-error / warning message.
#   nullobj.mps  ROWS line ' N'  (no objective name)   rational reader: strlen(nullptr)                 F35
#   nullrow.mps  ROWS line ' L'  (no row name)         rational reader: NameSet::has(nullptr)           F35
#   badcol.lp    'Gener y <= 3' / badcol2.lp 'x-ind'   both readers: assert(LPFisColName(pos))          F36
#   badnum.mps   coefficient '1).'                     rational reader: assert(all_of(isdigit))         F37
#   dollar.mps   BOUNDS line holding only a '$' comment both readers: strcmp(nullptr, "LO")             F38
#   range_twice.mps two RANGES entries for one row      both readers: assert(lhs == rhs)                 F40
# usage: reader_crash_inputs.sh [path to soplex binary]   (default /repo/_build/bin/soplex)
bin=${1:-/repo/_build/bin/soplex}
dir=$(dirname "$0")/inputs
rc=0
for f in nullobj.mps nullrow.mps badnum.mps badcol.lp badcol2.lp dollar.mps range_twice.mps; do
  for mode in "" "--readmode=1 --solvemode=2"; do
    "$bin" $mode "$dir/$f" >/dev/null 2>&1; e=$?
    if [ $e -ne 0 ]; then echo "$f [$mode]: exit $e (crash)"; rc=1; else echo "$f [$mode]: ok"; fi
  done
done
exit $rc
