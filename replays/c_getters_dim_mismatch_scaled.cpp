// C20: SoPlex_getObjReal / getLowerReal / getUpperReal with a dimension argument different from the number of columns, after a solve that
// left the LP persistently scaled.  The caller's array must be written only within dim, the values must be the C++ getter's.
#include "soplex.h"
#include "soplex_interface.h"
#include <iostream>
#include <vector>
#include <cmath>
using namespace soplex;
int main(){ int bad=0;
 void* so=SoPlex_create(); SoPlex* s=(SoPlex*)so; s->setIntParam(SoPlex::VERBOSITY,0);
 s->readFile("/repo/check/instances/adlittle.mps"); s->optimize();
 int n=s->numColsReal();
 VectorReal cl(n),cu(n),co(n); s->getLowerReal(cl); s->getUpperReal(cu); s->getObjReal(co);
 for(int which=0;which<3;which++) for(int dim: {n+5, n-7}){
   std::vector<double> buf(n+16, -777.0);
   if(which==0) SoPlex_getLowerReal(so,buf.data(),dim); if(which==1) SoPlex_getUpperReal(so,buf.data(),dim); if(which==2) SoPlex_getObjReal(so,buf.data(),dim);
   const VectorReal& ref = which==0?cl: which==1?cu: co;
   int lim = dim<n?dim:n;
   for(int i=0;i<lim;i++) if(buf[i]!=ref[i]){ bad++; std::cout<<"getter "<<which<<" dim "<<dim<<": entry "<<i<<" is "<<buf[i]<<", C++ getter says "<<ref[i]<<"\n"; break; }
   for(int i=dim;i<n+16;i++) if(buf[i]!=-777.0){ bad++; std::cout<<"getter "<<which<<" dim "<<dim<<": wrote beyond dim at "<<i<<"\n"; break; }
 }
 std::cout<<"failures "<<bad<<std::endl; return bad?1:0; }
