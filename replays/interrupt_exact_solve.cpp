// F34: the interrupt flag passed to optimize() is ignored by the exact solver.  _optimizeRational(volatile bool* interrupt) never reads
// its parameter; the floating-point solves it starts (_solveRealForRational -> _solveRealLPAndRecordStatistics()) are called without it.
// With the flag already raised, a floating-point solve stops at once (0 iterations, abort status); an exact solve runs to OPTIMAL.
#include "soplex.h"
#include <iostream>
using namespace soplex;
static int run(bool exact, const char* f)
{
   SoPlex s;
   s.setIntParam(SoPlex::VERBOSITY, 0);
   if(exact)
   {
      s.setIntParam(SoPlex::READMODE, SoPlex::READMODE_RATIONAL);
      s.setIntParam(SoPlex::SOLVEMODE, SoPlex::SOLVEMODE_RATIONAL);
      s.setIntParam(SoPlex::SYNCMODE, SoPlex::SYNCMODE_AUTO);
      s.setIntParam(SoPlex::CHECKMODE, SoPlex::CHECKMODE_RATIONAL);
      s.setRealParam(SoPlex::FEASTOL, 0.0);
      s.setRealParam(SoPlex::OPTTOL, 0.0);
   }
   s.readFile(f);
   volatile bool stop = true;          // raised before the solve starts
   SPxSolver::Status st = s.optimize(&stop);
   std::cout << (exact ? "exact" : "float") << " solve with the interrupt flag raised: status " << st << ", iterations " << s.numIterations() << std::endl;
   bool stopped = (st != SPxSolver::OPTIMAL && st != SPxSolver::INFEASIBLE && st != SPxSolver::UNBOUNDED);
   return stopped ? 0 : 1;
}
int main(int argc, char** argv)
{
   const char* f = argc > 1 ? argv[1] : "/repo/check/instances/adlittle.mps";
   int a = run(false, f);
   int b = run(true, f);
   return a | b;
}
