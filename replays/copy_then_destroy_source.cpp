// F31: SPxLPBase's copy constructor / operator= copy `lp_scaler` verbatim: the LP of a copied (persistently scaled) SoPlex points
// at a scaler object that is a member of the *source* SoPlex.  After the source is destroyed every scaled modification or unscaled
// query of the copy calls through that dangling pointer (heap-use-after-free in SPxLPBase::upperUnscaled / changeUpper).
// Run under AddressSanitizer or valgrind:  clang++ -fsanitize=address -g -std=gnu++14 -I/repo/src -I/repo/_build ... 
#include "soplex.h"
#include <iostream>
using namespace soplex;
int main(int argc,char**argv){
  SoPlex* a=new SoPlex; a->setIntParam(SoPlex::VERBOSITY,0); a->setIntParam(SoPlex::SIMPLIFIER, SoPlex::SIMPLIFIER_OFF);
  a->readFile(argc>1?argv[1]:"/repo/check/instances/adlittle.mps");
  a->optimize(); std::cout<<"a: status "<<a->status()<<" obj "<<a->objValueReal()<<std::endl;
  SoPlex b(*a);
  delete a;                      // "destroying one has no effect on the other"
  b.changeUpperReal(0, 1.0);     // small change, warm start from the copied basis
  b.optimize(); std::cout<<"b after change: status "<<b.status()<<" obj "<<b.objValueReal()<<" iters "<<b.numIterations()<<std::endl;
  SoPlex c; c.setIntParam(SoPlex::VERBOSITY,0); c.setIntParam(SoPlex::SIMPLIFIER, SoPlex::SIMPLIFIER_OFF);
  c.readFile(argc>1?argv[1]:"/repo/check/instances/adlittle.mps"); c.changeUpperReal(0,1.0); c.optimize();
  std::cout<<"reference: status "<<c.status()<<" obj "<<c.objValueReal()<<std::endl;
  return (b.status()==c.status() && std::abs(b.objValueReal()-c.objValueReal())<1e-6)?0:1;
}
