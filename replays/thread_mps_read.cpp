#include "soplex.h"
#include <thread>
#include <vector>
#include <iostream>
#include <atomic>
using namespace soplex;
static std::atomic<int> bad{0}, done{0};
static int refR=-1, refC=-1, refN=-1;
static void work(const char* f, int iters){ for(int it=0; it<iters; ++it){ SoPlex s; s.setIntParam(SoPlex::VERBOSITY,0); bool ok=s.readFile(f); if(!ok || s.numRows()!=refR || s.numCols()!=refC || s.numNonzeros()!=refN) bad++; done++; } }
int main(int argc,char**argv){ { SoPlex s; s.setIntParam(SoPlex::VERBOSITY,0); s.readFile(argv[1]); refR=s.numRows(); refC=s.numCols(); refN=s.numNonzeros(); }
  int nt=atoi(argv[2]); std::vector<std::thread> th; for(int t=0;t<nt;t++) th.emplace_back(work, argv[1], 6); for(auto&t:th) t.join();
  std::cout<<"sequential reference "<<refR<<"x"<<refC<<" nnz "<<refN<<"; concurrent reads "<<done<<", differing or failed: "<<bad<<"\n"; return bad?1:0; }
