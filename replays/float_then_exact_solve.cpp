// F51: syncmode auto from the start, read, optimize() in floating point (default: persistent scaling), then optimize() with solvemode
// rational.  The exact solver started on the still scaled real LP: segmentation fault in SPxLPBase::lowerUnscaled (scaled flag set,
// scaler pointer cleared by the reload inside _solveRealForRational).  Present in the original snapshot as well.
#include "soplex.h"
#include <iostream>
using namespace soplex;
int main(int argc, char** argv)
{
   const char* f = argc > 1 ? argv[1] : "/repo/check/instances/adlittle.mps";
   SoPlex s;
   s.setIntParam(SoPlex::VERBOSITY, 0);
   s.setIntParam(SoPlex::SYNCMODE, SoPlex::SYNCMODE_AUTO);
   s.readFile(f);
   s.optimize();
   std::cout << "floating-point solve: status " << s.status() << " objective " << s.objValueReal() << std::endl;
   s.setIntParam(SoPlex::SOLVEMODE, SoPlex::SOLVEMODE_RATIONAL);
   s.setRealParam(SoPlex::FEASTOL, 0.0);
   s.setRealParam(SoPlex::OPTTOL, 0.0);
   SPxSolver::Status st = s.optimize();
   std::cout << "exact solve: status " << st << " objective ~ " << double(s.objValueRational()) << std::endl;
   return st == SPxSolver::OPTIMAL ? 0 : 1;
}
