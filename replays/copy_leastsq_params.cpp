// F41: SPxLeastSqSC::operator= copies only its SPxScaler base; the two parameters the class keeps itself (maxrounds, set through
// SoPlex::setIntParam(LEASTSQ_MAXROUNDS), and acrcydivisor, set through setRealParam(LEASTSQ_ACRCY)) stay at the values the destination had.
// A copy therefore *reports* the source's parameter values (the settings are copied) but scales with the defaults: same LP, same
// parameters, same seed - different scaling, different pivots.
#include "soplex.h"
#include <iostream>
using namespace soplex;
int main(int argc, char** argv)
{
   const char* f = argc > 1 ? argv[1] : "/repo/check/instances/share2b.mps";
   SoPlex a;
   a.setIntParam(SoPlex::VERBOSITY, 0);
   a.setIntParam(SoPlex::SCALER, SoPlex::SCALER_LEASTSQ);
   a.setIntParam(SoPlex::LEASTSQ_MAXROUNDS, 1);
   a.setRealParam(SoPlex::LEASTSQ_ACRCY, 1e6);
   a.readFile(f);
   SoPlex b(a);                      // copy before solving: same LP, same parameters, same seed
   a.optimize();
   b.optimize();
   std::cout << "parameters reported: a maxrounds " << a.intParam(SoPlex::LEASTSQ_MAXROUNDS) << ", b maxrounds " << b.intParam(SoPlex::LEASTSQ_MAXROUNDS) << std::endl;
   std::cout.precision(17);
   std::cout << "a: status " << a.status() << " iterations " << a.numIterations() << " objective " << a.objValueReal() << std::endl;
   std::cout << "b: status " << b.status() << " iterations " << b.numIterations() << " objective " << b.objValueReal() << std::endl;
   return (a.numIterations() == b.numIterations() && a.objValueReal() == b.objValueReal()) ? 0 : 1;
}
