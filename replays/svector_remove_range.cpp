// F57: SVectorBase::remove(n, m) ("remove nonzeros n thru m").  The new size was computed from the number of elements MOVED into the
// gap instead of the number removed, and the move loop is a do-while(--cpy): with a range near the end the vector keeps removed
// nonzeros (size 10, remove(7,8) leaves 9 entries), and with a range that ends at the end nothing is removed and the loop counter
// wraps around (remove(8,9): the loop copies over the whole address space - crash).
#include "soplex.h"
#include <iostream>
#include <csignal>
#include <unistd.h>
#include <sys/wait.h>
using namespace soplex;
static int run(int n, int m)
{
   DSVector v(10);
   for(int i = 0; i < 10; i++) v.add(i, 1.0 + i);
   v.remove(n, m);
   int expect = 10 - (m - n + 1);
   bool ok = v.size() == expect;
   for(int i = n; i <= m; i++) if(v.pos(i) >= 0) ok = false;           // removed indices must be gone
   for(int i = 0; i < 10; i++) if((i < n || i > m) && (v.pos(i) < 0 || v[i] != 1.0 + i)) ok = false;   // the others must survive
   std::cout << "remove(" << n << "," << m << "): size " << v.size() << " (expected " << expect << ") " << (ok ? "ok" : "WRONG") << std::endl;
   return ok ? 0 : 1;
}
int main()
{
   int rc = 0;
   rc |= run(2, 3);
   rc |= run(7, 8);
   // the last case may run wild: do it in a child process
   pid_t pid = fork();
   if(pid == 0) { alarm(10); _exit(run(8, 9)); }
   int st = 0;
   waitpid(pid, &st, 0);
   if(!WIFEXITED(st)) { std::cout << "remove(8,9): child killed by signal " << WTERMSIG(st) << std::endl; rc |= 1; }
   else rc |= WEXITSTATUS(st);
   return rc;
}
