// F19 (C20): SoPlex_getLowerReal/getUpperReal/getObjReal with a dimension argument larger than needed
// ("dimension arguments larger than needed" is in the property's quantifier): the C++ getter shrinks the
// local vector to numCols, the wrapper then reads dim entries from it.
#include "soplex.h"
#include "soplex_interface.h"
#include <iostream>
#include <vector>
using namespace soplex;
int main(){
  void* so=SoPlex_create(); SoPlex_setIntParam(so, SoPlex::VERBOSITY,0);
  double c[1]={0.0}; for(int j=0;j<3;j++) SoPlex_addColReal(so,c,0,0,1.0,-1.0-j,5.0+j);
  std::vector<double> lb(64,777.0);
  SoPlex_getLowerReal(so, lb.data(), 64);   // caller's array has 64 entries, dim = 64 > numCols = 3
  std::cout<<"lb[0..4] = "<<lb[0]<<" "<<lb[1]<<" "<<lb[2]<<" "<<lb[3]<<" "<<lb[4]<<"\n";
  SoPlex_free(so); return 0;
}
