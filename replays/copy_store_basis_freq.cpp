// F41b: SPxSolverBase::operator= does not copy storeBasisSimplexFreq, the solver-side copy of the integer parameter
// STORE_BASIS_SIMPLEX_FREQ (it reaches the solver only inside SoPlexBase::setIntParam).  A copied SoPlex reports the source's
// parameter value but its solver keeps the default: in a precision-boosting solve the copy stores its fall-back bases at other
// iterations than the source (spxsolve.hpp: `iterations() % storeBasisSimplexFreq == 0`).
// The member is private; this replay opens the classes with the preprocessor only to *read* the two values.
#include <memory>
#include <string>
#include <vector>
#include <iostream>
#include <sstream>
#include <fstream>
#include <map>
#include <algorithm>
#include <cmath>
#include <cstring>
#define private public
#define protected public
#include "soplex.h"
#undef private
#undef protected
using namespace soplex;
int main()
{
   SoPlex a;
   a.setIntParam(SoPlex::VERBOSITY, 0);
   a.setIntParam(SoPlex::STORE_BASIS_SIMPLEX_FREQ, 7);
   SoPlex b(a);
   SoPlex c;
   c = a;
   std::cout << "parameter: a " << a.intParam(SoPlex::STORE_BASIS_SIMPLEX_FREQ) << " b " << b.intParam(SoPlex::STORE_BASIS_SIMPLEX_FREQ) << " c " << c.intParam(SoPlex::STORE_BASIS_SIMPLEX_FREQ) << std::endl;
   std::cout << "solver   : a " << a._solver.storeBasisSimplexFreq << " b " << b._solver.storeBasisSimplexFreq << " c " << c._solver.storeBasisSimplexFreq << std::endl;
   return (b._solver.storeBasisSimplexFreq == 7 && c._solver.storeBasisSimplexFreq == 7) ? 0 : 1;
}
