#!/bin/bash
# F60: max x + y, y + z <= 1, y + z >= 3, x >= 0 is INFEASIBLE.  With default settings (simplifier on, ensureray off) SoPlex
# answered "unbounded": the simplifier's UNBOUNDED result (an empty column with a cost and no upper bound) was taken as the verdict
# for the LP although nothing is known about feasibility.  A definite verdict must never be wrong: "infeasible or unbounded" is fine.
bin=${1:-/repo/_build/bin/soplex}
f=$(cd "$(dirname "$0")" && pwd)/inputs/unbounded_or_infeasible.lp
out=$("$bin" "$f" 2>&1 | grep "SoPlex status")
echo "$out"
case "$out" in *"[unbounded]"*) exit 1;; *) exit 0;; esac
