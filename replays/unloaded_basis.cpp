#include "soplex.h"
#include <iostream>
using namespace soplex;
int main(int argc,char**argv){
  std::string t=argv[1];
  SoPlex s; s.setIntParam(SoPlex::VERBOSITY,0);
  s.setIntParam(SoPlex::SYNCMODE, SoPlex::SYNCMODE_AUTO);
  s.setIntParam(SoPlex::SIMPLIFIER, SoPlex::SIMPLIFIER_OFF);
  s.setIntParam(SoPlex::SCALER, SoPlex::SCALER_BIEQUI);
  s.setBoolParam(SoPlex::PERSISTENTSCALING,false);
  s.setIntParam(SoPlex::OBJSENSE, SoPlex::OBJSENSE_MINIMIZE);
  // empty LP solve -> solver throws NO_PROBLEM; LP copy stays outside the solver
  s.optimize(); std::cout<<"empty solve status="<<s.status()<<" hasBasis="<<s.hasBasis()<<"\n";
  DSVector dummy(0);
  for(int j=0;j<3;j++) s.addColReal(LPCol(1.0+j, dummy, 10.0, 0.0));
  for(int i=0;i<2;i++){ DSVector r(3); r.add(i,1.0); r.add(2,3.0); s.addRowReal(LPRow(1.0, r, infinity)); }
  SPxSolver::VarStatus rows[2]={SPxSolver::BASIC,SPxSolver::ON_LOWER}, cols[3]={SPxSolver::ON_LOWER,SPxSolver::BASIC,SPxSolver::ON_LOWER};
  s.setBasis(rows, cols); std::cout<<"setBasis: hasBasis="<<s.hasBasis()<<" rows="<<s.numRows()<<" cols="<<s.numCols()<<"\n";
  if(t=="F4"){
    mpq_t obj,lo,up; mpq_init(obj);mpq_init(lo);mpq_init(up); mpq_set_si(obj,1,1); mpq_set_si(lo,0,1); mpq_set_si(up,5,1);
    s.addColRational(&obj,&lo,nullptr,nullptr,0,&up);
    std::cout<<"after addColRational(mpq): numRows="<<s.numRows()<<" numCols="<<s.numCols()<<" hasBasis="<<s.hasBasis()<<"\n";
    std::cout<<"status of new col 3 via basisColStatus: "<<s.basisColStatus(3)<<" (reads _basisStatusCols[3], array has 3 entries)\n";
    SPxSolver::VarStatus r2[8], c2[8]; for(auto&x:r2)x=SPxSolver::UNDEFINED; for(auto&x:c2)x=SPxSolver::UNDEFINED;
    s.getBasis(r2,c2); int nb=0; for(int i=0;i<s.numRows();i++) nb+=r2[i]==SPxSolver::BASIC; for(int j=0;j<s.numCols();j++) nb+=c2[j]==SPxSolver::BASIC;
    std::cout<<"getBasis: basic count="<<nb<<" numRows="<<s.numRows()<<" col statuses:"; for(int j=0;j<s.numCols();j++) std::cout<<" "<<c2[j]; std::cout<<"\n";
  }
  if(t=="F5"){
    // basis: row0 basic, row1 nonbasic; col1 basic. change element (i=1,j=1): row 1 nonbasic and col 1 basic -> basis must be dropped.
    // the code tests _basisStatusCols[i] = cols[1]... choose (i=1,j=0): col 0 nonbasic => basis may stay; code tests cols[1]==BASIC => drops. choose (i=1,j=1) vs (i=0...) 
    SPxSolver::VarStatus rows2[2]={SPxSolver::ON_LOWER,SPxSolver::ON_LOWER}, cols2[3]={SPxSolver::BASIC,SPxSolver::ON_LOWER,SPxSolver::BASIC};
    s.setBasis(rows2, cols2);
    s.changeElementReal(0, 2, 5.0); // row 0 nonbasic, col 2 BASIC -> basis matrix changes, must drop; code looks at cols[0]==BASIC -> drops (by luck)
    std::cout<<"changeElement(0,2): hasBasis="<<s.hasBasis()<<"\n";
    s.setBasis(rows2, cols2);
    s.changeElementReal(1, 2, 6.0); // row 1 nonbasic, col 2 BASIC -> must drop; code looks at cols[1]==ON_LOWER -> keeps
    std::cout<<"changeElement(1,2) on basic column 2: hasBasis="<<s.hasBasis()<<" (basis matrix changed, should be dropped like changeColReal does)\n";
  }
  return 0;
}
