// persistent scaling: after a solve the LP in the solver stays scaled.  Selecting another scaler (or none) afterwards must not change what the
// unscaled basis queries return: they describe the user's LP, whose basis has not changed.
#include "soplex.h"
#include <cstdio>
#include <vector>
#include <cmath>
using namespace soplex;
int main()
{
   int bad = 0;
   for(int target = 0; target <= 6; target++)
   {
      SoPlex s; s.setIntParam(SoPlex::VERBOSITY, 0); s.setIntParam(SoPlex::SIMPLIFIER, SoPlex::SIMPLIFIER_OFF);
      s.setBoolParam(SoPlex::PERSISTENTSCALING, true); s.setIntParam(SoPlex::OBJSENSE, SoPlex::OBJSENSE_MINIMIZE);
      s.setIntParam(SoPlex::SCALER, SoPlex::SCALER_BIEQUI);
      DSVector dummy(0);
      for(int j = 0; j < 3; j++) s.addColReal(LPCol(1.0 + j, dummy, 10.0, 0.0));
      for(int i = 0; i < 2; i++) { DSVector r(3); r.add(i, 1024.0); r.add(2, 3.0 / 512); s.addRowReal(LPRow(1.0, r, infinity)); }
      s.optimize();
      std::vector<double> before(2), after(2);
      s.getBasisInverseRowReal(0, before.data(), nullptr, nullptr, true);
      s.setIntParam(SoPlex::SCALER, target);
      bool ok = s.getBasisInverseRowReal(0, after.data(), nullptr, nullptr, true);
      printf("scaler 2 -> %d: row 0 of B^-1 before (%g, %g) after (%g, %g) returned %d\n", target, before[0], before[1], after[0], after[1], ok);
      if(!ok || std::fabs(before[0] - after[0]) > 1e-12 || std::fabs(before[1] - after[1]) > 1e-12) { printf("   DEFECT: the answer changed with the scaler selection\n"); bad = 1; }
      SPxSolver::Status st = s.optimize();
      if(st != SPxSolver::OPTIMAL) { printf("   DEFECT: re-solve status %d\n", (int)st); bad = 1; }
   }
   return bad;
}
