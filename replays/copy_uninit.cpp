// F10 (C17): scalar members that neither the copy constructor nor operator= sets.
// Built with -fsanitize=memory this reports the first read of an uninitialised member in the copy.
#include "soplex.h"
#include <iostream>
using namespace soplex;
int main(){
  SoPlex a; a.setIntParam(SoPlex::VERBOSITY,0); a.setIntParam(SoPlex::OBJSENSE, SoPlex::OBJSENSE_MINIMIZE);
  DSVector dummy(0); for(int j=0;j<2;j++) a.addColReal(LPCol(1.0, dummy, 10.0, 1.0));
  DSVector r(2); r.add(0,1.0); r.add(1,1.0); a.addRowReal(LPRow(3.0, r, infinity));
  SoPlex* b = new SoPlex(a);
  b->optimize();
  std::cout<<"copy solved: status "<<b->status()<<" obj "<<b->objValueReal()<<"\n";
  delete b; return 0;
}
