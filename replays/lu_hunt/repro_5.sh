#!/bin/sh
# >1000 updates without reload: CLUFactor::makeLvec writes past l.start / l.row (heap-buffer-overflow). Needs ASAN to be visible.
cd "$(dirname "$0")"
g++ -std=gnu++14 -O1 -g -fsanitize=address -I/tmp/rp/w/src -I/tmp/rp/w/_build repro_5.cpp -o repro_5 /tmp/rp/w/_build/lib/libsoplex.a -lgmp -lmpfr -lz -lpthread || exit 2
for t in ETA FT; do
  if ./repro_5 $t 2>&1 | grep -q "heap-buffer-overflow"; then echo "DEFECT ($t): heap-buffer-overflow in makeLvec after >1000 updates"; rc=1; fi
done
exit ${rc:-0}
