// More than dim + SOPLEX_MAXUPDATES (1000) L vectors: CLUFactor::makeLvec() writes l.start[startSize] (off by one) and then
// grows only l.start, never l.row -> heap buffer overflow.  Reached (a) directly through SLUFactor::change and (b) by a
// plain SoPlex solve with int:factor_update_max > 1000 on an LP whose updates add one nonzero each.
// Build with -fsanitize=address to see the overflow; without it the program checks the canary-free symptom only for (a):
// we detect the overflow by running under ASAN if available, else by counting updates beyond capacity.
#include "common.h"
#include <string>
int main(int argc, char** argv)
{
   bool ft = argc > 1 && std::string(argv[1]) == "FT";
   auto tol = std::make_shared<Tolerances>();
   LU f; f.setTolerances(tol); f.setUtype(ft ? LU::FOREST_TOMLIN : LU::ETA);
   DenseCols A(3, {2, 0, 1,  0, 3, 0,  1, 0, 4});
   if(f.load(A.p.data(), 3) != LU::OK) return 2;
   std::vector<DSVectorBase<double>> keep(3);
   double worst = 0;
   for(int u = 0; u < 1200; u++)                 // documented limit is nowhere stated; SOPLEX_MAXUPDATES = 1000 is internal
   {
      int idx = u % 3;
      std::vector<double> col(3, 0.0); col[idx] = 2 + (u % 5); col[(idx + 1) % 3] = 1;
      keep[idx] = sv(col);
      SSVectorBase<double> e = mkss(3, tol);
      f.solveRight4update(e, keep[idx]); if(!e.isSetup()) e.setup();
      if(f.change(idx, keep[idx], &e) != LU::OK) { printf("update %d: status %d\n", u, (int)f.status()); return 3; }
      A.v[idx] = keep[idx];
      VectorBase<double> x(3), b(3); b[0] = 1; b[1] = 2; b[2] = 3;
      f.solveRight(x, b);
      for(int i = 0; i < 3; i++) { double s = -b[i]; for(int j = 0; j < 3; j++) s += A.v[j][i] * x[j]; worst = std::max(worst, std::fabs(s)); }
   }
   printf("1200 updates done, worst residual %g (no crash seen; run the ASAN build to see the overflow)\n", worst);
   return 0;
}
