// shared helpers for the reproducers
#include <cstdio>
#include <cmath>
#include <vector>
#include <memory>
#include "soplex.h"
#include "soplex/slufactor.h"
using namespace soplex;
typedef SLUFactor<double> LU;
struct DenseCols
{
   int n;
   std::vector<DSVectorBase<double>> v;
   std::vector<const SVectorBase<double>*> p;
   // rows given row-major
   DenseCols(int n_, const std::vector<double>& rowmajor): n(n_), v(n_), p(n_)
   {
      for(int j = 0; j < n; j++) { for(int i = 0; i < n; i++) if(rowmajor[i * n + j] != 0) v[j].add(i, rowmajor[i * n + j]); p[j] = &v[j]; }
   }
};
static DSVectorBase<double> sv(const std::vector<double>& b)
{
   DSVectorBase<double> s; for(int i = 0; i < (int)b.size(); i++) if(b[i] != 0) s.add(i, b[i]); return s;
}
static SSVectorBase<double> mkss(int n, std::shared_ptr<Tolerances> tol)
{
   SSVectorBase<double> s(0, tol); s.reDim(n); return s; // index memory of n+1 entries, as the library's own work vectors
}
