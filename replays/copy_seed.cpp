#include "soplex.h"
#include <iostream>
using namespace soplex;
int main(){
  { SoPlex a; a.setIntParam(SoPlex::VERBOSITY,0); a.setRandomSeed(42); SoPlex b(a); SoPlex c; c = a;
    std::cout<<"F18 seed: a="<<a.randomSeed()<<" copy-constructed b="<<b.randomSeed()<<" assigned c="<<c.randomSeed()<<"\n"; }
  return 0;
}
