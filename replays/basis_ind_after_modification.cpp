#include "soplex.h"
#include <iostream>
#include <vector>
#include <cmath>
using namespace soplex;
// after an in-place modification, is the basis index list consistent with the basis-inverse queries when it is asked for BEFORE the first query?
int main(){ int bad=0;
 const char* fs[]={"afiro","sc50a","adlittle","share2b"};
 for(const char* nm:fs) for(int mode=0;mode<2;mode++) for(int simp=0;simp<2;simp++){
  SoPlex s; s.setIntParam(SoPlex::VERBOSITY,0); s.setIntParam(SoPlex::SIMPLIFIER,simp?SoPlex::SIMPLIFIER_INTERNAL:SoPlex::SIMPLIFIER_OFF);
  s.readFile((std::string("/repo/check/instances/")+nm+".mps").c_str()); s.optimize();
  int m=s.numRowsReal();
  if(mode==0){ // remove a row whose slack is basic
    int r=-1; for(int i=0;i<m;i++) if(s.basisRowStatus(i)==SPxSolver::BASIC){ r=i; break; }
    if(r<0) continue; s.removeRowReal(r);
  } else { DSVector row(2); row.add(0,1.0); row.add(1,1.0); s.addRowReal(LPRow(-1e6,row,1e6)); }
  m=s.numRowsReal(); int n=s.numColsReal();
  if(!s.hasBasis()) { std::cout<<nm<<" mode "<<mode<<": no basis\n"; continue; }
  std::vector<int> b1(m), b2(m);
  s.getBasisInd(b1.data());
  std::vector<double> col(m);
  bool ok=s.getBasisInverseColReal(0,col.data());
  s.getBasisInd(b2.data());
  int diff=0; for(int i=0;i<m;i++) if(b1[i]!=b2[i]) diff++;
  // check B(b1) * invcol(0) = e_0
  std::vector<double> res(m,0.0);
  for(int k=0;k<m;k++){ if(b1[k]>=0){ DSVector c; s.getColVectorReal(b1[k],c); for(int t=0;t<c.size();t++) res[c.index(t)]+=c.value(t)*col[k]; } else res[-b1[k]-1]+= col[k]; }
  double err=0; for(int i=0;i<m;i++) err=std::max(err,std::fabs(res[i]-(i==0?1.0:0.0)));
  if(diff||err>1e-6||!ok){ bad++; std::cout<<nm<<" mode "<<mode<<" simp "<<simp<<": index list before first query differs from after it in "<<diff<<" places; |B(b1)*invcol(0)-e0| = "<<err<<" ok="<<ok<<"\n"; }
 }
 std::cout<<"failures "<<bad<<std::endl; return bad?1:0; }
