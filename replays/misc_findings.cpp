#include "soplex.h"
#include "soplex_interface.h"
#include <iostream>
#include <cmath>
#include <cstring>
#include <fstream>
using namespace soplex;
static void buildLP(SoPlex& s, int ncols=3, int nrows=2){
  s.setIntParam(SoPlex::VERBOSITY,0);
  s.setIntParam(SoPlex::OBJSENSE, SoPlex::OBJSENSE_MINIMIZE);
  DSVector dummy(0);
  for(int j=0;j<ncols;j++) s.addColReal(LPCol(1.0+j, dummy, 10.0, 0.0));
  for(int i=0;i<nrows;i++){ DSVector r(ncols); r.add(i,1.0); r.add(ncols-1,3.0); s.addRowReal(LPRow(1.0, r, infinity)); }
}
int main(int argc,char**argv){
  std::string t=argv[1];
  if(t=="F3"){ // C interface objValueRationalString
    void* so=SoPlex_create(); SoPlex_setIntParam(so, SoPlex::VERBOSITY,0); SoPlex_setRational(so);
    double c[1]={1.0}; SoPlex_addColReal(so,c,0,0,1.0,2.0,5.0);
    SoPlex_setIntParam(so, SoPlex::OBJSENSE, SoPlex::OBJSENSE_MINIMIZE);
    SoPlex_optimize(so);
    SoPlex* sp=(SoPlex*)so; std::cout<<"C++ objValueRational="<<sp->objValueRational().str()<<" status="<<SoPlex_getStatus(so)<<"\n";
    char* s=SoPlex_objValueRationalString(so); std::cout<<"C string first byte='"<<s[0]<<"' (length passed to new[] was 1, no terminator)\n";
  }
  if(t=="F7"){ SoPlex s; s.setIntParam(SoPlex::VERBOSITY,0); bool ok=s.setRealParam(SoPlex::FEASTOL, std::nan("")); std::cout<<"setRealParam(FEASTOL,NaN) -> "<<ok<<" value now "<<s.realParam(SoPlex::FEASTOL)<<"\n"; }
  if(t=="F8"){ SoPlex s; s.setIntParam(SoPlex::VERBOSITY,0); s.setIntParam(SoPlex::SIMPLIFIER, SoPlex::SIMPLIFIER_OFF); std::cout<<"before: simplifier param="<<s.intParam(SoPlex::SIMPLIFIER)<<" name="<<s.getSimplifierName()<<"\n"; bool ok=s.setIntParam(SoPlex::SIMPLIFIER, SoPlex::SIMPLIFIER_PAPILO); std::cout<<"set PAPILO -> "<<ok<<" param="<<s.intParam(SoPlex::SIMPLIFIER)<<" name="<<s.getSimplifierName()<<"\n"; }
  if(t=="F9"){ SoPlex a; a.setIntParam(SoPlex::VERBOSITY,0); buildLP(a); SoPlex b(a); std::cout<<"before: a.feastol="<<a.tolerances()->floatingPointFeastol()<<" b="<<b.tolerances()->floatingPointFeastol()<<" same object="<<(a.tolerances().get()==b.tolerances().get())<<"\n"; b.setRealParam(SoPlex::FPFEASTOL, 1e-3); std::cout<<"after b.setRealParam(FPFEASTOL,1e-3): a.tolerances fpfeastol="<<a.tolerances()->floatingPointFeastol()<<" a.realParam="<<a.realParam(SoPlex::FPFEASTOL)<<"\n"; }
  if(t=="F4"){ // unloaded LP with basis, then addColRational(mpq) in AUTO mode
    SoPlex s; s.setIntParam(SoPlex::SYNCMODE, SoPlex::SYNCMODE_AUTO); buildLP(s,4,3);
    s.setIntParam(SoPlex::SIMPLIFIER, SoPlex::SIMPLIFIER_OFF); s.setIntParam(SoPlex::SCALER, SoPlex::SCALER_BIEQUI); s.setBoolParam(SoPlex::PERSISTENTSCALING,false);
    s.optimize(); std::cout<<"status "<<s.status()<<" hasBasis "<<s.hasBasis()<<"\n";
    mpq_t obj,lo,up; mpq_init(obj);mpq_init(lo);mpq_init(up); mpq_set_si(obj,1,1); mpq_set_si(lo,0,1); mpq_set_si(up,5,1);
    s.addColRational(&obj,&lo,nullptr,nullptr,0,&up);
    std::cout<<"after addColRational(mpq): numRows="<<s.numRows()<<" numCols="<<s.numCols()<<" hasBasis="<<s.hasBasis()<<"\n";
    std::vector<SPxSolver::VarStatus> rows(s.numRows()+5), cols(s.numCols()+5);
    if(s.hasBasis()){ s.getBasis(rows.data(), cols.data()); int nb=0; for(int i=0;i<s.numRows();i++) nb+=rows[i]==SPxSolver::BASIC; for(int j=0;j<s.numCols();j++) nb+=cols[j]==SPxSolver::BASIC; std::cout<<"basic count="<<nb<<" (should be "<<s.numRows()<<")\n"; }
  }
  if(t=="F13"){ // stale rational LU in MANUAL mode
    SoPlex s; s.setIntParam(SoPlex::VERBOSITY,0); s.setIntParam(SoPlex::SYNCMODE, SoPlex::SYNCMODE_MANUAL);
    s.setIntParam(SoPlex::OBJSENSE, SoPlex::OBJSENSE_MINIMIZE);
    DSVectorRational dummy(0);
    for(int j=0;j<2;j++) s.addColRational(LPColRational(Rational(1), dummy, Rational(10), Rational(0)));
    for(int i=0;i<2;i++){ DSVectorRational r(2); r.add(i,Rational(2)); s.addRowRational(LPRowRational(Rational(1), r, Rational(100))); }
    s.syncLPReal(); s.setIntParam(SoPlex::SOLVEMODE, SoPlex::SOLVEMODE_RATIONAL); s.setRealParam(SoPlex::FEASTOL,0.0); s.setRealParam(SoPlex::OPTTOL,0.0);
    s.optimize(); std::cout<<"status "<<s.status()<<" hasBasis "<<s.hasBasis()<<"\n";
    SSVectorRational v(2); bool ok=s.getBasisInverseRowRational(0,v); DataArray<int> bind; s.getBasisIndRational(bind);
    std::cout<<"inv row0 ok="<<ok<<" bind0="<<bind[0]<<" v=["<<v[0]<<","<<v[1]<<"]\n";
    s.changeElementRational(0,0,Rational(4)); // B changes: a00 2 -> 4
    SSVectorRational w(2); ok=s.getBasisInverseRowRational(0,w);
    std::cout<<"after changeElementRational(0,0,4): inv row0 ok="<<ok<<" w=["<<w[0]<<","<<w[1]<<"] (exact inverse would have 1/4 if col 0 basic)\n";
  }
  if(t=="F15"){ SoPlex s; buildLP(s); s.setIntParam(SoPlex::SIMPLIFIER, SoPlex::SIMPLIFIER_OFF); s.setBoolParam(SoPlex::PERSISTENTSCALING,true); s.changeElementReal(0,0,1024.0); s.changeElementReal(1,1,1.0/512); s.optimize(); std::cout<<"status "<<s.status()<<" coef(0,0)="<<s.coefReal(0,0)<<"\n"; s.setIntParam(SoPlex::SCALER, SoPlex::SCALER_OFF); std::cout<<"scaler off; calling coefReal..."<<std::endl; std::cout<<s.coefReal(0,0)<<"\n"; }
  if(t=="F16"){ SoPlex s; s.setIntParam(SoPlex::SYNCMODE, SoPlex::SYNCMODE_AUTO); buildLP(s); s.setIntParam(SoPlex::SIMPLIFIER, SoPlex::SIMPLIFIER_OFF); s.setBoolParam(SoPlex::PERSISTENTSCALING,true); s.changeElementReal(0,0,1024.0); s.changeElementReal(1,1,1.0/512); s.optimize(); std::cout<<"status "<<s.status()<<" obj(0)="<<s.objReal(0)<<" obj(1)="<<s.objReal(1)<<"\n"; s.changeObjRational(0, Rational(7)); s.changeObjRational(1, Rational(7)); std::cout<<"after changeObjRational(.,7): objReal(0)="<<s.objReal(0)<<" objReal(1)="<<s.objReal(1)<<" objRational(0)="<<s.objRational(0)<<"\n"; }
  if(t=="F14"){ SoPlex s; s.setIntParam(SoPlex::VERBOSITY,0); char line[]="int:iterlimit = abc"; try{ bool ok=s.parseSettingsString(line); std::cout<<"parseSettingsString -> "<<ok<<"\n"; }catch(const std::exception& e){ std::cout<<"exception escaped: "<<e.what()<<"\n"; } }
  if(t=="F5"){ // _changeElementReal with i>=numCols on unloaded LP with basis
    SoPlex s; buildLP(s,2,6); s.setIntParam(SoPlex::SCALER, SoPlex::SCALER_BIEQUI); s.setBoolParam(SoPlex::PERSISTENTSCALING,false); s.setIntParam(SoPlex::SIMPLIFIER, SoPlex::SIMPLIFIER_OFF); s.optimize();
    std::cout<<"status "<<s.status()<<" hasBasis="<<s.hasBasis()<<"\n"; SPxSolver::VarStatus rows[6], cols[2]; s.getBasis(rows,cols); for(int i=0;i<6;i++) std::cout<<rows[i]<<" "; std::cout<<"| "; for(int j=0;j<2;j++) std::cout<<cols[j]<<" "; std::cout<<"\n";
  }
  return 0;
}
