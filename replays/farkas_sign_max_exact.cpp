// F62: Farkas proof of x + y <= 4, x + y >= 5 for min / max, float / exact, simplifier off / on.  The exact solver returned the vector
// negated for maximisation problems (y = (1/5, -1/5)): positive on a row that only has a right-hand side.
#include "soplex.h"
#include <iostream>
using namespace soplex;
static int g_rc=0;
int main(){ for(int sense=0;sense<2;sense++) for(int exact=0;exact<2;exact++) for(int simp=0;simp<2;simp++){
  SoPlex s; s.setIntParam(SoPlex::VERBOSITY,0); s.setIntParam(SoPlex::SIMPLIFIER,simp?SoPlex::SIMPLIFIER_INTERNAL:SoPlex::SIMPLIFIER_OFF); s.setBoolParam(SoPlex::ENSURERAY,true);
  if(exact){ s.setIntParam(SoPlex::SOLVEMODE,SoPlex::SOLVEMODE_RATIONAL); s.setIntParam(SoPlex::SYNCMODE,SoPlex::SYNCMODE_AUTO); s.setRealParam(SoPlex::FEASTOL,0.0); s.setRealParam(SoPlex::OPTTOL,0.0);} 
  s.setIntParam(SoPlex::OBJSENSE,sense?SoPlex::OBJSENSE_MAXIMIZE:SoPlex::OBJSENSE_MINIMIZE);
  DSVector c(0); s.addColReal(LPCol(1,c,10,0)); s.addColReal(LPCol(1,c,10,0)); DSVector r(2); r.add(0,1); r.add(1,1); s.addRowReal(LPRow(-infinity,r,4)); s.addRowReal(LPRow(5,r,infinity));
  SPxSolver::Status st=s.optimize(); double y[2]={0,0}; bool has=s.hasDualFarkas(); if(has){ if(exact){ VectorRational yr(2); s.getDualFarkasRational(yr); y[0]=double(yr[0]); y[1]=double(yr[1]); } else s.getDualFarkasReal(y,2);} 
  bool ok = !has || (y[0]<=1e-12 && y[1]>=-1e-12 && (4*y[0]+5*y[1] > 1e-9));
  if(!ok) g_rc=1;
  std::cout<<(sense?"max":"min")<<(exact?" exact":" float")<<" simp"<<simp<<": status "<<st<<" farkas "<<has<<" y=("<<y[0]<<","<<y[1]<<") "<<(ok?"valid":"INVALID (wrong signs)")<<"\n"; }
 return g_rc; }
