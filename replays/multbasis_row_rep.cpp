// F32: SoPlexBase::multBasis in ROW representation.  (a) the column basis vectors are collected with DSVectorBase::add(SVectorBase),
// which appends entries without merging equal indices, and the result is then assigned to a dense vector, which keeps only the last
// entry per index: B*x is wrong as soon as two basis columns with x[i] != 0 share a row; (b) with unscale=true on a scaled LP the
// unscaled column is added and then the scaled column is added again (missing else).
// Compares multBasis(x) with B*x computed from getBasisInd + getColVectorReal.
#include "soplex.h"
#include <iostream>
#include <vector>
#include <cmath>
using namespace soplex;
static int run(int rep, int scaler, const char* file)
{
   SoPlex s;
   s.setIntParam(SoPlex::VERBOSITY, 0);
   s.setIntParam(SoPlex::SIMPLIFIER, SoPlex::SIMPLIFIER_OFF);
   s.setIntParam(SoPlex::REPRESENTATION, rep);
   s.setIntParam(SoPlex::SCALER, scaler);
   s.readFile(file);
   s.optimize();
   int m = s.numRowsReal();
   std::vector<int> bind(m);
   s.getBasisInd(bind.data());
   std::vector<double> x(m), ref(m, 0.0);
   for(int i = 0; i < m; i++) x[i] = 1.0 + (i % 7) * 0.25;
   for(int i = 0; i < m; i++)
   {
      if(bind[i] < 0) ref[-bind[i] - 1] += x[i];
      else
      {
         DSVector col; s.getColVectorReal(bind[i], col);
         for(int k = 0; k < col.size(); k++) ref[col.index(k)] += x[i] * col.value(k);
      }
   }
   std::vector<double> y(x);
   if(!s.multBasis(y.data(), true)) { std::cout << "multBasis returned false\n"; return 2; }
   double err = 0, nrm = 0;
   for(int i = 0; i < m; i++) { err = std::max(err, std::fabs(y[i] - ref[i])); nrm = std::max(nrm, std::fabs(ref[i])); }
   std::cout << "representation " << (rep == SoPlex::REPRESENTATION_ROW ? "ROW" : "COLUMN") << " scaler " << scaler
             << ": max |multBasis(x) - B x| = " << err << " (max |B x| = " << nrm << ")" << std::endl;
   return err <= 1e-9 * (1 + nrm) ? 0 : 1;
}
int main(int argc, char** argv)
{
   const char* f = argc > 1 ? argv[1] : "/repo/check/instances/adlittle.mps";
   int rc = 0;
   rc |= run(SoPlex::REPRESENTATION_COLUMN, SoPlex::SCALER_OFF, f);
   rc |= run(SoPlex::REPRESENTATION_COLUMN, SoPlex::SCALER_BIEQUI, f);
   rc |= run(SoPlex::REPRESENTATION_ROW, SoPlex::SCALER_OFF, f);
   rc |= run(SoPlex::REPRESENTATION_ROW, SoPlex::SCALER_BIEQUI, f);
   return rc;
}
