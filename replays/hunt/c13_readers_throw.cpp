// Finding 2: a gz file with a damaged deflate stream (and: a path that cannot be opened) makes readFile(),
// readBasisFile() and loadSettingsFile() THROW (zstr::Exception resp. strict_fstream::Exception, both derived from
// std::ios_base::failure) instead of returning false.  The soplex binary has no handler: it dies with SIGABRT
//   soplex inputs/corrupt.mps.gz      -> terminate called after throwing an instance of 'zstr::Exception'
//   soplex /nonexistent/x.lp          -> terminate called after throwing an instance of 'strict_fstream::Exception'
// The LP readers allocate their line buffers / name sets with spx_alloc and free them at the end of the function,
// so the exception also leaks them (LeakSanitizer: 3 x 8192 bytes from SPxLPBase<double>::readLPF per call).
//
// exit code: number of reader calls that threw (0 = clean)
#include "soplex.h"
#include <cstdio>
#include <zlib.h>
#include <vector>
#include <string>
using namespace soplex;

static const char* mps =
   "NAME t\nROWS\n N obj\n L r1\n G r2\nCOLUMNS\n x obj 1 r1 1\n x r2 1\n y obj 2 r1 1\n y r2 -1\nRHS\n RHS r1 4 r2 -2\n"
   "BOUNDS\n UP BND x 3\nENDATA\n";

int main()
{
   // a gz file of a long, valid MPS file (the small one above repeated as comment padding), with bytes in the middle flipped
   std::string txt;

   for(int i = 0; i < 200; i++)
      txt += "* comment line number " + std::to_string(i * 7919) + " padding padding\n";

   txt += mps;
   const char* fn = "/tmp/hunt/C13/inputs/repro2_corrupt.mps.gz";
   gzFile g = gzopen(fn, "wb");
   gzwrite(g, txt.data(), (unsigned)txt.size());
   gzclose(g);
   FILE* f = fopen(fn, "rb");
   std::vector<unsigned char> d(1 << 16);
   size_t n = fread(d.data(), 1, d.size(), f);
   fclose(f);

   for(size_t i = n / 2; i < n / 2 + 8; i++)
      d[i] ^= 0xA5;

   f = fopen(fn, "wb");
   fwrite(d.data(), 1, n, f);
   fclose(f);

   int threw = 0;
   SoPlex s;
   s.setIntParam(SoPlex::VERBOSITY, 0);
   const char* what[] = { "readFile(corrupt gz)", "readBasisFile(corrupt gz)", "loadSettingsFile(corrupt gz)", "readFile(nonexistent)", "readBasisFile(nonexistent)", "loadSettingsFile(nonexistent)" };

   for(int k = 0; k < 6; k++)
   {
      const char* path = k < 3 ? fn : "/nonexistent/dir/file";

      try
      {
         bool ok = (k % 3 == 0) ? s.readFile(path) : (k % 3 == 1) ? s.readBasisFile(path) : s.loadSettingsFile(path);
         printf("%-30s returned %d\n", what[k], ok);
      }
      catch(const std::exception& e)
      {
         printf("%-30s THREW %s\n", what[k], e.what());
         threw++;
      }
   }

   return threw;
}
