// segfault in least-squares scaler (SSVectorBase::assign2productShort)
// LP from checker seed 7 (true status by exact rational simplex: UNB); non-default parameters: i11=5
// exits non-zero (or aborts inside the library) when the defect shows
#include "repro_common.h"
int main()
{
   DenseLP lp;
   lp.m = 6; lp.n = 7; lp.sense = +1; lp.offset = -19;
   lp.A = {
      {0, 0, 0, 0, -1, 0, 0},
      {0, 1, 0, 0, 0, 0, 0},
      {0, 0, 0, 1, 0, 0, 0},
      {0, 0, 0, 0, 0, 0, 0},
      {0, 0, 0, 0, 0, 0, 0},
      {0, 0, 0, 0, 0, 0, 0},
   };
   lp.lhs = {-INF, -5, -INF, -INF, -INF, -INF};
   lp.rhs = {3, INF, INF, 4, INF, 6};
   lp.lo = {3, 3, 0, 0, 0, -INF, 0};
   lp.up = {4, INF, INF, INF, INF, 2, INF};
   lp.c = {0, -2, 0, 2, 1, 0, 0};
   SoPlex sp;
   sp.setIntParam(SoPlex::VERBOSITY, 0);
   sp.setIntParam(SoPlex::SCALER, 5);
   loadLP(sp, lp);
   SPxSolver::Status st = sp.optimize();
   printf("status %d\n", (int)st);
   if(st == SPxSolver::OPTIMAL) { printf("LP has no finite optimum but status is OPTIMAL\n"); return 1; }
   if(st != SPxSolver::INFEASIBLE && st != SPxSolver::UNBOUNDED && st != SPxSolver::INForUNBD) { printf("unexpected status\n"); return 1; }
   return 0;
}
