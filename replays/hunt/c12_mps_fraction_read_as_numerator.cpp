// Finding 5: in floating-point read mode the MPS reader converts every number with atof() (spxlpbase_real.hpp:1642,
// 1658, 1729, 1746, 1818, 1848, 1948).  A fraction "p/q" - which is what writeFileRational() writes for every
// non-integer value - is silently read as p: no error, no warning, a different LP.
// (The LP-format reader rejects the same file with a syntax error, which at least is loud.)
// Exits non-zero when the defect shows.
#include "soplex.h"
#include <iostream>
using namespace soplex;
int main()
{
   SoPlex sp;
   sp.setIntParam(SoPlex::VERBOSITY, 0);
   sp.setIntParam(SoPlex::SYNCMODE, SoPlex::SYNCMODE_AUTO);
   sp.setIntParam(SoPlex::READMODE, SoPlex::READMODE_RATIONAL);
   sp.setIntParam(SoPlex::OBJSENSE, SoPlex::OBJSENSE_MINIMIZE);
   DSVectorRational e;
   sp.addColRational(LPColRational(Rational(1) / 3, e, Rational(7) / 2, 0));     // min 1/3 x, 0 <= x <= 7/2
   DSVectorRational r; r.add(0, Rational(2) / 3);
   sp.addRowRational(LPRowRational(Rational(1) / 2, r, infinity));               // 2/3 x >= 1/2   -> x = 3/4, value 1/4
   sp.writeFileRational("/tmp/hunt/C12/tmp_repro_5.mps");
   SoPlex sb;                                     // default settings: READMODE_REAL
   sb.setIntParam(SoPlex::VERBOSITY, 0);
   if(!sb.readFile("/tmp/hunt/C12/tmp_repro_5.mps")) { std::cout << "rejected (fine)\n"; return 0; }
   DSVector v; sb.getRowVectorReal(0, v);
   std::cout << "read without complaint: obj " << sb.objReal(0) << " (1/3), coef " << v.value(0) << " (2/3), lhs " << sb.lhsReal(0)
             << " (1/2), upper " << sb.upperReal(0) << " (7/2)\n";
   sb.optimize();
   std::cout << "optimal value of the LP read: " << sb.objValueReal() << " (0.25)\n";
   bool bad = sb.objReal(0) != 1.0 / 3 || v.value(0) != 2.0 / 3 || sb.lhsReal(0) != 0.5 || sb.upperReal(0) != 3.5;
   if(bad) std::cout << "DEFECT\n";
   return bad ? 1 : 0;
}
