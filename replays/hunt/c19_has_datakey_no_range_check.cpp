// DataSet / ClassSet / SVSet / LPRowSet / SPxLP::has(key): keys of removed elements are reported as present after
// clear() (clear() resets the counters but leaves the per-slot "info >= 0" marks that has(DataKey) looks at).
// exit code: 0 = fine, 1 = defect
#include <iostream>
#include "soplex.h"
using namespace soplex;
int main()
{
   int bad = 0;
   DataSet<int> s(8);
   DataKey k;
   s.add(k, 5);
   s.clear();
   std::cout << "DataSet: num() = " << s.num() << ", has(key of removed element) = " << s.has(k) << std::endl;
   bad += s.has(k);

   SPxLP lp;
   DSVector v;
   v.add(0, 1.0);
   lp.addRow(LPRow(0.0, v, 1.0));
   SPxRowId rid = lp.rId(0);
   SPxColId cid = lp.cId(0);
   lp.clear();
   std::cout << "SPxLP: nRows() = " << lp.nRows() << ", has(old row id) = " << lp.has(rid) << ", has(old col id) = "
             << lp.has(cid) << std::endl;
   bad += lp.has(rid) + lp.has(cid);
   std::cout << (bad ? "DEFECT: removed keys still reported as members" : "ok") << std::endl;
   return bad ? 1 : 0;
}
