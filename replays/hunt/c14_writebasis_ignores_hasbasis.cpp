// Finding 5: hasBasis()/getBasis() and writeBasisFile() disagree.  After this exact solve (status OPTIMAL,
// "Reconstructed solution not basic") hasBasis() is false and getBasis() reports the slack basis, but writeBasisFile()
// writes the basis that is still inside the floating-point solver; reading the file back therefore does NOT restore the
// statuses that getBasis() returned before the write.
#include "soplex.h"
#include <iostream>
#include <fstream>
using namespace soplex;
int main()
{
   SoPlex s;
   s.setIntParam(SoPlex::VERBOSITY, 0);
   s.setIntParam(SoPlex::SYNCMODE, SoPlex::SYNCMODE_AUTO);
   s.setRealParam(SoPlex::FEASTOL, 0.0);
   s.setRealParam(SoPlex::OPTTOL, 0.0);
   s.setIntParam(SoPlex::SOLVEMODE, SoPlex::SOLVEMODE_RATIONAL);
   s.setIntParam(SoPlex::OBJSENSE, SoPlex::OBJSENSE_MAXIMIZE);
   double lo[5] = { -infinity, -2, 0, 0, -infinity}, up[5] = {3, -2, infinity, infinity, 5}, obj[5] = {0, 4, -4, 3, 0};
   double A[6][5] = {{ -1, 0, 2, -3, -3}, {0, -2, 0, -1, 0}, {0, 3, 0, 0, 1}, { -2, 2, -3, 2, 0}, {0, 0, 0, 0, 0}, { -2, 0, 0, -2, 0}};
   double lhs[6] = {5, -infinity, -infinity, 3, 0, 5}, rhs[6] = {infinity, infinity, 10, 3, infinity, infinity};
   DSVector e(0);

   for(int j = 0; j < 5; j++) s.addColReal(LPCol(obj[j], e, up[j], lo[j]));

   for(int i = 0; i < 6; i++)
   {
      DSVector v(5);

      for(int j = 0; j < 5; j++) if(A[i][j] != 0) v.add(j, A[i][j]);

      s.addRowReal(LPRow(lhs[i], v, rhs[i]));
   }

   SPxSolver::Status st = s.optimize();
   SPxSolver::VarStatus r0[6], c0[5], r1[6], c1[5];
   bool hb = s.hasBasis();
   s.getBasis(r0, c0);
   s.writeBasisFile("repro_5.bas");
   std::ifstream f("repro_5.bas");
   std::cout << "status " << st << " hasBasis " << hb << "\n" << f.rdbuf();
   bool ok = s.readBasisFile("repro_5.bas");
   s.getBasis(r1, c1);
   std::cout << "before write: rows";
   for(int i = 0; i < 6; i++) std::cout << " " << r0[i];
   std::cout << " cols";
   for(int j = 0; j < 5; j++) std::cout << " " << c0[j];
   std::cout << "\nafter read:   rows";
   for(int i = 0; i < 6; i++) std::cout << " " << r1[i];
   std::cout << " cols";
   for(int j = 0; j < 5; j++) std::cout << " " << c1[j];
   std::cout << "\n";
   bool same = ok;
   for(int i = 0; i < 6; i++) same = same && (r0[i] == r1[i]);
   // a fixed column is reported ON_LOWER by the no-basis default of getBasis and FIXED after reading: not counted
   for(int j = 0; j < 5; j++) same = same && (c0[j] == c1[j] || lo[j] == up[j]);
   std::cout << (same ? "OK\n" : "DEFECT: file does not contain the basis that getBasis() reported\n");
   return same ? 0 : 1;
}
