// repro_2: an exact (rational) solve that is stopped with ABORT_TIME (time limit; the interrupt flag takes the same path) while a *refined*
// floating-point solve of iterative refinement is running leaves the row objective of the floating-point LP set
// (SoPlexBase::_evaluateResult(), solverational.hpp ~l.1464: case ABORT_TIME lacks the clearRowObjs() that the
// ABORT_ITER / default / INFEASIBLE / UNBOUNDED cases have).  The next optimize() on the same object then fails
//   assert(_solver.maxRowObj(r) == 0.0)   in _performOptIRStable (solverational.hpp:2118)
// (without assertions it silently starts from an LP with a foreign row objective).
//   max 3x  s.t.  2x >= 8, 2x <= 7, 5x = 3, 0x = 0, x <= 3     (infeasible)
// exits non-zero (SIGABRT) when the defect shows, 0 otherwise
#include "soplex.h"
#include <iostream>
using namespace soplex;

int main()
{
   SoPlex s;
   s.setIntParam(SoPlex::VERBOSITY, SoPlex::VERBOSITY_ERROR);
   s.setIntParam(SoPlex::TIMER, SoPlex::TIMER_WALLCLOCK);   // the default cpu timer is too coarse to hit this reliably
   s.setRealParam(SoPlex::TIMELIMIT, 1e-9);

   s.setIntParam(SoPlex::SOLVEMODE, SoPlex::SOLVEMODE_RATIONAL);
   s.setIntParam(SoPlex::SYNCMODE, SoPlex::SYNCMODE_AUTO);
   s.setIntParam(SoPlex::READMODE, SoPlex::READMODE_RATIONAL);
   s.setIntParam(SoPlex::CHECKMODE, SoPlex::CHECKMODE_RATIONAL);
   s.setRealParam(SoPlex::FEASTOL, 0.0);
   s.setRealParam(SoPlex::OPTTOL, 0.0);
   s.setIntParam(SoPlex::OBJSENSE, SoPlex::OBJSENSE_MAXIMIZE);
   DSVector dummy(0);
   s.addColReal(LPCol(3.0, dummy, 3.0, -infinity));
   double a[4] = {2, 2, 5, 0}, lhs[4] = {8, -infinity, 3, 0}, rhs[4] = {infinity, 7, 3, 0};

   for(int i = 0; i < 4; i++)
   {
      DSVector r(1);
      if(a[i] != 0) r.add(0, a[i]);
      s.addRowReal(LPRow(lhs[i], r, rhs[i]));
   }

   SPxSolver::Status st = s.optimize();
   std::cerr << "solve with TIMELIMIT=1e-9: status " << st << "\n";
   if(st != SPxSolver::ABORT_TIME)
   {
      std::cerr << "time limit did not strike - defect not exercised\n";
      return 0;
   }
   s.setRealParam(SoPlex::TIMELIMIT, infinity);
   st = s.optimize();               // assertion `_solver.maxRowObj(r) == 0.0' fails here
   std::cerr << "resumed solve: status " << st << "\n";
   return st == SPxSolver::INFEASIBLE ? 0 : 1;
}
