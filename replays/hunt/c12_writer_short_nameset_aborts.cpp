// Finding 1 (root cause, API level): the writers fall back to default names for rows/columns the NameSet has no name
// for ("if(p_cnames->has(key)) ... else x%d"), but NameSet::has(DataKey) -> DataSet::has(DataKey) indexes
// theitem[key.idx] without a range check.  With a name set that is shorter than the LP (columns added after the
// names were collected; the dual LP, which has more columns than the primal has rows) it reads uninitialised memory:
// assertion "k.idx < thesize" (dataset.h:389) or garbage names.
#include "soplex.h"
#include <iostream>
using namespace soplex;
int main()
{
   SoPlex sp;
   sp.setIntParam(SoPlex::VERBOSITY, 0);
   NameSet cn, rn;
   DSVector e;

   cn.add("t0");                                       // a name for column 0 only

   for(int j = 0; j < 4; j++) sp.addColReal(LPCol(1.0, e, 10.0, 0.0));
   DSVector r; r.add(0, 1.0); r.add(1, 1.0); r.add(2, 1.0); r.add(3, 1.0);
   sp.addRowReal(LPRow(1.0, r, infinity));
   rn.add("row0");
   bool ok = sp.writeFile("/tmp/hunt/C12/tmp_repro_1b.lp", &rn, &cn);   // columns 1..3 have no name -> x1..x3 expected
   SoPlex sb; sb.setIntParam(SoPlex::VERBOSITY, 0);
   NameSet rn2, cn2;
   if(!ok || !sb.readFile("/tmp/hunt/C12/tmp_repro_1b.lp", &rn2, &cn2) || sb.numCols() != 4) { std::cout << "DEFECT: file not written/readable\n"; return 1; }
   for(int j = 0; j < 4; j++) std::cout << cn2[j] << " ";
   std::cout << "\nok\n";
   return 0;
}
