// repro_1: vector getters getLhsReal/getRhsReal/getLowerReal/getUpperReal multiply infinite sides/bounds by the
// scale factor of a persistently scaled LP; the scalar getters lhsReal(i) ... return +-1e100 for the same entries.
#include "soplex.h"
#include <cstdio>
using namespace soplex;
int main()
{
   SoPlex s;
   s.setIntParam(SoPlex::VERBOSITY, 0);
   s.setIntParam(SoPlex::OBJSENSE, SoPlex::OBJSENSE_MINIMIZE);
   s.setIntParam(SoPlex::SCALER, SoPlex::SCALER_BIEQUI);
   s.setBoolParam(SoPlex::PERSISTENTSCALING, true);
   s.setIntParam(SoPlex::SIMPLIFIER, SoPlex::SIMPLIFIER_OFF);
   const double inf = s.realParam(SoPlex::INFTY);
   DSVector e;
   // min x0 + x1   s.t.  1024 x0 + 2048 x1 >= 4096 ; x0 >= 0 ; x1 >= 0
   s.addColReal(LPCol(1.0, e, inf, 0.0));
   s.addColReal(LPCol(1.0, e, inf, 0.0));
   DSVector r; r.add(0, 1024.0); r.add(1, 2048.0);
   s.addRowReal(LPRow(4096.0, r, inf));
   s.optimize();                          // persistent scaling is applied to the stored LP here
   int bad = 0;
   VectorReal up(2), lo(2), lhs(1), rhs(1);
   s.getUpperReal(up); s.getLowerReal(lo); s.getLhsReal(lhs); s.getRhsReal(rhs);
   for(int j = 0; j < 2; j++)
   {
      printf("upperReal(%d)=%g  getUpperReal[%d]=%g\n", j, s.upperReal(j), j, up[j]);
      if(up[j] != s.upperReal(j) || up[j] != inf) bad++;
      if(lo[j] != s.lowerReal(j)) bad++;
   }
   printf("rhsReal(0)=%g  getRhsReal[0]=%g\n", s.rhsReal(0), rhs[0]);
   if(rhs[0] != s.rhsReal(0) || rhs[0] != inf) bad++;
   if(lhs[0] != 4096.0) bad++;
   printf(bad ? "DEFECT: vector getters leak the scale factor into infinite entries\n" : "ok\n");
   return bad ? 1 : 0;
}
