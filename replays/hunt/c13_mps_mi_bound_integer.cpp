// Finding 5 (semantic, found by the write/read round trip on the shipped instance gas11.mps): the MPS BOUNDS reader
// takes the bound type "MI" (lower bound = -infinity) for an ILOG *integer* bound type, because it only tests the
// second letter:   if(mps.field1()[1] == 'I')   (spxlpbase_real.hpp MPSreadBounds(), ~line 1951; same code in
// spxlpbase_rational.hpp).  That test is meant for "LI" / "UI".  Consequences for a plain LP file:
//   (a) the column is reported as integer through the intVars argument of readFile()
//   (b) the first time this happens for a column its upper bound is reset to +infinity, so
//            UP BND x 5
//            MI BND x
//       yields a FREE column instead of -inf <= x <= 5: min -x is reported unbounded instead of optimal with value -5.
// exit code: 1 if intVars is non-empty or the solve is not OPTIMAL/-5
#include "soplex.h"
#include <cstdio>
#include <cmath>
using namespace soplex;
int main()
{
   const char* fn = "/tmp/hunt/C13/inputs/repro5_mi.mps";
   FILE* f = fopen(fn, "w");
   fputs("NAME t\nROWS\n N obj\n G r1\nCOLUMNS\n x obj -1 r1 1\n y obj 1 r1 1\nRHS\n RHS r1 -50\nBOUNDS\n UP BND x 5\n MI BND x\n UP BND y 5\nENDATA\n", f);
   fclose(f);
   int bad = 0;

   for(int mode = 0; mode < 2; mode++)
   {
      SoPlex s;
      s.setIntParam(SoPlex::VERBOSITY, 0);

      if(mode)
      {
         s.setIntParam(SoPlex::READMODE, SoPlex::READMODE_RATIONAL);
         s.setIntParam(SoPlex::SYNCMODE, SoPlex::SYNCMODE_AUTO);
      }

      NameSet rn, cn;
      DIdxSet iv;
      bool ok = s.readFile(fn, &rn, &cn, &iv);
      SPxSolver::Status st = s.optimize();
      printf("%s: read=%d  x in [%g, %g] (expected [-1e+100, 5])  integer vars reported: %d (expected 0)  status %d obj %g (expected %d, -5)\n",
             mode ? "rational" : "real", ok, s.lowerReal(0), s.upperReal(0), iv.size(), (int)st, s.objValueReal(), (int)SPxSolver::OPTIMAL);

      if(!ok || iv.size() != 0 || s.upperReal(0) != 5.0 || st != SPxSolver::OPTIMAL || std::fabs(s.objValueReal() + 5) > 1e-9)
         bad = 1;
   }

   return bad;
}
