// Finding 1: getBasisInverseRowRational() (SLUFactorRational::solveLeft with sparse right-hand side) is not exact:
// for the 5x5 basis below row 1 of the "inverse" is wrong, and its index set contains index 0 twice.
// exit code 1 when the defect shows.
#include "soplex.h"
#include <iostream>
using namespace soplex;

int main(int argc, char** argv)
{
   bool bySolve = argc > 1; // any argument: reach the basis by an exact solve instead of setBasis()
   const int n = 5;
   const int a[5][5] = {{-1, 2, 2, -1, 2}, {2, 2, 1, -1, 2}, {-1, 0, 0, -2, 2}, {1, 0, 2, -1, 2}, {1, -2, 1, 1, -1}};
   SoPlex s;
   s.setIntParam(SoPlex::VERBOSITY, 0);
   s.setIntParam(SoPlex::SYNCMODE, SoPlex::SYNCMODE_AUTO);
   Rational inf = Rational(s.realParam(SoPlex::INFTY));
   DSVectorRational e(1);

   for(int i = 0; i < n; i++)
   {
      // equality rows A x = A 1, so that x = 1 is the only feasible point and all columns are basic at the optimum
      int rs = 0;

      for(int j = 0; j < n; j++)
         rs += a[i][j];

      s.addRowRational(LPRowRational(Rational(rs), e, Rational(rs)));
   }

   for(int j = 0; j < n; j++)
   {
      DSVectorRational c(n + 1);

      for(int i = 0; i < n; i++)
         if(a[i][j] != 0)
            c.add(i, Rational(a[i][j]));

      s.addColRational(LPColRational(Rational(1), c, inf, Rational(0)));   // x_j >= 0
   }

   // basis: all five structural columns (B = A, det(A) != 0)
   SPxSolver::VarStatus rows[n], cols[n];

   for(int i = 0; i < n; i++)
   {
      rows[i] = SPxSolver::FIXED;
      cols[i] = SPxSolver::BASIC;
   }

   if(bySolve)
   {
      s.setIntParam(SoPlex::SOLVEMODE, SoPlex::SOLVEMODE_RATIONAL);
      s.setIntParam(SoPlex::CHECKMODE, SoPlex::CHECKMODE_RATIONAL);
      s.setRealParam(SoPlex::FEASTOL, 0.0);
      s.setRealParam(SoPlex::OPTTOL, 0.0);
      s.optimize();
      std::cout << "exact solve: status " << s.status() << ", objective " << s.objValueRational() << std::endl;
   }
   else
      s.setBasis(rows, cols);

   DataArray<int> bind;

   if(!s.getBasisIndRational(bind))
   {
      std::cout << "factorization failed (not the defect looked for)\n";
      return 2;
   }

   int bad = 0;

   for(int r = 0; r < n; r++)
   {
      SSVectorRational v(n);

      if(!s.getBasisInverseRowRational(r, v))
         return 2;

      // v^T B must be e_r^T, B assembled from the rational LP in the order given by bind
      for(int k = 0; k < n; k++)
      {
         Rational p = 0;

         if(bind[k] < 0)
            return 2; // a slack in the basis: not the case constructed here

         const SVectorRational& col = s.colVectorRational(bind[k]);

         for(int t = 0; t < col.size(); t++)
            p += v[col.index(t)] * col.value(t);

         if(p != (k == r ? 1 : 0))
         {
            std::cout << "row " << r << " of the rational basis inverse: (row * B)[" << k << "] = " << p << ", expected "
                      << (k == r ? 1 : 0) << std::endl;
            bad = 1;
         }
      }

      if(v.isSetup())
      {
         std::cout << "row " << r << " index set:";

         for(int k = 0; k < v.size(); k++)
            std::cout << " " << v.index(k);

         std::cout << "  values:";

         for(int i = 0; i < n; i++)
            std::cout << " " << v[i];

         std::cout << std::endl;

         for(int k = 0; k < v.size(); k++)
            for(int l = 0; l < k; l++)
               if(v.index(k) == v.index(l))
                  bad = 1;
      }
   }

   std::cout << (bad ? "DEFECT: inverse row not exact / index set corrupt" : "ok") << std::endl;
   return bad;
}
