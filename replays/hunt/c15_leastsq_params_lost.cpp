// int:leastsq_maxrounds (and real:leastsq_acrcy) are only forwarded to the scaler object that is selected at the moment
// of the call.  Set while another scaler is selected, the value is stored and returned by the getter, but the least
// squares scaler that is selected afterwards still runs with its built-in default (50 rounds / 1000).
#include "repro_common.h"
static std::string run(bool paramFirst)
{
   SoPlex s;
   std::ostringstream os;
   s.setIntParam(SoPlex::VERBOSITY, 5);
   s.spxout.setStream(SPxOut::INFO1, os); s.spxout.setStream(SPxOut::INFO2, os); s.spxout.setStream(SPxOut::INFO3, os);
   s.setIntParam(SoPlex::SIMPLIFIER, SoPlex::SIMPLIFIER_OFF);
   if(paramFirst)
   {
      s.setIntParam(SoPlex::LEASTSQ_MAXROUNDS, 0);                 // default scaler (bi-equi) selected: value is lost
      s.setIntParam(SoPlex::SCALER, SoPlex::SCALER_LEASTSQ);
   }
   else
   {
      s.setIntParam(SoPlex::SCALER, SoPlex::SCALER_LEASTSQ);
      s.setIntParam(SoPlex::LEASTSQ_MAXROUNDS, 0);
   }
   if(s.intParam(SoPlex::LEASTSQ_MAXROUNDS) != 0 || s.intParam(SoPlex::SCALER) != SoPlex::SCALER_LEASTSQ) return "getter wrong";
   buildBadlyScaledLP(s);
   s.optimize();
   std::istringstream is(os.str());
   std::string line, out;
   while(std::getline(is, line)) if(line.find("scaling") != std::string::npos) out += "   " + line + "\n";
   return out;
}
int main()
{
   std::string a = run(true), b = run(false);
   std::cout << "leastsq_maxrounds=0 set BEFORE scaler=5 (both getters return the set values):\n" << a;
   std::cout << "leastsq_maxrounds=0 set AFTER scaler=5:\n" << b;
   if(a != b) { std::cout << "DEFECT: same settings, different scaling -> the parameter set first is not used\n"; return 1; }
   return 0;
}
