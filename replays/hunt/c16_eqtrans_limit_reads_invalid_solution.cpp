// exact solve with bool:eqtrans stopped by the iteration limit: _untransformEquality() formats sol._redCost[col] / sol._dual[row] for a debug message
// (the arguments are evaluated although nothing is printed) whenever a basis exists - also when the solution was invalidated
#include "soplex.h"
#include <cstdio>
using namespace soplex;
int main()
{
   for(int lim = 0; lim <= 6; lim++)
   {
      SoPlex sp;
      sp.setIntParam(SoPlex::VERBOSITY, 0);
      sp.setIntParam(SoPlex::SOLVEMODE, SoPlex::SOLVEMODE_RATIONAL);
      sp.setIntParam(SoPlex::SYNCMODE, SoPlex::SYNCMODE_AUTO);
      sp.setIntParam(SoPlex::READMODE, SoPlex::READMODE_RATIONAL);
      sp.setIntParam(SoPlex::CHECKMODE, SoPlex::CHECKMODE_RATIONAL);
      sp.setRealParam(SoPlex::FEASTOL, 0.0); sp.setRealParam(SoPlex::OPTTOL, 0.0);
      sp.setBoolParam(SoPlex::EQTRANS, true);
      sp.setIntParam(SoPlex::SIMPLIFIER, SoPlex::SIMPLIFIER_OFF);
      sp.setIntParam(SoPlex::ITERLIMIT, lim);
      DSVector e(0);
      for(int j = 0; j < 4; j++) sp.addColReal(LPCol(-1.0 - j, e, 10.0, 0.0));
      for(int i = 0; i < 4; i++)
      {
         DSVector r(4); for(int j = 0; j < 4; j++) r.add(j, 1.0 + ((i * 3 + j * 5) % 7));
         sp.addRowReal(LPRow(i % 2 ? -infinity : 1.0, r, 12.0 + i));
      }
      SPxSolver::Status st = sp.optimize();
      printf("iterlimit %d: status %d hasBasis %d\n", lim, (int)st, (int)sp.hasBasis());
      sp.setIntParam(SoPlex::ITERLIMIT, -1);
      st = sp.optimize();
      printf("   continued: status %d obj %g\n", (int)st, sp.objValueReal());
   }
   return 0;
}
