// Finding 3: clearLPReal() / clearLPRational() reset the LP's objective sense to MAXIMIZE and its offset to 0, but
// the parameters OBJSENSE / OBJ_OFFSET keep their values: LP and parameters disagree (in MANUAL mode also the two LPs).
// (b) switching ONLYREAL -> MANUAL creates a rational LP without the OBJ_OFFSET.
#include "soplex.h"
#include <iostream>
using namespace soplex;
int main()
{
   int bad = 0;
   {
      SoPlex s;
      s.setIntParam(SoPlex::VERBOSITY, 0);
      s.setIntParam(SoPlex::SYNCMODE, SoPlex::SYNCMODE_AUTO);
      s.setIntParam(SoPlex::OBJSENSE, SoPlex::OBJSENSE_MINIMIZE);
      s.setRealParam(SoPlex::OBJ_OFFSET, 10.0);
      s.addColReal(LPColReal(1.0, DSVectorReal(), 1.0, 0.0));
      s.clearLPReal();
      s.addColReal(LPColReal(1.0, DSVectorReal(), 1.0, 0.0));     // min x + 10, 0 <= x <= 1  -> 10
      DSVectorReal r(1);
      r.add(0, 1.0);
      s.addRowReal(LPRowReal(0.0, r, 1.0));
      std::cout << "(a) OBJSENSE parameter = " << s.intParam(SoPlex::OBJSENSE) << " (minimize), before the solve: maxObjReal(0) = "
                << s.maxObjReal(0) << ", maxObjRational(0) = " << s.maxObjRational(0) << " (expected -1 for min x)\n";
      if(s.maxObjReal(0) != -1.0 || s.maxObjRational(0) != Rational(-1)) bad = 1;
      s.setIntParam(SoPlex::SOLVEMODE, SoPlex::SOLVEMODE_RATIONAL);
      s.optimize();
      std::cout << "(a) OBJ_OFFSET = " << s.realParam(SoPlex::OBJ_OFFSET) << ", exact objective value = " << s.objValueRational()
                << " (expected 10), primal x = ";
      VectorRational x(1);
      s.getPrimalRational(x);
      std::cout << x[0] << " (expected 0)\n";
      if(s.objValueRational() != Rational(10) || x[0] != 0) bad = 1;
   }
   {
      SoPlex s;
      s.setIntParam(SoPlex::VERBOSITY, 0);
      s.setRealParam(SoPlex::OBJ_OFFSET, 10.0);
      s.setIntParam(SoPlex::SYNCMODE, SoPlex::SYNCMODE_MANUAL);
      s.addColRational(LPColRational(Rational(1), DSVectorRational(), Rational(1), Rational(0)));
      DSVectorRational r(1);
      r.add(0, Rational(1));
      s.addRowRational(LPRowRational(Rational(0), r, Rational(1)));
      s.syncLPReal();
      s.setIntParam(SoPlex::SOLVEMODE, SoPlex::SOLVEMODE_RATIONAL);
      s.optimize();
      std::cout << "(b) OBJ_OFFSET = " << s.realParam(SoPlex::OBJ_OFFSET) << ", max x, x in [0,1]: objective value = "
                << s.objValueRational() << " (expected 11)\n";
      if(s.objValueRational() != Rational(11)) bad = 1;
   }
   return bad;
}
