// Finding 8: a rational number with denominator zero ("1/0", "3/0") in an LP or MPS file read in rational mode.
// ratFromString() (rational.h:189-194) hands the token to the boost/GMP string constructor, which stores numerator 1 and
// denominator 0 without complaint; the LP reader's own pre-scan (spxlpbase_rational.hpp:224-242) only checks for an EMPTY
// divisor.  The invalid mpq then lives in the rational LP.  With SYNCMODE_AUTO the copy to the real LP converts it to
// double and boost throws std::domain_error("No bits were set in the operand.") out of SoPlex::readFile()
// (_readFileRational -> _syncLPReal -> SPxLPBase<double>(SPxLPBase<Rational>) -> VectorBase<double>::operator=).
//    soplex --readmode=1 inputs/div0_rhs.lp      -> terminate called after throwing 'boost::wrapexcept<std::domain_error>'
//    soplex --readmode=1 inputs/div0.mps         -> same
//    soplex --readmode=1 inputs/div0_fx.mps      -> SIGSEGV in __gmpn_mul_basecase (" FX BND x 1/0"; the comparison / arithmetic on
//                                                   the zero-denominator bound runs GMP into garbage operand sizes; ASan build:
//                                                   stack-overflow, fuzzer artifact inputs/stack_overflow.mps)
// Under LeakSanitizer the arithmetic on the invalid value (val *= pre_sign, spxlpbase_rational.hpp:674) also leaks GMP limbs
// (fuzzer artifact inputs/leak.in), and arithmetic on a zero denominator is undefined for GMP (division by zero).
// exit code: 1 if readFile throws or returns true with the zero denominator stored; 139 (SIGSEGV) on the third file
#include "soplex.h"
#include <cstdio>
using namespace soplex;
int main()
{
   const char* dir = "/tmp/hunt/C13/inputs/";
   std::string lp = std::string(dir) + "div0_rhs.lp", mps = std::string(dir) + "div0.mps";
   FILE* f = fopen(lp.c_str(), "w");
   fputs("Minimize\n obj: x\nSubject To\n c1: x + y >= 1/0\nEnd\n", f);
   fclose(f);
   f = fopen(mps.c_str(), "w");
   fputs("NAME t\nROWS\n N obj\n G r1\nCOLUMNS\n x obj 1 r1 1/0\n y obj 1 r1 1\nRHS\n RHS r1 3/0\nENDATA\n", f);
   fclose(f);
   std::string fx = std::string(dir) + "div0_fx.mps";
   f = fopen(fx.c_str(), "w");
   fputs("NAME t\nROWS\n N obj\n G r1\nCOLUMNS\n x obj 1 r1 1\n y obj 1 r1 1\nRHS\n RHS r1 3\nBOUNDS\n FX BND x 1/0\nENDATA\n", f);
   fclose(f);
   int bad = 0;
   const char* files[3] = { lp.c_str(), mps.c_str(), fx.c_str() };

   for(int k = 0; k < 3; k++)
   {
      SoPlex s;
      s.setIntParam(SoPlex::VERBOSITY, 0);
      s.setIntParam(SoPlex::READMODE, SoPlex::READMODE_RATIONAL);
      s.setIntParam(SoPlex::SYNCMODE, SoPlex::SYNCMODE_AUTO);

      try
      {
         fflush(stdout);
         bool ok = s.readFile(files[k]);     // third file: segmentation fault inside GMP
         printf("%s: readFile=%d rows=%d\n", files[k], ok, s.numRowsRational());

         if(ok && s.numRowsRational() > 0 && denominator(s.lhsRational(0)) == 0)
         {
            printf("   lhs of row 0 has denominator 0\n");
            bad = 1;
         }
      }
      catch(const std::exception& e)
      {
         printf("%s: readFile THREW %s\n", files[k], e.what());
         bad = 1;
      }
   }

   return bad;
}
