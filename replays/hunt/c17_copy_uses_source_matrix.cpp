// Finding 1: a copy keeps pointers into the SOURCE's constraint matrix (SPxBasisBase::operator= copies the
// array "matrix" of column/row vector pointers together with matrixIsSetup == true).
// Modifying the source therefore changes what the copy solves; destroying the source makes the copy read freed memory.
#include "soplex.h"
#include <cstdio>
#include <cmath>
using namespace soplex;

static void build(SoPlex& s)
{
   s.setIntParam(SoPlex::VERBOSITY, 0);
   s.setIntParam(SoPlex::SIMPLIFIER, SoPlex::SIMPLIFIER_OFF);
   s.setIntParam(SoPlex::SCALER, SoPlex::SCALER_OFF);
   s.setIntParam(SoPlex::OBJSENSE, SoPlex::OBJSENSE_MAXIMIZE);
   // max x + y  s.t.  x + 2y <= 4,  3x + y <= 6,  x, y >= 0      optimum 2.8 at (1.6, 1.2)
   s.addColReal(LPCol(1.0, DSVector(), infinity, 0.0));
   s.addColReal(LPCol(1.0, DSVector(), infinity, 0.0));
   DSVector r0; r0.add(0, 1.0); r0.add(1, 2.0); s.addRowReal(LPRow(-infinity, r0, 4.0));
   DSVector r1; r1.add(0, 3.0); r1.add(1, 1.0); s.addRowReal(LPRow(-infinity, r1, 6.0));
}

int main(int argc, char** argv)
{
   bool destroySource = argc > 1;  // any argument: destroy the source instead of modifying it (-> use after free, usually SIGSEGV)
   SoPlex* A = new SoPlex();
   build(*A);
   A->optimize();
   printf("source: status %d obj %g\n", (int)A->status(), A->objValueReal());

   SoPlex C(*A);                    // copy taken after the solve, LP held inside the solver, basis loaded

   if(destroySource)
      delete A;
   else
   {
      A->changeElementReal(0, 0, 5.0);   // only the SOURCE is modified
      A->changeElementReal(1, 1, 7.0);
   }

   C.changeRhsReal(0, 5.0);         // copy: x + 2y <= 5  -> optimum 3.2 at (1.4, 1.8)
   C.optimize();
   VectorReal x(2);
   C.getPrimal(x);
   printf("copy:   status %d obj %.10g x=(%g, %g)   expected: status 1 obj 3.2 x=(1.4, 1.8)\n", (int)C.status(), C.objValueReal(), x[0], x[1]);

   // oracle: object built from scratch with the copy's LP
   SoPlex F; build(F); F.changeRhsReal(0, 5.0); F.optimize();
   printf("fresh:  status %d obj %.10g\n", (int)F.status(), F.objValueReal());
   bool bad = C.status() != F.status() || fabs(C.objValueReal() - F.objValueReal()) > 1e-6;
   // the copy's result also violates its own LP: check 3x + y <= 6 and x + 2y <= 5 with the copy's coefficients
   double a0 = C.coefReal(0, 0) * x[0] + C.coefReal(0, 1) * x[1], a1 = C.coefReal(1, 0) * x[0] + C.coefReal(1, 1) * x[1];
   printf("copy's rows evaluated with the copy's own coefficients: %g (<= 5), %g (<= 6)\n", a0, a1);
   printf(bad ? "DEFECT: the copy solved the source's modified matrix\n" : "ok\n");
   return bad ? 1 : 0;
}
