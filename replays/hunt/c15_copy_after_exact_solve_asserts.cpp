// int:solvemode=2 with the default syncmode (0, only real): optimize() builds the rational LP and keeps it; copying the
// solver afterwards trips assert(intParam(SYNCMODE) != SYNCMODE_ONLYREAL) in SoPlexBase::operator= (soplex.hpp:1565)
#include "repro_common.h"
int main()
{
   SoPlex a;
   a.setIntParam(SoPlex::VERBOSITY, 0);
   buildLP(a);
   a.setIntParam(SoPlex::SOLVEMODE, SoPlex::SOLVEMODE_RATIONAL);
   a.optimize();
   std::cout << "status " << a.status() << " syncmode " << a.intParam(SoPlex::SYNCMODE) << "; copying ..." << std::endl;
   SoPlex b(a);
   std::cout << "copied, syncmode of copy " << b.intParam(SoPlex::SYNCMODE) << std::endl;
   return 0;
}
