// repro_3: switching PERSISTENTSCALING off on an object whose LP is already persistently scaled, then solving again
// -> assertion failure in SoPlexBase::_disableSimplifierAndScaler (soplex.hpp:8384) instead of a solve.
#include "soplex.h"
#include <cstdio>
using namespace soplex;
int main()
{
   SoPlex s;
   s.setIntParam(SoPlex::VERBOSITY, 0);
   s.setIntParam(SoPlex::OBJSENSE, SoPlex::OBJSENSE_MINIMIZE);
   s.setIntParam(SoPlex::SCALER, SoPlex::SCALER_BIEQUI);
   s.setBoolParam(SoPlex::PERSISTENTSCALING, true);
   s.setIntParam(SoPlex::SIMPLIFIER, SoPlex::SIMPLIFIER_OFF);
   const double inf = s.realParam(SoPlex::INFTY);
   DSVector e;
   s.addColReal(LPCol(1.0, e, inf, 0.0));
   s.addColReal(LPCol(1.0, e, inf, 0.0));
   DSVector r; r.add(0, 1024.0); r.add(1, 2048.0);
   s.addRowReal(LPRow(4096.0, r, inf));
   s.optimize();
   printf("first solve: status %d obj %g\n", (int)s.status(), s.objValueReal());
   s.setBoolParam(SoPlex::PERSISTENTSCALING, false);
   s.changeObjReal(0, 4.0);
   s.optimize();                 // aborts with: Assertion `boolParam(SoPlexBase<R>::PERSISTENTSCALING)' failed.
   printf("second solve: status %d obj %g (expected 2)\n", (int)s.status(), s.objValueReal());
   return (s.status() == SPxSolver::OPTIMAL && s.objValueReal() == 2.0) ? 0 : 1;
}
