// Array<T>::insert(i, ...) is documented to insert before the i'th element; it inserts before element i-1
// (data.begin() + i - 1). insert(0, ...) forms an iterator before begin() (undefined behaviour, not executed here).
// exit code: 0 = fine, 1 = defect
#include <iostream>
#include "soplex.h"
using namespace soplex;
int main()
{
   Array<double> a(0);

   for(int i = 0; i < 5; i++)
      a.append(double(i));             // 0 1 2 3 4

   double t[2] = {100, 101};
   a.insert(2, 2, t);                  // documented result: 0 1 100 101 2 3 4
   double expect[7] = {0, 1, 100, 101, 2, 3, 4};
   bool bad = a.size() != 7;

   for(int i = 0; i < a.size(); i++)
   {
      std::cout << a[i] << " ";

      if(i < 7 && a[i] != expect[i])
         bad = true;
   }

   std::cout << std::endl << (bad ? "DEFECT: elements inserted at the wrong position" : "ok") << std::endl;
   return bad ? 1 : 0;
}
