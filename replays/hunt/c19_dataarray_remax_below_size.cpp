// DataArray::reMax(): "calling reMax() without arguments reduces the memory consumption to a minimum"; size() is
// documented to stay unchanged and max() to become max(size(), newMax). Actually max() drops below size(), the block
// is realloc'ed to max() elements and every later access to elements max()..size()-1 is out of bounds.
// exit code: 0 = fine, 1 = defect
#include <iostream>
#include "soplex.h"
using namespace soplex;
int main()
{
   DataArray<int> d(5);

   for(int i = 0; i < 5; i++)
      d[i] = i;

   d.reMax();
   std::cout << "after reMax(): size() = " << d.size() << " max() = " << d.max() << std::endl;
   bool bad = d.max() < d.size();
   DataArray<int> e(5);
   e.reMax(2);                         // explicit value below size(): same
   std::cout << "after reMax(2): size() = " << e.size() << " max() = " << e.max() << std::endl;
   bad = bad || e.max() < e.size();
   std::cout << (bad ? "DEFECT: max() < size(), the array now points to a too small block" : "ok") << std::endl;
   return bad ? 1 : 0;
}
