// Finding 6: the LP-format reader returns true with a row name set that does not match the rows.
//   (a) A name "c2:" that starts a constraint which is never completed (no sense / right-hand side before "End" or the
//       end of the file) is entered into rowNames by LPFhasRowName() (spxlpbase_real.hpp line 1013/760, same in
//       spxlpbase_rational.hpp), but the half-built row is silently dropped: rowNames.num() == numRows() + 1.
//   (b) NameSet::add() ignores a name that is already present, and the LP reader never checks: two rows called "c1"
//       (or an explicit "C2" for row 1 followed by an unnamed second row, which gets the generated name "C2") give
//       rowNames.num() == numRows() - 1, and every later row name is attached to the wrong row index.
// The name sets are the documented output of readFile() and the documented input of readBasisFile()/writeFile().
// With (a), a basis file that mentions the phantom row makes SPxBasisBase::readBasis() (spxbasis.hpp line 533-545) use
// r = rNames->number("c2") == nRows() as row index:  vectorbase.h:285 Assertion `n >= 0 && n < dim()' failed
// (an out-of-bounds read/write of lhs/rhs and rowstat in a build without assertions).
//
// exit code: 1 (or abort 134) if a mismatch is seen, 0 otherwise
#include "soplex.h"
#include <cstdio>
using namespace soplex;
static const char* dir = "/tmp/hunt/C13/inputs/";
static std::string put(const char* name, const char* txt)
{
   std::string fn = std::string(dir) + name;
   FILE* f = fopen(fn.c_str(), "w");
   fputs(txt, f);
   fclose(f);
   return fn;
}
int main()
{
   int bad = 0;
   std::string a = put("repro6_dangling.lp", "min\n obj: x\nst\n c1: x >= 1\n c2: y\nEnd\n");
   std::string b = put("repro6_dupname.lp", "min\n obj: x\nst\n c1: x >= 1\n c1: y >= 2\n c3: x + y <= 9\nEnd\n");
   std::string bas = put("repro6.bas", "NAME b\n XU x         c2\nENDATA\n");

   for(int mode = 0; mode < 2; mode++)
   {
      const char* files[2] = { a.c_str(), b.c_str() };

      for(int k = 0; k < 2; k++)
      {
         SoPlex s;
         s.setIntParam(SoPlex::VERBOSITY, 0);

         if(mode)
         {
            s.setIntParam(SoPlex::READMODE, SoPlex::READMODE_RATIONAL);
            s.setIntParam(SoPlex::SYNCMODE, SoPlex::SYNCMODE_AUTO);
         }

         NameSet rn, cn;
         bool ok = s.readFile(files[k], &rn, &cn);
         printf("%-8s %-22s readFile=%d rows=%d rowNames=%d cols=%d colNames=%d", mode ? "rational" : "real", files[k] + strlen(dir), ok,
                s.numRows(), rn.num(), s.numCols(), cn.num());

         if(k == 1 && ok && rn.num() > 1)
            printf("   name of row index 1 according to rowNames: %s (file: c1, c3 is row 2)", rn[1]);

         printf("\n");

         if(ok && (rn.num() != s.numRows() || cn.num() != s.numCols()))
            bad = 1;
      }
   }

   if(bad)
   {
      fflush(stdout);
      SoPlex s;
      s.setIntParam(SoPlex::VERBOSITY, 0);
      NameSet rn, cn;
      s.readFile(a.c_str(), &rn, &cn);
      bool ok = s.readBasisFile(bas.c_str(), &rn, &cn);   // <- row index == numRows(): assertion / out of bounds
      printf("readBasisFile with the reader's own name sets returned %d\n", ok);
   }

   return bad;
}
