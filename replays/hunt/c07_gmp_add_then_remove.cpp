// Finding 1: rows/columns added through the GMP array entry points leave the scaleExp array of the row/column set
// short; the next removal indexes it out of range (assertion dataarray.h:98; heap out-of-bounds without assertions).
#include "soplex.h"
#include <iostream>
using namespace soplex;
int main()
{
   SoPlex s;
   s.setIntParam(SoPlex::VERBOSITY, 0);
   s.setIntParam(SoPlex::SYNCMODE, SoPlex::SYNCMODE_AUTO);
   mpq_t lhs, rhs, val[1];
   mpq_init(lhs); mpq_init(rhs); mpq_init(val[0]);
   mpq_set_si(lhs, 0, 1); mpq_set_si(rhs, 1, 1); mpq_set_si(val[0], 1, 1);
   int idx[1] = {0};
   s.addColReal(LPColReal(1.0, DSVectorReal(), 1.0, 0.0));
   s.addRowRational(&lhs, val, idx, 1, &rhs);   // row 0
   s.addRowRational(&lhs, val, idx, 1, &rhs);   // row 1
   std::cout << "rows: " << s.numRowsRational() << " / " << s.numRows() << std::endl;
   s.removeRowRational(0);                      // aborts here
   std::cout << "rows after removal: " << s.numRowsRational() << " / " << s.numRows() << std::endl;
   return (s.numRowsRational() == 1 && s.numRows() == 1) ? 0 : 1;
}
