// C08 finding 4: SoPlex::optimize() with default parameters returns OPTIMAL for a 6x5 LP that presolve solves outright
// (VANISHED), but the reported dual solution / basis is not optimal: x3 = 0 lies strictly inside its bounds [-2, inf)
// and gets reduced cost -3.2857 and basis status ON_LOWER (postsolve leaves it FIXED, which the verification does not
// question); complementary slackness fails, the dual objective differs from the primal one.
#include <cstdio>
#include <cmath>
#include <vector>
#include "soplex.h"
using namespace soplex;
int main()
{
   const int n = 6, m = 5;
   const double I = infinity;
   double c[n]  = {0, 0, 0, -2, 0, -3};
   double lo[n] = {0, -I, -I, -2, 3, -I};
   double up[n] = {I, I, I, I, 3, 0};
   double lhs[m] = {6, -I, -I, -3, -3};
   double rhs[m] = {6, 0, I, -3, -3};
   double A[m][n] = {{0, -3, 0, 0, 0, 0}, {0, 0, 0, -1, 0, 0}, {0, 0, 0, 0, 0, 0}, {0, 0, 2, -1, 1, 1}, {0, -3, 3, 0, 0, -2}};
   SoPlex sp;
   sp.setIntParam(SoPlex::VERBOSITY, 0);
   sp.setIntParam(SoPlex::OBJSENSE, SoPlex::OBJSENSE_MAXIMIZE);
   DSVector e(0);
   for(int j = 0; j < n; j++) sp.addColReal(LPCol(c[j], e, up[j], lo[j]));
   for(int i = 0; i < m; i++)
   {
      DSVector r(n);
      for(int j = 0; j < n; j++) if(A[i][j] != 0) r.add(j, A[i][j]);
      sp.addRowReal(LPRow(lhs[i], r, rhs[i]));
   }
   SPxSolver::Status st = sp.optimize();
   printf("status %d (1 = OPTIMAL), objective %g, iterations %d\n", (int)st, sp.objValueReal(), sp.numIterations());
   if(st != SPxSolver::OPTIMAL) return 2;
   VectorBase<double> x(n), r(n), s(m), y(m);
   sp.getPrimal(x); sp.getRedCost(r); sp.getSlacksReal(s); sp.getDual(y);
   std::vector<SPxSolver::VarStatus> rs(m), cs(n);
   sp.getBasis(rs.data(), cs.data());
   int bad = 0;
   double dualobj = 0;
   for(int j = 0; j < n; j++)
   {
      printf("  x%d = %-8g redcost %-10g status %d   bounds [%g, %g]\n", j, x[j], r[j], (int)cs[j], lo[j], up[j]);
      // maximisation: r > 0 needs x at upper, r < 0 needs x at lower
      if(r[j] > 1e-6 && std::fabs(x[j] - up[j]) > 1e-6) { printf("    -> positive reduced cost, x not at upper bound\n"); bad++; }
      if(r[j] < -1e-6 && std::fabs(x[j] - lo[j]) > 1e-6) { printf("    -> negative reduced cost, x not at lower bound\n"); bad++; }
      if(cs[j] == SPxSolver::ON_LOWER && std::fabs(x[j] - lo[j]) > 1e-6) { printf("    -> status ON_LOWER, x not at lower bound\n"); bad++; }
      if(r[j] > 1e-9) dualobj += r[j] * up[j];
      if(r[j] < -1e-9) dualobj += r[j] * lo[j];
   }
   for(int i = 0; i < m; i++)
   {
      if(y[i] > 1e-9) dualobj += y[i] * rhs[i];
      if(y[i] < -1e-9) dualobj += y[i] * lhs[i];
   }
   printf("primal objective %g, dual objective of the returned (y, r): %g\n", sp.objValueReal(), dualobj);
   if(std::fabs(dualobj - sp.objValueReal()) > 1e-6) bad++;
   printf("%d violated conditions\n", bad);
   return bad ? 1 : 0;
}
