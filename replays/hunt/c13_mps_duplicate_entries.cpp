// Finding 4: the MPS reader (real and rational) accepts a COLUMNS section in which one column names the same row
// more than once.  Both entries are stored: the column vector (and, after the transposition in readMPS, the row
// vector) holds the index twice, numNonzeros() exceeds rows*cols, and the LP is not a consistent sparse matrix.
// The LP-format reader merges such duplicates (WLPFRD10 "Duplicate index"); the MPS reader neither merges nor rejects
// (spxlpbase_real.hpp MPSreadCols(): vec.add(idx, val) without vec.pos(idx) check; same in spxlpbase_rational.hpp).
// A solve of the accepted LP then dies in the LU code:
//   clufactor.hpp:5635 CLUFactor<R>::vSolveRight4update: Assertion failed        (soplex inputs/duprow_entry.mps)
//
// exit code: 1 if the reader returned true with a duplicated index in a column (then the solve is tried as well and
// normally aborts first -> 134); 0 if the file was rejected or the entries were merged
#include "soplex.h"
#include <cstdio>
using namespace soplex;
int main()
{
   const char* fn = "/tmp/hunt/C13/inputs/duprow_entry.mps";
   FILE* f = fopen(fn, "w");
   fputs("NAME t\nROWS\n N obj\n G r1\nCOLUMNS\n x obj 1 r1 1\n x r1 2 r1 3\nRHS\n RHS r1 1\nENDATA\n", f);
   fclose(f);
   int bad = 0;

   for(int mode = 0; mode < 2; mode++)
   {
      SoPlex s;
      s.setIntParam(SoPlex::VERBOSITY, 0);

      if(mode)
      {
         s.setIntParam(SoPlex::READMODE, SoPlex::READMODE_RATIONAL);
         s.setIntParam(SoPlex::SYNCMODE, SoPlex::SYNCMODE_AUTO);
      }

      bool ok = s.readFile(fn);
      printf("%s mode: readFile=%d rows=%d cols=%d nonzeros=%d\n", mode ? "rational" : "real", ok, s.numRows(), s.numCols(),
             s.numNonzeros());

      if(!ok)
         continue;

      DSVector col;
      s.getColVectorReal(0, col);

      for(int k = 0; k < col.size(); k++)
      {
         printf("   col 0 entry %d: row %d value %g\n", k, col.index(k), col.value(k));

         for(int l = 0; l < k; l++)
            if(col.index(l) == col.index(k))
               bad = 1;
      }
   }

   if(bad)
   {
      fflush(stdout);
      SoPlex s;
      s.setIntParam(SoPlex::VERBOSITY, 0);
      s.readFile(fn);
      SPxSolver::Status st = s.optimize();   // <- assertion in CLUFactor
      printf("solve status %d objective %g (x >= 1/6 would give 1/6 if the entries were summed)\n", (int)st, s.objValueReal());
   }

   return bad;
}
