// ClassSet<T>::reMax(newmax) with size() <= newmax < max() copies max() (old capacity) items into a block of
// newmax items: heap buffer overflow. Reached through SVSet::reMax(), LPRowSet::reMax(), LPColSet::reMax().
// The overflow is made visible without a sanitizer by a ClassSet whose element type counts how far the copy loop runs.
// exit code: 0 = fine, 1 = defect
#include <iostream>
#include <csignal>
#include <unistd.h>
#include "soplex.h"
using namespace soplex;

static long g_maxWrittenOffset = -1;     // largest byte offset (relative to the first element assigned) written by reMax
static const char* g_first = nullptr;

struct Probe
{
   int v;
   Probe() : v(0) {}
   Probe& operator=(Probe&& o)
   {
      // called by ClassSet::reMax for every item it moves into the new block; 'this' lies in the new block
      const char* me = reinterpret_cast<const char*>(this);

      if(g_first == nullptr)
         g_first = me;

      if(me - g_first > g_maxWrittenOffset)
         g_maxWrittenOffset = me - g_first;

      // do not really write: the target may lie outside the allocation
      (void)o;
      return *this;
   }
   Probe& operator=(const Probe& o)
   {
      v = o.v;
      return *this;
   }
};

static void onCrash(int)
{
   std::cout << "DEFECT: crash (heap corruption) after SVSet::reMax() to a smaller capacity" << std::endl;
   _exit(1);
}

int main()
{
   // 1. instrumented: how many items does reMax(5) move into the new block of 5 items?
   {
      ClassSet<Probe> s(100);
      Probe p;
      p.v = 7;
      s.add(p);
      s.add(p);
      g_first = nullptr;
      s.reMax(5);
      // element stride inside ClassSet is sizeof(Probe)+sizeof(int) = 8 bytes
      long items = g_maxWrittenOffset / 8 + 1;
      std::cout << "ClassSet::reMax(5) on a set with max() == 100 assigned " << items << " items into the new block of "
                << s.max() << " items" << std::endl;

      if(items > s.max())
      {
         std::cout << "DEFECT: ClassSet::reMax writes behind the new block" << std::endl;
         // fall through to show the effect on SVSet as well (may crash)
      }
      else
         return 0;
   }

   // 2. the real thing: SVSet (ClassSet<DLPSV> inside). Under ASan this reports heap-buffer-overflow in
   //    ClassSet::reMax (classset.h:507); without it the heap is silently corrupted (glibc usually aborts later).
   signal(SIGSEGV, onCrash);
   signal(SIGABRT, onCrash);
   SVSet sv(100, 100);
   DSVector v;
   v.add(0, 1.0);
   v.add(3, 2.0);
   sv.add(v);
   sv.add(v);
   sv.reMax(5);

   for(int i = 0; i < 50; i++)
   {
      char* x = new char[16 + 8 * i];
      x[0] = 1;
      delete[] x;
   }

   return 1;
}
