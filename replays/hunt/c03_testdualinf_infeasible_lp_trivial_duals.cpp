// bool:testdualinf on infeasible LPs whose dual is feasible: status INFEASIBLE and, where dual multipliers are stored, they are dual feasible
#include "soplex.h"
#include <cstdio>
using namespace soplex;
int main()
{
   int bad = 0;
   for(int sense = 0; sense <= 1; sense++) for(int tol = 0; tol <= 1; tol++)
   {
      SoPlex sp;
      sp.setIntParam(SoPlex::VERBOSITY, 0);
      sp.setIntParam(SoPlex::SOLVEMODE, SoPlex::SOLVEMODE_RATIONAL);
      sp.setIntParam(SoPlex::SYNCMODE, SoPlex::SYNCMODE_AUTO);
      sp.setIntParam(SoPlex::READMODE, SoPlex::READMODE_RATIONAL);
      sp.setIntParam(SoPlex::CHECKMODE, SoPlex::CHECKMODE_RATIONAL);
      if(tol == 0) { sp.setRealParam(SoPlex::FEASTOL, 0.0); sp.setRealParam(SoPlex::OPTTOL, 0.0); }
      sp.setBoolParam(SoPlex::TESTDUALINF, true);
      sp.setIntParam(SoPlex::OBJSENSE, sense ? SoPlex::OBJSENSE_MAXIMIZE : SoPlex::OBJSENSE_MINIMIZE);
      double sg = sense ? -1.0 : 1.0;
      DSVector e(0);
      sp.addColReal(LPCol(sg * 3.0, e, infinity, 0.0));
      sp.addColReal(LPCol(sg * 1.0, e, infinity, 0.0));
      DSVector r0(2); r0.add(0, 1.0); r0.add(1, 1.0);
      sp.addRowReal(LPRow(-infinity, r0, -1.0));         // x + y <= -1 with x, y >= 0: infeasible
      DSVector r1(1); r1.add(0, 1.0);
      sp.addRowReal(LPRow(0.0, r1, 0.0));                // x = 0
      SPxSolver::Status st = sp.optimize();
      printf("sense %s tolerances %s: status %d (INFEASIBLE = 3) hasDualFarkas %d isDualFeasible %d\n", sense ? "max" : "min", tol ? "default" : "0", (int)st, (int)sp.hasDualFarkas(), (int)sp.isDualFeasible());
      if(st != SPxSolver::INFEASIBLE) bad = 1;
      if(sp.isDualFeasible())
      {
         VectorRational y(2), rc(2);
         sp.getDualRational(y); sp.getRedCostRational(rc);
         // minimization: y0 <= 0 (row <=), reduced costs of columns at lower bound >= 0; maximization: the opposite signs
         printf("   y = (%s, %s) redcost = (%s, %s)\n", y[0].str().c_str(), y[1].str().c_str(), rc[0].str().c_str(), rc[1].str().c_str());
         Rational c0(sg * 3.0), c1(sg * 1.0);
         Rational r0c = c0 - y[0] - y[1], r1c = c1 - y[0];
         if(r0c != rc[0] || r1c != rc[1]) { printf("   DEFECT: reduced costs are not c - A^T y\n"); bad = 1; }
         if(sense == 0 && (y[0] > 0 || rc[0] < 0 || rc[1] < 0)) { printf("   DEFECT: multipliers not dual feasible (min)\n"); bad = 1; }
         if(sense == 1 && (y[0] < 0 || rc[0] > 0 || rc[1] > 0)) { printf("   DEFECT: multipliers not dual feasible (max)\n"); bad = 1; }
      }
   }
   return bad;
}
