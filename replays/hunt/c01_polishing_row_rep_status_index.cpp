// finite optimum not solved: row representation + solution polishing returns UNKNOWN
// LP from checker seed 5517 (true status by exact rational simplex: OPT -133.0); non-default parameters: i1=2,i23=2
// exits non-zero (or aborts inside the library) when the defect shows
#include "repro_common.h"
int main()
{
   DenseLP lp;
   lp.m = 3; lp.n = 8; lp.sense = +1; lp.offset = 0;
   lp.A = {
      {0, 0, -1, 0, -1, -1, -1, 0},
      {0, 0, 0, 1, 1, 1, -1, 1},
      {0, 1, 0, 0, 0, 1, -1, -1},
   };
   lp.lhs = {-16, 2, -INF};
   lp.rhs = {INF, 2, INF};
   lp.lo = {-INF, 0, 2, -INF, 0, -9, -INF, -INF};
   lp.up = {INF, 7, INF, INF, 0, INF, 13, INF};
   lp.c = {0, 0, -1, 0, -1, -1, -10, 0};
   SoPlex sp;
   sp.setIntParam(SoPlex::VERBOSITY, 0);
   sp.setIntParam(SoPlex::REPRESENTATION, 2);
   sp.setIntParam(SoPlex::SOLUTION_POLISHING, 2);
   loadLP(sp, lp);
   SPxSolver::Status st = sp.optimize();
   printf("status %d\n", (int)st);
   if(st != SPxSolver::OPTIMAL) { printf("LP has finite optimum -133.0 but status is not OPTIMAL\n"); return 1; }
   int bad = checkOptimal(sp, lp, -133.0);
   printf("%d violations\n", bad);
   return bad ? 1 : 0;
}
