#include "soplex.h"
#include <cstdio>
using namespace soplex;
int main()
{
   int bad = 0;
   for(int mode = 0; mode <= 1; mode++)
   {
      SoPlex s; s.setIntParam(SoPlex::VERBOSITY, 0);
      if(mode) { s.setIntParam(SoPlex::READMODE, SoPlex::READMODE_RATIONAL); s.setIntParam(SoPlex::SYNCMODE, SoPlex::SYNCMODE_AUTO); }
      bool ok = s.readFile("dupobj.lp");
      DSVector r; s.getRowVectorReal(1, r);
      printf("mode %d: read %d obj(x) = %g (expected 2) obj(y) = %g, row c2: %d entries:", mode, ok, s.objReal(0), s.objReal(1), r.size());
      for(int i = 0; i < r.size(); i++) printf(" (%d, %g)", r.index(i), r.value(i));
      printf(" (expected (x,2) (y,2))\n");
      if(s.objReal(0) != 2.0) bad = 1;
   }
   return bad;
}
