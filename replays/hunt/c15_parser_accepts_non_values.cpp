// settings parser accepts strings that are no values of the parameter type / outside the range, instead of rejecting
// them and leaving the state unchanged
#include "repro_common.h"
static int bad = 0;
static void expectReject(SoPlex& s, const char* str)
{
   char buf[256];
   snprintf(buf, 256, "%s", str);
   int it = s.intParam(SoPlex::ITERLIMIT); double ft = s.realParam(SoPlex::FEASTOL); unsigned sd = s.randomSeed(); double tl = s.realParam(SoPlex::TIMELIMIT);
   bool r = s.parseSettingsString(buf);
   bool changed = it != s.intParam(SoPlex::ITERLIMIT) || ft != s.realParam(SoPlex::FEASTOL) || sd != s.randomSeed() || tl != s.realParam(SoPlex::TIMELIMIT);
   std::cout << "<" << str << "> returned " << r << (changed ? " and CHANGED the settings" : "") << "   [iterlimit " << s.intParam(SoPlex::ITERLIMIT) << " feastol "
             << s.realParam(SoPlex::FEASTOL) << " timelimit " << s.realParam(SoPlex::TIMELIMIT) << " seed " << s.randomSeed() << "]\n";
   if(r || changed) bad = 1;
}
int main()
{
   SoPlex s;
   s.setIntParam(SoPlex::VERBOSITY, 0);
   expectReject(s, "int:iterlimit=12abc");          // trailing garbage
   expectReject(s, "int:iterlimit=7.9");            // not an integer
   expectReject(s, "real:feastol=1e-3xyz");         // trailing garbage
   expectReject(s, "uint:random_seed=-5");          // negative: becomes UINT_MAX
   expectReject(s, "integer:iterlimit=5");          // unknown type (prefix match)
   expectReject(s, "uint:random_seedling=77");      // unknown name (prefix match)
   if(bad) std::cout << "DEFECT\n";
   return bad;
}
