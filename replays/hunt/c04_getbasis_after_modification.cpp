// repro_2: optimal solve -> LP modification that keeps the basis (addRowReal; also changeObjReal, changeBoundsReal,
// OBJSENSE, ...) -> hasBasis() is still true, basisRowStatus()/basisColStatus() work, but the array query
// getBasis() aborts: SPxSolverBase::getBasis() ends with "return status()", and SPxSolverBase::status()
// asserts (spxsolve.hpp:2280) that m_status == OPTIMAL implies basis status OPTIMAL, while the modification has
// downgraded the basis status (to DUAL / PRIMAL / REGULAR) without resetting m_status.
// usage: repro_2 [op]   op = 0 addRowReal (default), 1 changeObjReal, 2/6 changeBoundsReal, 3 changeElementReal,
//        4 OBJSENSE, 5 changeLhsReal, 7 removeColReal
// aborts by assertion when the defect shows; exit 0 otherwise
#include "soplex.h"
#include <cstdio>
using namespace soplex;
int main(int argc, char** argv)
{
   int op = argc > 1 ? atoi(argv[1]) : 0;
   SoPlex s;
   s.setIntParam(SoPlex::VERBOSITY, 0);
   s.setIntParam(SoPlex::OBJSENSE, SoPlex::OBJSENSE_MINIMIZE);
   // min x + y  s.t.  x + y >= 2,  0 <= x, y <= 5
   DSVector d(0);
   s.addColReal(LPCol(1.0, d, 5.0, 0.0));
   s.addColReal(LPCol(1.0, d, 5.0, 0.0));
   DSVector r(2);
   r.add(0, 1.0);
   r.add(1, 1.0);
   s.addRowReal(LPRow(2.0, r, infinity));
   SPxSolver::Status st = s.optimize();
   printf("status %d hasBasis %d\n", (int)st, (int)s.hasBasis());

   if(op == 0)
   {
      DSVector r2(2);
      r2.add(0, 1.0);
      r2.add(1, -1.0);
      s.addRowReal(LPRow(-1.0, r2, 1.0));
   }
   else if(op == 1)
      s.changeObjReal(0, 2.0);
   else if(op == 2)
      s.changeBoundsReal(0, 0.0, 4.0);
   else if(op == 3)
      s.changeElementReal(0, 0, 2.0);
   else if(op == 4)
      s.setIntParam(SoPlex::OBJSENSE, SoPlex::OBJSENSE_MAXIMIZE);
   else if(op == 5)
      s.changeLhsReal(0, 1.0);
   else if(op == 6)
      s.changeBoundsReal(1, 1.0, 5.0);   // bound of the nonbasic column
   else if(op == 7)
      s.removeColReal(1);

   printf("after modification: hasBasis %d; per-variable queries:", (int)s.hasBasis());

   for(int i = 0; i < s.numRows(); i++) printf(" r%d=%d", i, (int)s.basisRowStatus(i));

   for(int j = 0; j < s.numCols(); j++) printf(" c%d=%d", j, (int)s.basisColStatus(j));

   printf("\n");
   fflush(stdout);
   SPxSolver::VarStatus rows[3], cols[3];
   s.getBasis(rows, cols);           // assertion failure here
   printf("getBasis ok\n");
   return 0;
}
