// repro_4: the simplifier solves the LP completely (result VANISHED).  SoPlex reports OPTIMAL, x = 6,
// hasBasis() true, basisStatus() OPTIMAL, but the basis returned by all queries is the slack basis
// (row BASIC, column ON_LOWER, i.e. x = 3, which violates the row x >= 6); the unsimplified optimal basis
// (row BASIC, column ON_UPPER) is computed and stored in _basisStatusRows/_basisStatusCols by
// _storeSolutionRealFromPresol() (solvereal.hpp:724) but never loaded into the solver, which the queries ask
// because _isRealLPLoaded is true.
// exit 1 if the defect shows
#include "soplex.h"
#include <cstdio>
using namespace soplex;
int main(int argc, char** argv)
{
   int simpl = argc > 1 ? atoi(argv[1]) : SoPlex::SIMPLIFIER_AUTO;
   SoPlex s;
   s.setIntParam(SoPlex::VERBOSITY, 0);
   s.setIntParam(SoPlex::SIMPLIFIER, simpl);
   // max 0  s.t.  -x <= -6,  3 <= x <= 6
   DSVector d(0);
   s.addColReal(LPCol(0.0, d, 6.0, 3.0));
   DSVector r(1);
   r.add(0, -1.0);
   s.addRowReal(LPRow(-infinity, r, -6.0));
   SPxSolver::Status st = s.optimize();
   SPxSolver::VarStatus rows[1], cols[1];
   s.getBasis(rows, cols);
   double x[1];
   s.getPrimalReal(x, 1);
   printf("status %d hasBasis %d basisStatus %d (3 = OPTIMAL)  row %d col %d (4 = BASIC, 1 = ON_LOWER, 0 = ON_UPPER)  x = %g\n",
          (int)st, (int)s.hasBasis(), (int)s.basisStatus(), rows[0], cols[0], x[0]);
   // basic solution of the returned basis
   double xb = cols[0] == SPxSolver::ON_LOWER ? 3.0 : (cols[0] == SPxSolver::ON_UPPER ? 6.0 : 6.0 /* col basic: row at rhs */);
   printf("basic solution of the returned basis: x = %g  (row demands x >= 6)\n", xb);
   return (st == SPxSolver::OPTIMAL && xb != x[0]) ? 1 : 0;
}
