// after an exact solve that ends INFEASIBLE with the equality transformation or lifting active, getPrimalReal(p, numCols) must write numCols entries only
#include "soplex.h"
#include <cstdio>
using namespace soplex;
int run(bool eq, bool lift)
{
   SoPlex sp;
   sp.setIntParam(SoPlex::VERBOSITY, 0);
   sp.setIntParam(SoPlex::SOLVEMODE, SoPlex::SOLVEMODE_RATIONAL);
   sp.setIntParam(SoPlex::SYNCMODE, SoPlex::SYNCMODE_AUTO);
   sp.setIntParam(SoPlex::READMODE, SoPlex::READMODE_RATIONAL);
   sp.setIntParam(SoPlex::CHECKMODE, SoPlex::CHECKMODE_RATIONAL);
   sp.setRealParam(SoPlex::FEASTOL, 0.0); sp.setRealParam(SoPlex::OPTTOL, 0.0);
   sp.setBoolParam(SoPlex::EQTRANS, eq);
   sp.setBoolParam(SoPlex::LIFTING, lift);
   DSVector e(0);
   sp.addColReal(LPCol(1.0, e, 10.0, 0.0));
   sp.addColReal(LPCol(1.0, e, 10.0, 0.0));
   DSVector r(2); r.add(0, 1.0); r.add(1, 1e7);
   sp.addRowReal(LPRow(1.0, r, 2.0));          // ranged
   DSVector r2(2); r2.add(0, 1.0); r2.add(1, 1e7);
   sp.addRowReal(LPRow(5.0, r2, 6.0));         // contradicts the first
   DSVector r3(2); r3.add(0, 1e-7); r3.add(1, 1.0);
   sp.addRowReal(LPRow(-infinity, r3, 3.0));
   SPxSolver::Status st = sp.optimize();
   double buf[8]; for(int i = 0; i < 8; i++) buf[i] = -777.0;
   bool ok1 = sp.getPrimalReal(buf, 2);
   int bad = 0;
   for(int i = 2; i < 8; i++) if(buf[i] != -777.0) bad++;
   double buf2[8]; for(int i = 0; i < 8; i++) buf2[i] = -777.0;
   bool ok2 = sp.getRedCostReal(buf2, 2);
   for(int i = 2; i < 8; i++) if(buf2[i] != -777.0) bad++;
   double buf3[8]; for(int i = 0; i < 8; i++) buf3[i] = -777.0;
   bool ok3 = sp.getSlacksReal(buf3, 3);
   for(int i = 3; i < 8; i++) if(buf3[i] != -777.0) bad++;
   double buf4[8]; for(int i = 0; i < 8; i++) buf4[i] = -777.0;
   bool ok4 = sp.getDualReal(buf4, 3);
   for(int i = 3; i < 8; i++) if(buf4[i] != -777.0) bad++;
   printf("eqtrans=%d lifting=%d status=%d getters=%d%d%d%d entries written beyond the given length: %d\n", eq, lift, (int)st, ok1, ok2, ok3, ok4, bad);
   return bad;
}
int main()
{
   int bad = 0;
   for(int e = 0; e <= 1; e++) for(int l = 0; l <= 1; l++) bad += run(e, l);
   if(bad) printf("DEFECT: solution getters write beyond the caller's length\n");
   return bad != 0;
}
