// History: floating-point solve (default: persistent scaling) followed by an exact solve on the same SoPlex object.
//   min x + y   s.t.  3x + 7y >= 20/3,  5x + 9y >= 5,  0 <= x,y <= 4      (optimum 20/21)
// The floating-point solve leaves the real LP scaled; optimize() in rational mode then asserts
// areLPsInSync(true,false,false) (soplex.hpp:10271), which compares the SCALED real LP with the rational LP, and aborts.
// (_optimizeRational() would undo the scaling a few lines later; with dyadic data the assertion is blind because
// isAdjacentTo() returns true for every rational that is representable as a double.)
#include "exact_common.h"
int main(int argc, char** argv)
{
   SoPlex sp;
   exactSettings(sp, argc > 1);
   Q inf(infinity);
   DSVectorRational e(0);
   sp.addColRational(LPColRational(Q(1), e, Q(4), Q(0)));
   sp.addColRational(LPColRational(Q(1), e, Q(4), Q(0)));
   DSVectorRational r0(2), r1(2);
   r0.add(0, Q(3)); r0.add(1, Q(7));
   r1.add(0, Q(5)); r1.add(1, Q(9));
   sp.addRowRational(LPRowRational(Q(20) / 3, r0, inf));
   sp.addRowRational(LPRowRational(Q(5), r1, inf));
   // floating-point solve first
   sp.setIntParam(SoPlex::SOLVEMODE, SoPlex::SOLVEMODE_REAL);
   sp.setRealParam(SoPlex::FEASTOL, 1e-6);
   sp.setRealParam(SoPlex::OPTTOL, 1e-6);
   SPxSolver::Status st = sp.optimize();
   std::cout << "real solve: status " << st << " obj " << sp.objValueReal() << "\n";
   // now the exact solve
   sp.setIntParam(SoPlex::SOLVEMODE, SoPlex::SOLVEMODE_RATIONAL);
   sp.setRealParam(SoPlex::FEASTOL, 0.0);
   sp.setRealParam(SoPlex::OPTTOL, 0.0);
   st = sp.optimize();
   std::cout << "exact solve: status " << st << " obj " << sp.objValueRational() << "\n";
   return (st == SPxSolver::OPTIMAL && sp.objValueRational() == Q(20) / 21) ? 0 : 1;
}
