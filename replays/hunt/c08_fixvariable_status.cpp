// C08 finding 2: postsolve returns a dual infeasible solution (reduced cost -6 on a variable at its LOWER bound in a
// minimisation problem) for a 4x3 LP with small integer data that presolve solves outright (VANISHED), keepbounds=true
// (what SoPlex passes with the bound flipping ratio tester).
//   min -6 x0   s.t.  -x0 + 3 x3 = -11,   -2 x0 >= -4,   -2 x0 + 3 x1 + 3 x2 = -13,   x1 <= 3, x2 <= -3, x3 >= -3
// optimum: x0 = 2 (forced by row 1), x3 = -3; a correct dual has y(row1) = 3, y(row0) = 0.
#include "repro_common.h"
int main()
{
   DenseLP p;
   p.maximize = false; p.n = 4; p.m = 3;
   p.c = {-6, 0, 0, 0};
   p.lo = {-infinity, -infinity, -infinity, -3};
   p.up = {infinity, 3, -3, infinity};
   p.lhs = {-11, -4, -13};
   p.rhs = {-11, infinity, -13};
   p.A = {{-1, 0, 0, 3}, {-2, 0, 0, 0}, {-2, 3, 3, 0}};
   SPxOut out; out.setVerbosity(SPxOut::ERROR);
   auto tol = std::make_shared<Tolerances>();
   SPxLPBase<double> lp; lp.setOutstream(out); lp.setTolerances(tol);
   build(p, lp);
   SPxMainSM<double> sm; sm.setTolerances(tol); sm.setOutstream(out);
   SPxSimplifier<double>::Result res = sm.simplify(lp, 1e20, /*keepbounds*/ true, 0);
   printf("simplify -> %d (4 = VANISHED), offset %g\n", (int)res, sm.getObjoffset());
   if(res != SPxSimplifier<double>::VANISHED) { printf("unexpected simplifier result\n"); return 2; }
   // as SoPlex::_storeSolutionRealFromPresol: zero vectors of the original dimension and the slack basis
   VectorBase<double> x(p.n), r(p.n), s(p.m), y(p.m);
   x.clear(); r.clear(); s.clear(); y.clear();
   VS rows[3] = {SPxSolverBase<double>::BASIC, SPxSolverBase<double>::BASIC, SPxSolverBase<double>::BASIC};
   VS cols[4] = {SPxSolverBase<double>::ZERO, SPxSolverBase<double>::ON_UPPER, SPxSolverBase<double>::ON_UPPER, SPxSolverBase<double>::ON_LOWER};
   sm.unsimplify(x, y, s, r, rows, cols, true);
   int bad = report(p, sm);
   printf("%d violated conditions\n", bad);
   return bad ? 1 : 0;
}
