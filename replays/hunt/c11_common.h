// shared helpers: random rationals of widely varying bit length, dense rational matrices,
// an independent exact Gaussian-elimination oracle (rank / determinant-zero test, solves)
#pragma once
#include "soplex.h"
#include <random>
#include <vector>
#include <string>
#include <sstream>
#include <iostream>

using namespace soplex;
typedef std::vector<std::vector<Rational>> Mat; // Mat[i][j] row i col j
typedef std::vector<Rational> Vec;

struct Rng
{
   std::mt19937_64 g;
   explicit Rng(unsigned long long s) : g(s) {}
   int uni(int lo, int hi)
   {
      return lo + (int)(g() % (unsigned long long)(hi - lo + 1));
   }
   bool coin(int pct)
   {
      return uni(1, 100) <= pct;
   }
};

inline Integer bigInt(Rng& r, int bits)
{
   Integer x = 0;

   for(int i = 0; i < bits; i += 16)
   {
      x *= 65536;
      x += r.uni(0, 65535);
   }

   Integer m = 1;
   m <<= bits;
   x %= m;

   if(x == 0)
      x = 1;

   return x;
}

inline Rational pow2(int e)
{
   Rational r = 1;

   if(e >= 0)
   {
      Integer m = 1;
      m <<= e;
      r = Rational(m, Integer(1));
   }
   else
   {
      Integer m = 1;
      m <<= (-e);
      r = Rational(Integer(1), m);
   }

   return r;
}

// a nonzero random rational; mode selects the family
inline Rational rndRat(Rng& r, int mode)
{
   Rational v;

   switch(mode)
   {
   case 0: // tiny integers
      v = r.uni(1, 3);
      break;

   case 1: // medium integers
      v = r.uni(1, 1000);
      break;

   case 2: // big integers
      v = Rational(bigInt(r, r.uni(20, 300)), Integer(1));
      break;

   case 3: // small fractions
      v = Rational(Integer(r.uni(1, 20)), Integer(r.uni(1, 20)));
      break;

   case 4: // big fractions
      v = Rational(bigInt(r, r.uni(2, 200)), bigInt(r, r.uni(2, 200)));
      break;

   case 5: // powers of two, far outside double range as well
      v = pow2(r.uni(-1200, 1200));
      break;

   case 6: // 1 + tiny : rounds to 1 in double
      v = Rational(1) + pow2(-r.uni(54, 400));
      break;

   case 7: // decimal like 0.1 (not representable in double)
      v = Rational(Integer(r.uni(1, 99)), Integer(r.coin(50) ? 10 : 1000));
      break;

   case 8: // tiny magnitudes below 1e-16 (epsilon of the floating-point code)
      v = Rational(Integer(r.uni(1, 9)), bigInt(r, r.uni(60, 200)));
      break;

   default: // a double value
      v = Rational((double)r.uni(1, 1000000) / 7.0);
      break;
   }

   if(r.coin(50))
      v = -v;

   return v;
}

inline Rational rndRatMixed(Rng& r, int family)
{
   // family -1: mixed everything
   if(family < 0)
      return rndRat(r, r.uni(0, 9));

   return rndRat(r, family);
}

// exact rank by Gaussian elimination over the rationals (independent of SoPlex' LU code)
inline int exactRank(Mat a)
{
   int n = (int)a.size();
   int m = n ? (int)a[0].size() : 0;
   int rank = 0;

   for(int c = 0; c < m && rank < n; c++)
   {
      int p = -1;

      for(int i = rank; i < n; i++)
         if(a[i][c] != 0)
         {
            p = i;
            break;
         }

      if(p < 0)
         continue;

      std::swap(a[p], a[rank]);

      for(int i = rank + 1; i < n; i++)
      {
         if(a[i][c] == 0)
            continue;

         Rational f = a[i][c] / a[rank][c];

         for(int j = c; j < m; j++)
            if(a[rank][j] != 0)
               a[i][j] -= f * a[rank][j];
      }

      rank++;
   }

   return rank;
}

inline Vec matVec(const Mat& a, const Vec& x) // A x
{
   int n = (int)a.size();
   Vec y(n, Rational(0));

   for(int i = 0; i < n; i++)
      for(int j = 0; j < (int)x.size(); j++)
         if(a[i][j] != 0 && x[j] != 0)
            y[i] += a[i][j] * x[j];

   return y;
}

inline Vec vecMat(const Vec& x, const Mat& a) // x^T A
{
   int n = (int)a.size();
   int m = n ? (int)a[0].size() : 0;
   Vec y(m, Rational(0));

   for(int i = 0; i < n; i++)
      for(int j = 0; j < m; j++)
         if(a[i][j] != 0 && x[i] != 0)
            y[j] += x[i] * a[i][j];

   return y;
}

inline std::string ratStr(const Rational& r)
{
   std::stringstream s;
   s << r;
   return s.str();
}

inline std::string matStr(const Mat& a)
{
   std::stringstream s;

   for(size_t i = 0; i < a.size(); i++)
   {
      s << "  [";

      for(size_t j = 0; j < a[i].size(); j++)
         s << (j ? ", " : "") << a[i][j];

      s << "]\n";
   }

   return s.str();
}
