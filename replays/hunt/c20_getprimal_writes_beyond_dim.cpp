// repro_1: SoPlex_getPrimalReal / SoPlex_getRedCostReal write numCols+1 values into an array of length
// dim == numCols after an exact (rational) solve that ends INFEASIBLE (and getRedCostReal also after UNBOUNDED).
// Only C interface calls are used. Exit code 1 when the defect shows.
//
// g++ -std=gnu++14 -O1 -g -I/tmp/rp/w/src -I/tmp/rp/w/_build repro_1.cpp -o repro_1 /tmp/rp/w/_build/lib/libsoplex.a -lgmp -lmpfr -lz -lpthread
#include "soplex_interface.h"
#include <cstdio>

static int overrun(const char* what, const double* a, int dim, int total)
{
   int bad = 0;
   for(int i = dim; i < total; i++)
      if(a[i] != 777.0) { printf("  %s: element %d beyond dim=%d was overwritten with %g\n", what, i, dim, a[i]); bad = 1; }
   return bad;
}

int main()
{
   int bad = 0;
   const int VERBOSITY = 9, OBJSENSE = 0;

   // ---- case A: infeasible:  max -4x  s.t. 5/7 <= 0*x <= 5/7,  x <= 14
   {
      void* s = SoPlex_create();
      SoPlex_setIntParam(s, VERBOSITY, 0);
      SoPlex_setRational(s);
      double none[1] = {0.0};
      SoPlex_addColReal(s, none, 0, 0, -4.0, -1e100, 14.0);
      long n[1] = {0}, d[1] = {1};
      SoPlex_addRowRational(s, n, d, 1, 0, 5, 7, 5, 7);
      int st = SoPlex_optimize(s);
      printf("case A: status %d (3 = INFEASIBLE), numCols %d\n", st, SoPlex_numCols(s));
      double p[4] = {777, 777, 777, 777}, rc[4] = {777, 777, 777, 777}, du[4] = {777, 777, 777, 777};
      SoPlex_getPrimalReal(s, p, 1);
      SoPlex_getRedCostReal(s, rc, 1);
      SoPlex_getDualReal(s, du, 1);
      bad |= overrun("getPrimalReal(dim=1)", p, 1, 4);
      bad |= overrun("getRedCostReal(dim=1)", rc, 1, 4);
      bad |= overrun("getDualReal(dim=1)", du, 1, 4);
      SoPlex_free(s);
   }
   // ---- case B: unbounded:  max x  s.t. x >= 0
   {
      void* s = SoPlex_create();
      SoPlex_setIntParam(s, VERBOSITY, 0);
      SoPlex_setRational(s);
      SoPlex_setIntParam(s, OBJSENSE, 1);
      double none[1] = {0.0};
      SoPlex_addColReal(s, none, 0, 0, 1.0, 0.0, 1e100);
      double e[1] = {1.0};
      SoPlex_addRowReal(s, e, 1, 1, 0.0, 1e100);
      int st = SoPlex_optimize(s);
      printf("case B: status %d (2 = UNBOUNDED), numCols %d\n", st, SoPlex_numCols(s));
      double p[4] = {777, 777, 777, 777}, rc[4] = {777, 777, 777, 777}, du[4] = {777, 777, 777, 777};
      SoPlex_getPrimalReal(s, p, 1);
      SoPlex_getRedCostReal(s, rc, 1);
      SoPlex_getDualReal(s, du, 1);
      bad |= overrun("getPrimalReal(dim=1)", p, 1, 4);
      bad |= overrun("getRedCostReal(dim=1)", rc, 1, 4);
      bad |= overrun("getDualReal(dim=1)", du, 1, 4);
      SoPlex_free(s);
   }
   printf(bad ? "DEFECT: output array written beyond the length given by the caller\n" : "ok\n");
   return bad;
}
