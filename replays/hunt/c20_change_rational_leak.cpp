// repro_3: SoPlex_changeObjRational / SoPlex_changeLhsRational / SoPlex_changeRhsRational leak the temporary
// array `new Rational[dim]` on every call (soplex_interface.cpp:315, 351, 403: no delete[]).
// The program replaces the global array new/delete to count outstanding array allocations; nothing else in the
// call path uses operator new[] and keeps it.  Exit code 1 when the defect shows.
#include "soplex_interface.h"
#include <cstdio>
#include <cstdlib>
#include <new>
static long outstanding = 0, bytes = 0;
void* operator new[](std::size_t n) { void* p = malloc(n ? n : 1); if(!p) throw std::bad_alloc(); outstanding++; bytes += (long)n; return p; }
void operator delete[](void* p) noexcept { if(p) { outstanding--; free(p); } }
void operator delete[](void* p, std::size_t) noexcept { if(p) { outstanding--; free(p); } }

int main()
{
   void* s = SoPlex_create();
   SoPlex_setIntParam(s, 9 /*VERBOSITY*/, 0);
   SoPlex_setRational(s);
   double none[2] = {0, 0}, r[2] = {1, 1};
   SoPlex_addColReal(s, none, 0, 0, 1, 0, 10);
   SoPlex_addColReal(s, none, 0, 0, 2, 0, 5);
   SoPlex_addRowReal(s, r, 2, 2, 0, 4);
   SoPlex_addRowReal(s, r, 2, 2, 1, 8);
   long n[2] = {-1, 2}, d[2] = {3, 1}, ln[2] = {-1, 0}, ld[2] = {2, 1}, rn[2] = {9, 17}, rd[2] = {2, 2};
   int bad = 0;
   const int N = 1000;
   long o0 = outstanding, b0 = bytes;
   for(int i = 0; i < N; i++) SoPlex_changeObjRational(s, n, d, 2);
   printf("changeObjRational: %ld array allocations never freed after %d calls (%ld bytes + GMP limbs)\n", outstanding - o0, N, bytes - b0);
   bad |= (outstanding - o0 >= N);
   o0 = outstanding;
   for(int i = 0; i < N; i++) SoPlex_changeLhsRational(s, ln, ld, 2);
   printf("changeLhsRational: %ld array allocations never freed after %d calls\n", outstanding - o0, N);
   bad |= (outstanding - o0 >= N);
   o0 = outstanding;
   for(int i = 0; i < N; i++) SoPlex_changeRhsRational(s, rn, rd, 2);
   printf("changeRhsRational: %ld array allocations never freed after %d calls\n", outstanding - o0, N);
   bad |= (outstanding - o0 >= N);
   // control: the values did arrive
   long q[4]; SoPlex_getRowBoundsRational(s, 0, q, q + 1, q + 2, q + 3);
   printf("row 0: %ld/%ld .. %ld/%ld (expected -1/2 .. 9/2)\n", q[0], q[1], q[2], q[3]);
   SoPlex_free(s);
   printf("after SoPlex_free: %ld array allocations still outstanding\n", outstanding);
   printf(bad ? "DEFECT: memory leak per call\n" : "ok\n");
   return bad;
}
