// Finding 3: after computeBasisInverseRational() (or any getBasisInverse*Rational / getBasisIndRational) has correctly
// reported an exactly singular basis, the solver object is left in a state that its own consistency check rejects:
// _rationalLUSolver keeps status SINGULAR and SoPlexBase::_isConsistent() (soplex.hpp:7434) asserts
// status == UNLOADED || status == OK.  The next optimize() and even the destructor abort.
// argument "solve": call optimize() after the query; default: just destroy the object
// exit code 0 = survived; abort (SIGABRT) = defect
#include "soplex.h"
#include <iostream>
using namespace soplex;

int main(int argc, char** argv)
{
   {
      SoPlex s;
      s.setIntParam(SoPlex::VERBOSITY, 0);
      s.setIntParam(SoPlex::SYNCMODE, SoPlex::SYNCMODE_AUTO);
      Rational inf = Rational(s.realParam(SoPlex::INFTY));
      DSVectorRational e(1);
      // min x0 + x1  s.t.  x0 + x1 >= 1,  2 x0 + 2 x1 >= 1,  x >= 0
      s.addRowRational(LPRowRational(Rational(1), e, inf));
      s.addRowRational(LPRowRational(Rational(1), e, inf));

      for(int j = 0; j < 2; j++)
      {
         DSVectorRational c(3);
         c.add(0, Rational(1));
         c.add(1, Rational(2));
         s.addColRational(LPColRational(Rational(1), c, inf, Rational(0)));
      }

      // both (parallel) columns basic: B = [1 1; 2 2] is exactly singular
      SPxSolver::VarStatus rows[2] = {SPxSolver::ON_LOWER, SPxSolver::ON_LOWER};
      SPxSolver::VarStatus cols[2] = {SPxSolver::BASIC, SPxSolver::BASIC};
      s.setBasis(rows, cols);
      bool ok = s.computeBasisInverseRational();
      std::cout << "computeBasisInverseRational() on a singular basis returned " << ok << " (false is correct)" <<
                std::endl;

      if(argc > 1)
      {
         s.optimize();
         std::cout << "optimize(): status " << s.status() << std::endl;
      }
   } // ~SoPlexBase asserts _isConsistent()
   std::cout << "ok" << std::endl;
   return 0;
}
