// SoPlex public API (GMP interface of the rational LP): two empty columns, then two rows with one nonzero each
// => assertion failure in SVSetBase<Rational>::memPack() (svsetbase.h:937 -> classarray.h:84) during the second
// addRowsRational(). Same root cause as repro_1b.cpp, reached through SoPlexBase<double>.
// exit code: 0 = fine, 1 = defect
#include <iostream>
#include <csignal>
#include <unistd.h>
#include "soplex.h"
using namespace soplex;

static void onAbort(int)
{
   std::cout << "DEFECT: assertion failure inside addRowsRational()" << std::endl;
   _exit(1);
}

int main()
{
   signal(SIGABRT, onAbort);
   SoPlex sp;
   sp.setIntParam(SoPlex::VERBOSITY, 0);
   sp.setIntParam(SoPlex::SYNCMODE, SoPlex::SYNCMODE_AUTO);

   mpq_t zero, one;
   mpq_init(zero);
   mpq_init(one);
   mpq_set_si(one, 1, 1);
   int idx0 = 0, start = 0, len0 = 0, len1 = 1;

   // two empty columns 0 <= x <= 1 with objective 0
   sp.addColsRational(&zero, &zero, &one, &idx0, &start, &len0, 1, 0, &one);
   sp.addColsRational(&zero, &zero, &one, &idx0, &start, &len0, 1, 0, &one);
   // two rows 0 <= x0 <= 1
   sp.addRowsRational(&zero, &one, &idx0, &start, &len1, 1, 1, &one);
   sp.addRowsRational(&zero, &one, &idx0, &start, &len1, 1, 1, &one);

   bool ok = sp.numRowsRational() == 2 && sp.numColsRational() == 2 && sp.colVectorRational(0).size() == 2
             && sp.colVectorRational(1).size() == 0 && sp.rowVectorRational(1).size() == 1;
   std::cout << (ok ? "ok" : "DEFECT: wrong LP") << std::endl;
   return ok ? 0 : 1;
}
