// Finding 1: an LP/MPS file whose bounds (or row sides) cross - lower > upper - is accepted by the real-mode reader
// (the LP is then simply infeasible) but ABORTS the process in rational read mode:
//   soplex.hpp:7520 SoPlexBase<R>::_rangeTypeRational: Assertion `lower <= upper' failed
// called from _readFileRational() -> _recomputeRangeTypesRational().
// Same abort with the binary:  soplex --readmode=1 inputs/crossing_bounds.lp   (also: --solvemode=2)
// Also any value above 1e100 on the wrong side triggers it, e.g. the row  "c1: x >= 1e200".
//
// exit code: 0 = reader returned (either result) and the object stayed usable; abort (134) = defect
#include "soplex.h"
#include <cstdio>
using namespace soplex;
int main()
{
   const char* fn = "/tmp/hunt/C13/inputs/crossing_bounds.lp";
   FILE* f = fopen(fn, "w");
   fputs("Minimize\n obj: x\nSubject To\n c1: x >= 1\nBounds\n 5 <= x <= 3\nEnd\n", f);
   fclose(f);

   {
      SoPlex s;
      s.setIntParam(SoPlex::VERBOSITY, 0);
      bool ok = s.readFile(fn);
      SPxSolver::Status st = s.optimize();
      printf("real mode    : readFile=%d status=%d (infeasible=%d)\n", ok, (int)st, (int)SPxSolver::INFEASIBLE);
   }

   SoPlex s;
   s.setIntParam(SoPlex::VERBOSITY, 0);
   s.setIntParam(SoPlex::READMODE, SoPlex::READMODE_RATIONAL);
   s.setIntParam(SoPlex::SYNCMODE, SoPlex::SYNCMODE_AUTO);
   bool ok = s.readFile(fn);          // <- aborts here
   printf("rational mode: readFile=%d rows=%d cols=%d\n", ok, s.numRows(), s.numCols());
   s.clearLPReal();
   return 0;
}
