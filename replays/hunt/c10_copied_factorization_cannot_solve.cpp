// A copy of a loaded SLUFactor (copy constructor / clone() / operator=) cannot do sparse solves:
//  - copy ctor / clone(): the tolerances of the original are not copied -> null pointer dereference in every solve
//    that reads tolerances()->epsilon() (solveLeft(SSVector,SVector), all *4update solves, 2/3-rhs left solves)
//  - all three: the temporaries vec/ssvec keep dimension 1 (SLUFactor::assign does not reDim them)
//    -> assertion `rhs.dim() <= VectorBase<R>::dim()' in `ssvec = b` (heap overflow with NDEBUG)
// usage: repro_3 [copy|clone|assign|copytol]     (copytol: copy ctor followed by setTolerances)
#include "common.h"
#include <csignal>
#include <cstdlib>
#include <string>
static void onsig(int s) { fprintf(stderr, "DEFECT: signal %d (%s) in a solve on the copied factorization\n", s, s == SIGSEGV ? "SIGSEGV" : "abort/assertion"); _Exit(1); }
int main(int argc, char** argv)
{
   std::string t = argc > 1 ? argv[1] : "copytol";
   signal(SIGABRT, onsig); signal(SIGSEGV, onsig);
   auto tol = std::make_shared<Tolerances>();
   LU f; f.setTolerances(tol); f.setUtype(LU::FOREST_TOMLIN);
   DenseCols A(3, {2, 0, 1,  0, 3, 0,  1, 0, 4});
   if(f.load(A.p.data(), 3) != LU::OK) return 2;
   LU* g;
   if(t == "copy") g = new LU(f);
   else if(t == "copytol") { g = new LU(f); g->setTolerances(tol); }
   else if(t == "clone") g = static_cast<LU*>(f.clone());
   else { g = new LU; g->setTolerances(tol); *g = f; }
   DSVectorBase<double> c = sv({3, 3, 5});           // A * (1,1,1)
   SSVectorBase<double> e = mkss(3, tol);
   g->solveRight(e, c);        printf("solveRight(SS,SV) on copy: %g %g %g (expected 1 1 1)\n", e[0], e[1], e[2]);
   g->solveRight4update(e, c); printf("solveRight4update on copy: %g %g %g (expected 1 1 1)\n", e[0], e[1], e[2]);
   g->solveLeft(e, c);         printf("solveLeft(SS,SV) on copy done\n");
   delete g;
   return 0;
}
