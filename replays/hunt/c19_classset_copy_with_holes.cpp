// ClassSet copy constructor copies only the first num() slots instead of the first size() slots: after removals
// (size() > num()) elements whose key index is >= num() are default-constructed in the copy and the free list is lost.
// exit code: 0 = fine, 1 = defect
#include <iostream>
#include <string>
#include "soplex.h"
using namespace soplex;
struct Item
{
   int v;
   Item() : v(-1) {}
   Item(int x) : v(x) {}
};
int main()
{
   ClassSet<Item> s(8);
   DataKey k[5];

   for(int i = 0; i < 5; i++)
      s.add(k[i], Item(10 + i));

   s.remove(0);                        // number 0 now holds the element with key 4
   s.remove(0);                        // number 0 now holds the element with key 3; num() == 3, size() == 4
   ClassSet<Item> c(s);
   int bad = 0;

   for(int i = 0; i < s.num(); i++)
   {
      std::cout << "number " << i << " key " << s.key(i).idx << ": original " << s[i].v << " copy " << c[i].v << std::endl;

      if(c[i].v != s[i].v || c.key(i).idx != s.key(i).idx || c.number(c.key(i)) != i)
         bad++;
   }

   std::cout << (bad ? "DEFECT: copy differs from the original" : "ok") << std::endl;
   return bad ? 1 : 0;
}
