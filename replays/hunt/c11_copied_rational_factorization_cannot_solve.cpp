// Finding 2: a copy of a SoPlex object that holds a rational basis factorization cannot use it:
// SLUFactorRational's copy constructor / operator= leave the work vectors `vec` and `ssvec` at dimension 1
// (and `work` pointing into the 1-element vector), so the first rational basis-inverse query on the copy
// runs out of bounds (assertion in this build, heap overflow / wrong result without assertions).
// argument "assign": use operator= instead of the copy constructor;  argument "col": query a column instead of a row
// exit code: 0 = copy answered exactly; otherwise defect (abort by assertion / signal, or 1 for a wrong answer)
#include "soplex.h"
#include <iostream>
#include <cstring>
using namespace soplex;

int main(int argc, char** argv)
{
   bool assign = false, col = false;

   for(int i = 1; i < argc; i++)
   {
      assign |= !strcmp(argv[i], "assign");
      col |= !strcmp(argv[i], "col");
   }

   const int n = 3;
   const int a[3][3] = {{2, 1, 0}, {1, 3, 1}, {0, 1, 4}};
   SoPlex s;
   s.setIntParam(SoPlex::VERBOSITY, 0);
   s.setIntParam(SoPlex::SYNCMODE, SoPlex::SYNCMODE_AUTO);
   Rational inf = Rational(s.realParam(SoPlex::INFTY));
   DSVectorRational e(1);

   for(int i = 0; i < n; i++)
      s.addRowRational(LPRowRational(Rational(1), e, Rational(1)));

   for(int j = 0; j < n; j++)
   {
      DSVectorRational c(n + 1);

      for(int i = 0; i < n; i++)
         if(a[i][j] != 0)
            c.add(i, Rational(a[i][j]));

      s.addColRational(LPColRational(Rational(1), c, inf, Rational(0)));
   }

   s.setIntParam(SoPlex::SOLVEMODE, SoPlex::SOLVEMODE_RATIONAL);
   s.setRealParam(SoPlex::FEASTOL, 0.0);
   s.setRealParam(SoPlex::OPTTOL, 0.0);
   s.optimize();
   std::cout << "status " << s.status() << std::endl;

   if(!s.computeBasisInverseRational())
      return 3;

   // the original answers correctly
   SSVectorRational v0(n);
   s.getBasisInverseRowRational(2, v0);
   std::cout << "original, row 2 of B^-1:";

   for(int i = 0; i < n; i++)
      std::cout << " " << v0[i];

   std::cout << std::endl;

   SoPlex* t;

   if(assign)
   {
      t = new SoPlex();
      *t = s;
   }
   else
      t = new SoPlex(s);

   DataArray<int> bind;

   if(!t->getBasisIndRational(bind))
      return 3;

   SSVectorRational v(n);
   bool ok = col ? t->getBasisInverseColRational(2, v) : t->getBasisInverseRowRational(2, v);
   std::cout << "copy, " << (col ? "column" : "row") << " 2 of B^-1 (returned " << ok << "):";

   for(int i = 0; i < n; i++)
      std::cout << " " << v[i];

   std::cout << std::endl;
   int bad = 0;

   for(int k = 0; k < n; k++)
   {
      Rational p = 0;

      if(col)
      {
         // (B v)[k]
         for(int j = 0; j < n; j++)
         {
            if(bind[j] < 0)
               p += (-1 - bind[j] == k) ? v[j] : Rational(0);
            else
               p += t->colVectorRational(bind[j])[k] * v[j];
         }
      }
      else
      {
         // (v^T B)[k]
         if(bind[k] < 0)
            p = v[-1 - bind[k]];
         else
         {
            const SVectorRational& c = t->colVectorRational(bind[k]);

            for(int q = 0; q < c.size(); q++)
               p += v[c.index(q)] * c.value(q);
         }
      }

      if(p != (k == 2 ? 1 : 0))
         bad = 1;
   }

   std::cout << (bad ? "DEFECT: copy returns a wrong inverse" : "ok") << std::endl;
   delete t;
   return bad;
}
