// settings parser: a '#' directly after the value ends the value token but the comment text is then taken for garbage
#include "repro_common.h"
int main()
{
   SoPlex s;
   s.setIntParam(SoPlex::VERBOSITY, 0);
   int bad = 0;
   char s1[] = "int:iterlimit = 5 # comment";
   bool r1 = s.parseSettingsString(s1);
   std::cout << "<int:iterlimit = 5 # comment> -> " << r1 << " iterlimit=" << s.intParam(SoPlex::ITERLIMIT) << "\n";
   char s2[] = "int:iterlimit = 6# comment";
   bool r2 = s.parseSettingsString(s2);
   std::cout << "<int:iterlimit = 6# comment>  -> " << r2 << " iterlimit=" << s.intParam(SoPlex::ITERLIMIT) << " (expected 1, 6)\n";
   if(!r2 || s.intParam(SoPlex::ITERLIMIT) != 6) bad = 1;
   // same through a file
   FILE* f = fopen("/tmp/ex/repro_6.set", "w");
   fprintf(f, "real:feastol = 1e-7# tighter\n");
   fclose(f);
   s.loadSettingsFile("/tmp/ex/repro_6.set");
   std::cout << "file line <real:feastol = 1e-7# tighter> -> feastol=" << s.realParam(SoPlex::FEASTOL) << " (expected 1e-07)\n";
   if(s.realParam(SoPlex::FEASTOL) != 1e-7) bad = 1;
   if(bad) std::cout << "DEFECT\n";
   return bad;
}
