// Finding 2: with persistent scaling (the default) a copy keeps pointers to the SOURCE's scaler objects and scaling
// arrays: the copied LP's lp_scaler points to the source's SPxScaler member and the copied scalers'
// m_activeColscaleExp / m_activeRowscaleExp point into the source's LP.
// Re-using the source for another LP changes answers of the copy; destroying the source -> use after free.
#include "soplex.h"
#include <cstdio>
using namespace soplex;

static void build(SoPlex& s, double k)
{
   s.setIntParam(SoPlex::VERBOSITY, 0);
   s.setIntParam(SoPlex::SIMPLIFIER, SoPlex::SIMPLIFIER_OFF);
   s.setIntParam(SoPlex::OBJSENSE, SoPlex::OBJSENSE_MAXIMIZE);
   // default scaler (bi-equilibrium), default PERSISTENTSCALING = true
   s.addColReal(LPCol(1.0, DSVector(), infinity, 0.0));
   s.addColReal(LPCol(1.0, DSVector(), infinity, 0.0));
   DSVector r0; r0.add(0, k); r0.add(1, 2.0 * k); s.addRowReal(LPRow(-infinity, r0, 4.0 * k));
   DSVector r1; r1.add(0, 3.0); r1.add(1, 1.0); s.addRowReal(LPRow(-infinity, r1, 6.0));
}

int main(int argc, char** argv)
{
   bool destroySource = argc > 1; // any argument: destroy the source (-> use after free in changeObjReal()/lhsReal() of the copy)
   SoPlex* A = new SoPlex();
   build(*A, 1024.0);
   A->optimize();

   SoPlex C(*A);
   double v1[2], v2[2];
   C.getBasisInverseRowReal(0, v1);
   double mx1 = C.maxAbsNonzeroReal();
   printf("copy, before touching the source: B^-1 row 0 = (%g, %g), maxAbsNonzeroReal = %g\n", v1[0], v1[1], mx1);

   if(destroySource)
   {
      delete A;
      C.changeObjReal(1, 1.5);   // reads lp_scaler -> freed memory (valgrind: invalid read in SPxLPBase::changeMaxObj, spxlpbase.h:1440)
      C.optimize();
      printf("copy after destroying the source: status %d obj %g (expected 3.4)\n", (int)C.status(), C.objValueReal());
      return C.status() != SPxSolver::OPTIMAL;
   }

   // only the SOURCE is changed: it gets a differently scaled LP and is solved again
   A->clearLPReal();
   build(*A, 1.0 / 4096);
   A->optimize();

   C.getBasisInverseRowReal(0, v2);
   double mx2 = C.maxAbsNonzeroReal();
   printf("copy, after re-using the source:  B^-1 row 0 = (%g, %g), maxAbsNonzeroReal = %g\n", v2[0], v2[1], mx2);
   bool bad = v1[0] != v2[0] || v1[1] != v2[1] || mx1 != mx2;
   printf(bad ? "DEFECT: answers of the untouched copy changed\n" : "ok\n");
   delete A;
   return bad ? 1 : 0;
}
