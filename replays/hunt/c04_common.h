// common helpers for the C04 basis checkers
#ifndef C04_COMMON_H
#define C04_COMMON_H
#include "soplex.h"
extern "C" {
#include "soplex_interface.h"
}
#include <vector>
#include <string>
#include <random>
#include <cstdio>
#include <cstdlib>
#include <cmath>
#include <set>
#include <sstream>
#include <unistd.h>
#include <sys/wait.h>

using namespace soplex;
typedef SPxSolver::VarStatus VS;
static const double INF = 1e100;

struct LP
{
   int m = 0, n = 0, sense = -1; // sense -1 min, +1 max
   std::vector<std::vector<int> > A; // m x n
   std::vector<double> lo, up, lhs, rhs, obj;
};

struct Par
{
   int rep = 0, alg = 1, pricer = 0, ratio = 3, scaler = 2, simpl = 1, starter = 0, upd = 1;
   bool persist = true;
   int solvemode = 0;       // 0 real, 1 auto, 2 rational
   int iterlimit = -1;
   int polishing = 0;
   bool ensureray = false;
   bool forcebasic = false;
   bool rowboundflips = false;
   bool fullperturb = false;
   int hyper = 1;
   std::string str() const
   {
      std::ostringstream o;
      o << "rep=" << rep << " alg=" << alg << " pricer=" << pricer << " ratio=" << ratio << " scaler=" << scaler
        << " persist=" << persist << " simpl=" << simpl << " starter=" << starter << " upd=" << upd
        << " solvemode=" << solvemode << " iterlimit=" << iterlimit << " polish=" << polishing
        << " ensureray=" << ensureray << " forcebasic=" << forcebasic << " rbf=" << rowboundflips
        << " fullpert=" << fullperturb << " hyper=" << hyper;
      return o.str();
   }
};

typedef std::mt19937 Rng;
static inline int ri(Rng& g, int a, int b)
{
   return a + (int)(g() % (unsigned)(b - a + 1));
}

static inline Par randPar(Rng& g, bool exact)
{
   Par p;
   p.rep = ri(g, 0, 2);
   p.alg = ri(g, 0, 1);
   p.pricer = ri(g, 0, 5);
   p.ratio = ri(g, 0, 3);
   p.scaler = ri(g, 0, 6);
   p.persist = ri(g, 0, 1);
   int s = ri(g, 0, 2);
   p.simpl = (s == 0 ? 0 : (s == 1 ? 1 : 3));
   p.starter = ri(g, 0, 3);
   p.upd = ri(g, 0, 1);
   p.solvemode = exact ? 2 : 0;
   p.polishing = (ri(g, 0, 5) == 0) ? ri(g, 1, 2) : 0;
   p.ensureray = ri(g, 0, 3) == 0;
   p.rowboundflips = ri(g, 0, 3) == 0;
   p.fullperturb = ri(g, 0, 5) == 0;
   p.hyper = ri(g, 0, 2);
   return p;
}

static inline void applyPar(SoPlex& s, const Par& p)
{
   s.setIntParam(SoPlex::VERBOSITY, 0);
   s.setIntParam(SoPlex::REPRESENTATION, p.rep);
   s.setIntParam(SoPlex::ALGORITHM, p.alg);
   s.setIntParam(SoPlex::PRICER, p.pricer);
   s.setIntParam(SoPlex::RATIOTESTER, p.ratio);
   s.setIntParam(SoPlex::SCALER, p.scaler);
   s.setBoolParam(SoPlex::PERSISTENTSCALING, p.persist);
   s.setIntParam(SoPlex::SIMPLIFIER, p.simpl);
   s.setIntParam(SoPlex::STARTER, p.starter);
   s.setIntParam(SoPlex::FACTOR_UPDATE_TYPE, p.upd);
   s.setIntParam(SoPlex::ITERLIMIT, p.iterlimit);
   s.setIntParam(SoPlex::SOLUTION_POLISHING, p.polishing);
   s.setBoolParam(SoPlex::ENSURERAY, p.ensureray);
   s.setBoolParam(SoPlex::ROWBOUNDFLIPS, p.rowboundflips);
   s.setBoolParam(SoPlex::FULLPERTURBATION, p.fullperturb);
   s.setIntParam(SoPlex::HYPER_PRICING, p.hyper);

   if(p.solvemode == 2)
   {
      s.setIntParam(SoPlex::SYNCMODE, SoPlex::SYNCMODE_AUTO);
      s.setIntParam(SoPlex::SOLVEMODE, SoPlex::SOLVEMODE_RATIONAL);
      s.setIntParam(SoPlex::CHECKMODE, SoPlex::CHECKMODE_RATIONAL);
      s.setIntParam(SoPlex::READMODE, SoPlex::READMODE_RATIONAL);
      s.setRealParam(SoPlex::FEASTOL, 0.0);
      s.setRealParam(SoPlex::OPTTOL, 0.0);
      s.setBoolParam(SoPlex::FORCEBASIC, p.forcebasic);
   }
   else
   {
      s.setIntParam(SoPlex::SOLVEMODE, p.solvemode == 0 ? SoPlex::SOLVEMODE_REAL : SoPlex::SOLVEMODE_AUTO);
   }
}

static inline LP randLP(Rng& g)
{
   LP lp;
   lp.m = ri(g, 0, 20) == 0 ? 0 : ri(g, 1, 8);
   lp.n = ri(g, 1, 8);

   if(ri(g, 0, 2) == 0)
   {
      lp.m = std::min(lp.m, 4);
      lp.n = std::min(lp.n, 4);
   }

   lp.sense = ri(g, 0, 1) ? 1 : -1;
   int dens = ri(g, 20, 100);
   int maxc = ri(g, 1, 4);
   lp.A.assign(lp.m, std::vector<int>(lp.n, 0));

   for(int i = 0; i < lp.m; i++)
   {
      bool empty = ri(g, 0, 15) == 0;

      for(int j = 0; j < lp.n; j++)
         if(!empty && ri(g, 0, 99) < dens)
            lp.A[i][j] = ri(g, -maxc, maxc);
   }

   // duplicate / parallel rows sometimes (degeneracy)
   if(lp.m >= 2 && ri(g, 0, 4) == 0)
   {
      int a = ri(g, 0, lp.m - 1), b = ri(g, 0, lp.m - 1);
      int f = ri(g, -2, 2);

      if(a != b)
         for(int j = 0; j < lp.n; j++)
            lp.A[a][j] = f * lp.A[b][j];
   }

   for(int j = 0; j < lp.n; j++)
      if(ri(g, 0, 15) == 0)
         for(int i = 0; i < lp.m; i++)
            lp.A[i][j] = 0;

   lp.lo.resize(lp.n);
   lp.up.resize(lp.n);
   lp.obj.resize(lp.n);
   lp.lhs.resize(lp.m);
   lp.rhs.resize(lp.m);
   int zeroBias = ri(g, 0, 2); // 0: many zero rhs (degenerate)

   for(int j = 0; j < lp.n; j++)
   {
      int t = ri(g, 0, 9);
      int a = ri(g, -4, 4), b = ri(g, 0, 5);

      if(zeroBias == 0 && ri(g, 0, 1))
         a = 0;

      if(t == 0) { lp.lo[j] = -INF; lp.up[j] = INF; }
      else if(t == 1) { lp.lo[j] = -INF; lp.up[j] = a; }
      else if(t <= 4) { lp.lo[j] = (t == 4 ? a : 0); lp.up[j] = INF; }
      else if(t <= 7) { lp.lo[j] = a; lp.up[j] = a + b; }
      else if(t == 8) { lp.lo[j] = a; lp.up[j] = a; }
      else { lp.lo[j] = 0; lp.up[j] = b; }

      lp.obj[j] = ri(g, 0, 3) == 0 ? 0 : ri(g, -3, 3);
   }

   for(int i = 0; i < lp.m; i++)
   {
      int t = ri(g, 0, 9);
      int a = ri(g, -6, 6), b = ri(g, 0, 6);

      if(zeroBias == 0 && ri(g, 0, 1))
         a = 0;

      if(t == 0) { lp.lhs[i] = -INF; lp.rhs[i] = INF; }
      else if(t <= 3) { lp.lhs[i] = -INF; lp.rhs[i] = a; }
      else if(t <= 5) { lp.lhs[i] = a; lp.rhs[i] = INF; }
      else if(t <= 7) { lp.lhs[i] = a; lp.rhs[i] = a + b; }
      else { lp.lhs[i] = a; lp.rhs[i] = a; }
   }

   return lp;
}

static inline void loadLP(SoPlex& s, const LP& lp)
{
   s.setIntParam(SoPlex::OBJSENSE, lp.sense > 0 ? SoPlex::OBJSENSE_MAXIMIZE : SoPlex::OBJSENSE_MINIMIZE);
   DSVector dummy(0);

   for(int j = 0; j < lp.n; j++)
      s.addColReal(LPCol(lp.obj[j], dummy, lp.up[j], lp.lo[j]));

   for(int i = 0; i < lp.m; i++)
   {
      DSVector r(lp.n);

      for(int j = 0; j < lp.n; j++)
         if(lp.A[i][j] != 0)
            r.add(j, (double)lp.A[i][j]);

      s.addRowReal(LPRow(lp.lhs[i], r, lp.rhs[i]));
   }
}

static inline std::string lpStr(const LP& lp)
{
   std::ostringstream o;
   o << (lp.sense > 0 ? "max" : "min") << " m=" << lp.m << " n=" << lp.n << "\n obj:";

   for(int j = 0; j < lp.n; j++) o << " " << lp.obj[j];

   o << "\n";

   for(int i = 0; i < lp.m; i++)
   {
      o << "  " << lp.lhs[i] << " <=";

      for(int j = 0; j < lp.n; j++) o << " " << lp.A[i][j];

      o << " <= " << lp.rhs[i] << "\n";
   }

   o << " lo:";

   for(int j = 0; j < lp.n; j++) o << " " << lp.lo[j];

   o << "\n up:";

   for(int j = 0; j < lp.n; j++) o << " " << lp.up[j];

   o << "\n";
   return o.str();
}

static inline const char* vsName(int v)
{
   static const char* nm[] = {"U", "L", "F", "Z", "B", "?"};
   return (v >= 0 && v <= 5) ? nm[v] : "X";
}

static inline std::string basisStr(const std::vector<VS>& r, const std::vector<VS>& c)
{
   std::string s = "rows[";

   for(auto v : r) s += vsName(v);

   s += "] cols[";

   for(auto v : c) s += vsName(v);

   s += "]";
   return s;
}

// ---------- exact arithmetic helpers ----------
typedef std::vector<std::vector<Rational> > QMat;

// exact determinant (Bareiss over __int128) of the basis matrix of [A | -I] for the basic set
static inline bool basisNonsingular(const LP& lp, const std::vector<VS>& rows, const std::vector<VS>& cols)
{
   int m = lp.m;
   std::vector<std::vector<Rational> > M(m, std::vector<Rational>(m, Rational(0)));
   int k = 0;

   for(int j = 0; j < lp.n; j++)
      if(cols[j] == SPxSolver::BASIC)
      {
         if(k >= m) return false;

         for(int i = 0; i < m; i++) M[i][k] = lp.A[i][j];

         k++;
      }

   for(int i = 0; i < m; i++)
      if(rows[i] == SPxSolver::BASIC)
      {
         if(k >= m) return false;

         M[i][k] = -1;
         k++;
      }

   if(k != m) return false;

   // gaussian elimination
   for(int c = 0; c < m; c++)
   {
      int p = -1;

      for(int r = c; r < m; r++) if(M[r][c] != 0) { p = r; break; }

      if(p < 0) return false;

      std::swap(M[p], M[c]);

      for(int r = c + 1; r < m; r++)
      {
         if(M[r][c] == 0) continue;

         Rational f = M[r][c] / M[c][c];

         for(int cc = c; cc < m; cc++) M[r][cc] -= f * M[c][cc];
      }
   }

   return true;
}

// solve square system M x = b exactly; returns false if singular
static inline bool qsolve(QMat M, std::vector<Rational> b, std::vector<Rational>& x)
{
   int m = (int)M.size();

   for(int c = 0; c < m; c++)
   {
      int p = -1;

      for(int r = c; r < m; r++) if(M[r][c] != 0) { p = r; break; }

      if(p < 0) return false;

      std::swap(M[p], M[c]);
      std::swap(b[p], b[c]);

      for(int r = 0; r < m; r++)
      {
         if(r == c || M[r][c] == 0) continue;

         Rational f = M[r][c] / M[c][c];

         for(int cc = c; cc < m; cc++) M[r][cc] -= f * M[c][cc];

         b[r] -= f * b[c];
      }
   }

   x.assign(m, Rational(0));

   for(int c = 0; c < m; c++) x[c] = b[c] / M[c][c];

   return true;
}

struct BasicSol
{
   std::vector<Rational> x, s, y, d; // primal, slacks, duals, reduced costs
   Rational objval;
};

// basic solution for statuses (exact). returns false if the basis matrix is singular / wrong count
static inline bool basicSolution(const LP& lp, const std::vector<VS>& rows, const std::vector<VS>& cols,
                                 BasicSol& bs)
{
   int m = lp.m, n = lp.n;
   std::vector<int> bidx; // >=0 col, <0 row -1-i

   for(int j = 0; j < n; j++) if(cols[j] == SPxSolver::BASIC) bidx.push_back(j);

   for(int i = 0; i < m; i++) if(rows[i] == SPxSolver::BASIC) bidx.push_back(-1 - i);

   if((int)bidx.size() != m) return false;

   bs.x.assign(n, Rational(0));
   bs.s.assign(m, Rational(0));

   for(int j = 0; j < n; j++)
   {
      if(cols[j] == SPxSolver::ON_LOWER || cols[j] == SPxSolver::FIXED) bs.x[j] = Rational(lp.lo[j]);
      else if(cols[j] == SPxSolver::ON_UPPER) bs.x[j] = Rational(lp.up[j]);
   }

   for(int i = 0; i < m; i++)
   {
      if(rows[i] == SPxSolver::ON_LOWER || rows[i] == SPxSolver::FIXED) bs.s[i] = Rational(lp.lhs[i]);
      else if(rows[i] == SPxSolver::ON_UPPER) bs.s[i] = Rational(lp.rhs[i]);
   }

   // A x - s = 0  ->  B z = -(N part)
   QMat B(m, std::vector<Rational>(m, Rational(0)));
   std::vector<Rational> b(m, Rational(0));

   for(int i = 0; i < m; i++)
   {
      for(int j = 0; j < n; j++)
         if(cols[j] != SPxSolver::BASIC && lp.A[i][j] != 0)
            b[i] -= Rational(lp.A[i][j]) * bs.x[j];

      if(rows[i] != SPxSolver::BASIC)
         b[i] += bs.s[i];
   }

   for(int k = 0; k < m; k++)
   {
      if(bidx[k] >= 0)
         for(int i = 0; i < m; i++) B[i][k] = lp.A[i][bidx[k]];
      else
         B[-1 - bidx[k]][k] = -1;
   }

   std::vector<Rational> z;

   if(!qsolve(B, b, z)) return false;

   for(int k = 0; k < m; k++)
   {
      if(bidx[k] >= 0) bs.x[bidx[k]] = z[k];
      else bs.s[-1 - bidx[k]] = z[k];
   }

   // duals: B^T y = c_B
   QMat BT(m, std::vector<Rational>(m, Rational(0)));
   std::vector<Rational> cb(m, Rational(0));

   for(int k = 0; k < m; k++)
   {
      for(int i = 0; i < m; i++) BT[k][i] = B[i][k];

      if(bidx[k] >= 0) cb[k] = Rational(lp.obj[bidx[k]]);
   }

   if(!qsolve(BT, cb, bs.y)) return false;

   bs.d.assign(n, Rational(0));
   bs.objval = 0;

   for(int j = 0; j < n; j++)
   {
      bs.d[j] = Rational(lp.obj[j]);

      for(int i = 0; i < m; i++)
         if(lp.A[i][j] != 0) bs.d[j] -= Rational(lp.A[i][j]) * bs.y[i];

      bs.objval += Rational(lp.obj[j]) * bs.x[j];
   }

   return true;
}

// ---------- brute force oracle over all bases ----------
// returns 1 optimal (objval set), 2 infeasible, 3 unbounded, 0 = too big / not computed
static inline int bruteForce(const LP& lp, Rational& optval, long maxwork = 400000)
{
   int m = lp.m, n = lp.n, N = n + m;

   // estimate work
   double comb = 1;

   for(int k = 1; k <= m; k++) comb = comb * (N - m + k) / k;

   int nboxed = 0;

   for(int j = 0; j < n; j++) if(lp.lo[j] > -INF && lp.up[j] < INF && lp.lo[j] < lp.up[j]) nboxed++;

   for(int i = 0; i < m; i++) if(lp.lhs[i] > -INF && lp.rhs[i] < INF && lp.lhs[i] < lp.rhs[i]) nboxed++;

   if(comb * std::pow(2.0, std::min(nboxed, n)) > maxwork) return 0;

   bool anyFeas = false, anyOpt = false;
   std::vector<int> pick(N, 0);

   for(int k = 0; k < m; k++) pick[N - 1 - k] = 1;

   // variable k<n: col k ; k>=n: row k-n
   do
   {
      std::vector<VS> rows(m), cols(n);
      std::vector<int> boxed;

      for(int k = 0; k < N; k++)
      {
         double l = k < n ? lp.lo[k] : lp.lhs[k - n];
         double u = k < n ? lp.up[k] : lp.rhs[k - n];
         VS st;

         if(pick[k]) st = SPxSolver::BASIC;
         else if(l <= -INF && u >= INF) st = SPxSolver::ZERO;
         else if(l <= -INF) st = SPxSolver::ON_UPPER;
         else if(u >= INF) st = SPxSolver::ON_LOWER;
         else if(l == u) st = SPxSolver::FIXED;
         else { st = SPxSolver::ON_LOWER; boxed.push_back(k); }

         if(k < n) cols[k] = st;
         else rows[k - n] = st;
      }

      if(!basisNonsingular(lp, rows, cols)) continue;

      int nb = (int)boxed.size();

      for(long mask = 0; mask < (1L << nb); mask++)
      {
         for(int q = 0; q < nb; q++)
         {
            VS st = (mask >> q) & 1 ? SPxSolver::ON_UPPER : SPxSolver::ON_LOWER;

            if(boxed[q] < n) cols[boxed[q]] = st;
            else rows[boxed[q] - n] = st;
         }

         BasicSol bs;

         if(!basicSolution(lp, rows, cols, bs)) break;

         bool pf = true;

         for(int j = 0; j < n && pf; j++)
            if((lp.lo[j] > -INF && bs.x[j] < Rational(lp.lo[j])) || (lp.up[j] < INF && bs.x[j] > Rational(lp.up[j]))) pf = false;

         for(int i = 0; i < m && pf; i++)
            if((lp.lhs[i] > -INF && bs.s[i] < Rational(lp.lhs[i])) || (lp.rhs[i] < INF && bs.s[i] > Rational(lp.rhs[i]))) pf = false;

         if(!pf) continue;

         anyFeas = true;
         // dual feasibility (in min form: multiply by -sense... sense=-1 is min)
         bool df = true;
         int sg = lp.sense < 0 ? 1 : -1; // sg*d >= 0 at lower for min

         for(int j = 0; j < n && df; j++)
         {
            Rational d = bs.d[j] * sg;

            if(cols[j] == SPxSolver::BASIC || cols[j] == SPxSolver::FIXED) continue;

            if(cols[j] == SPxSolver::ON_LOWER && d < 0) df = false;

            if(cols[j] == SPxSolver::ON_UPPER && d > 0) df = false;

            if(cols[j] == SPxSolver::ZERO && d != 0) df = false;
         }

         for(int i = 0; i < m && df; i++)
         {
            Rational d = bs.y[i] * sg; // "reduced cost" of slack s_i in Ax - s = 0 is y_i

            if(rows[i] == SPxSolver::BASIC || rows[i] == SPxSolver::FIXED) continue;

            if(rows[i] == SPxSolver::ON_LOWER && d < 0) df = false;

            if(rows[i] == SPxSolver::ON_UPPER && d > 0) df = false;

            if(rows[i] == SPxSolver::ZERO && d != 0) df = false;
         }

         if(df)
         {
            anyOpt = true;
            optval = bs.objval;
            return 1;
         }
      }
   }
   while(std::next_permutation(pick.begin(), pick.end()));

   if(anyOpt) return 1;

   return anyFeas ? 3 : 2;
}

static inline double q2d(const Rational& q)
{
   return (double)q;
}

#endif
