// reads every given MPS file, writes it in LP format with its names, reads the LP file back with fresh name sets: prints readFile result and name-set sizes
#include "soplex.h"
#include <cstdio>
using namespace soplex;
int main(int argc, char** argv)
{
   for(int a = 1; a < argc; a++)
   {
      SoPlex s; s.setIntParam(SoPlex::VERBOSITY, 0);
      NameSet rn, cn;
      if(!s.readFile(argv[a], &rn, &cn)) { printf("%s: cannot read\n", argv[a]); continue; }
      s.writeFileReal("/tmp/ex/trip.lp", &rn, &cn);
      SoPlex t; t.setIntParam(SoPlex::VERBOSITY, 0);
      NameSet rn2, cn2;
      bool ok = t.readFile("/tmp/ex/trip.lp", &rn2, &cn2);
      printf("%s: readback %d rows %d names %d cols %d names %d\n", argv[a], ok, t.numRows(), rn2.num(), t.numCols(), cn2.num());
   }
   return 0;
}
