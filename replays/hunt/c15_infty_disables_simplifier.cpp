// real:infty = 1e20 (inside its range [1e10,1e100]) silently switches the simplifier off for every floating-point solve:
// solvereal.hpp:87 decides "no objective limits" by comparing objlimit_lower/upper with -/+ realParam(INFTY), but their
// defaults are -/+1e100, so with any infty != 1e100 preprocessing is disabled although int:simplifier still reads 3.
#include "repro_common.h"
static bool simplifierRan(double infty)
{
   SoPlex s;
   std::ostringstream os;
   s.setIntParam(SoPlex::VERBOSITY, 3);
   s.spxout.setStream(SPxOut::INFO1, os);
   if(!s.setRealParam(SoPlex::INFTY, infty)) return false;
   buildBadlyScaledLP(s);
   s.optimize();
   bool ran = os.str().find("Simplifier") != std::string::npos;
   std::cout << "infty=" << s.realParam(SoPlex::INFTY) << " simplifier=" << s.intParam(SoPlex::SIMPLIFIER)
             << " objlimit_lower=" << s.realParam(SoPlex::OBJLIMIT_LOWER) << " objlimit_upper=" << s.realParam(SoPlex::OBJLIMIT_UPPER)
             << "  -> simplifier was run: " << ran << "\n";
   return ran;
}
int main()
{
   bool a = simplifierRan(1e100), b = simplifierRan(1e20);
   if(a && !b) { std::cout << "DEFECT: simplifier parameter is 3 (internal) but the simplifier is not used once infty != 1e100\n"; return 1; }
   return 0;
}
