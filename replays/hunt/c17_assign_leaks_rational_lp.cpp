// Finding 5: operator= leaks the target's rational LP when both objects hold one (SYNCMODE_AUTO / MANUAL):
// soplex.hpp, SoPlexBase<R>::operator=, branch "else" of "if(rhs._rationalLP == nullptr)": _rationalLP is set to nullptr and
// re-allocated without destroying the old object.  valgrind --leak-check=full shows the block allocated in _ensureRationalLP().
// This program assigns repeatedly and watches the resident set size.
#include "soplex.h"
#include <cstdio>
#include <unistd.h>
using namespace soplex;

static long rssKB()
{
   long size = 0, res = 0;
   FILE* f = fopen("/proc/self/statm", "r");
   if(f) { if(fscanf(f, "%ld %ld", &size, &res) != 2) res = 0; fclose(f); }
   return res * (sysconf(_SC_PAGESIZE) / 1024);
}
static void build(SoPlex& s)
{
   s.setIntParam(SoPlex::VERBOSITY, 0);
   s.setIntParam(SoPlex::SYNCMODE, SoPlex::SYNCMODE_AUTO);
   s.addColReal(LPCol(-1.0, DSVector(), 3.0, 0.0));
   s.addColReal(LPCol(-1.0, DSVector(), 3.0, 0.0));
   DSVector r0; r0.add(0, 1.0); r0.add(1, 2.0); s.addRowReal(LPRow(-infinity, r0, 2.0));
   DSVector r1; r1.add(0, 3.0); r1.add(1, 2.0); s.addRowReal(LPRow(-infinity, r1, 4.0));
}
int main()
{
   SoPlex A, B;
   build(A); build(B);
   for(int i = 0; i < 200; i++) B = A;   // warm up allocator
   long before = rssKB();
   for(int i = 0; i < 5000; i++) B = A;
   long after = rssKB();
   printf("resident set: %ld KB before, %ld KB after 5000 assignments B = A\n", before, after);
   bool bad = after - before > 10000;
   printf(bad ? "DEFECT: every assignment leaks the target's rational LP (about 8 KB here)\n" : "ok\n");
   return bad ? 1 : 0;
}
