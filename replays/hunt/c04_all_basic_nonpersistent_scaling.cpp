// repro_1: after an INFEASIBLE (also UNBOUNDED / aborted) solve with a scaler, PERSISTENTSCALING=false and
// SIMPLIFIER_OFF, hasBasis() is true but every row and every column is reported BASIC (4 basic variables for 2 rows);
// with REPRESENTATION_ROW getBasisInd() then aborts in assert(k == numRows()) (soplex.hpp:4611).
// usage: repro_1 [rep]   (rep = 1 column (default), 2 row -> assertion failure)
// exit code 1 if the defect shows (or abort by assertion)
#include "soplex.h"
#include <cstdio>
using namespace soplex;
int main(int argc, char** argv)
{
   int rep = argc > 1 ? atoi(argv[1]) : 1;
   SoPlex s;
   s.setIntParam(SoPlex::VERBOSITY, 0);
   s.setIntParam(SoPlex::REPRESENTATION, rep);
   s.setIntParam(SoPlex::SCALER, SoPlex::SCALER_BIEQUI);         // the default scaler
   s.setBoolParam(SoPlex::PERSISTENTSCALING, false);
   s.setIntParam(SoPlex::SIMPLIFIER, SoPlex::SIMPLIFIER_OFF);
   // max x + y  s.t.  x + y >= 2,  x + y <= 1,  x, y >= 0    (infeasible)
   DSVector d(0);
   s.addColReal(LPCol(1.0, d, infinity, 0.0));
   s.addColReal(LPCol(1.0, d, infinity, 0.0));
   DSVector r(2);
   r.add(0, 1.0);
   r.add(1, 1.0);
   s.addRowReal(LPRow(2.0, r, infinity));
   s.addRowReal(LPRow(-infinity, r, 1.0));
   SPxSolver::Status st = s.optimize();
   SPxSolver::VarStatus rows[2], cols[2];
   s.getBasis(rows, cols);
   int nb = 0;

   for(int i = 0; i < 2; i++)
      nb += (rows[i] == SPxSolver::BASIC) + (cols[i] == SPxSolver::BASIC);

   printf("status %d hasBasis %d  rows %d %d cols %d %d  (4 = BASIC)  #basic %d, numRows 2\n", (int)st,
          (int)s.hasBasis(), rows[0], rows[1], cols[0], cols[1], nb);
   int bind[2];
   s.getBasisInd(bind); // aborts for rep == 2
   printf("getBasisInd: %d %d\n", bind[0], bind[1]);
   return (s.hasBasis() && nb != 2) ? 1 : 0;
}
