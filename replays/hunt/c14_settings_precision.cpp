// Finding 1: saveSettingsFile / writeStateReal write real parameters with 9 significant digits only,
// so a non-default real parameter is not reproduced by loadSettingsFile.
#include "soplex.h"
#include <iostream>
#include <cstdio>
using namespace soplex;
int main()
{
   SoPlex s;
   s.setIntParam(SoPlex::VERBOSITY, 0);
   double v = 1.0 / 3.0 * 1e-6;          // 3.3333333333333335e-07, inside the range of feastol
   s.setRealParam(SoPlex::FEASTOL, v);
   s.setRealParam(SoPlex::SPARSITY_THRESHOLD, 0.123456789012345);
   DSVector e(0);
   s.addColReal(LPCol(1.0, e, 1.0, 0.0));
   s.writeStateReal("repro_1_state", nullptr, nullptr, false, true);   // writes repro_1_state.set/.mps/.bas
   SoPlex t;
   t.setIntParam(SoPlex::VERBOSITY, 0);
   bool ok = t.loadSettingsFile("repro_1_state.set");
   printf("load ok=%d\nfeastol   saved %.17g restored %.17g\nsparsity  saved %.17g restored %.17g\n", ok,
          s.realParam(SoPlex::FEASTOL), t.realParam(SoPlex::FEASTOL),
          s.realParam(SoPlex::SPARSITY_THRESHOLD), t.realParam(SoPlex::SPARSITY_THRESHOLD));
   bool same = ok && s.realParam(SoPlex::FEASTOL) == t.realParam(SoPlex::FEASTOL)
               && s.realParam(SoPlex::SPARSITY_THRESHOLD) == t.realParam(SoPlex::SPARSITY_THRESHOLD);
   printf(same ? "OK\n" : "DEFECT: real parameters not reproduced exactly\n");
   return same ? 0 : 1;
}
