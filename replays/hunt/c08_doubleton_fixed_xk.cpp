// C08 finding 5: DoubletonEquationPS leaves a variable FIXED whose binding bound was only inherited from the column
// singleton; the following AggregationPS then produces status ZERO for a free variable with value -2 and reduced cost 2.
//   max -2 x1   s.t.  -3 x0 - x2 = 6,   -3 x0 + 3 x1 - 2 x2 = -3,   x0 free, x1 >= -3, x2 <= 0     optimum 6 at (-2,-3,0)
// Presolve solves the LP outright (VANISHED); the reconstructed primal is right, the dual / basis are not.
// (SoPlex::optimize() notices the violation in _verifySolutionReal and silently solves again without presolve.)
#include "repro_common.h"
int main()
{
   DenseLP p;
   p.maximize = true; p.n = 3; p.m = 2;
   p.c = {0, -2, 0};
   p.lo = {-infinity, -3, -infinity};
   p.up = {infinity, infinity, 0};
   p.lhs = {6, -3};
   p.rhs = {6, -3};
   p.A = {{-3, 0, -1}, {-3, 3, -2}};
   SPxOut out; out.setVerbosity(SPxOut::ERROR);
   auto tol = std::make_shared<Tolerances>();
   SPxLPBase<double> lp; lp.setOutstream(out); lp.setTolerances(tol);
   build(p, lp);
   SPxMainSM<double> sm; sm.setTolerances(tol); sm.setOutstream(out);
   SPxSimplifier<double>::Result res = sm.simplify(lp, 1e20, false, 0);
   printf("simplify -> %d (4 = VANISHED), offset %g\n", (int)res, sm.getObjoffset());
   if(res != SPxSimplifier<double>::VANISHED) { printf("unexpected simplifier result\n"); return 2; }
   VectorBase<double> x(p.n), r(p.n), s(p.m), y(p.m);
   x.clear(); r.clear(); s.clear(); y.clear();
   VS rows[2] = {SPxSolverBase<double>::BASIC, SPxSolverBase<double>::BASIC};
   VS cols[3] = {SPxSolverBase<double>::ZERO, SPxSolverBase<double>::ON_LOWER, SPxSolverBase<double>::ON_UPPER};
   sm.unsimplify(x, y, s, r, rows, cols, true);
   int bad = report(p, sm);
   printf("%d violated conditions\n", bad);
   return bad ? 1 : 0;
}
