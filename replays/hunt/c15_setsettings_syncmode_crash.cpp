// setSettings() with a Settings object whose syncmode is AUTO, on a solver whose syncmode is ONLYREAL (default):
// the rational LP is never created -> assertion `_rationalLP != nullptr' (segfault without assertions).
#include "repro_common.h"
int main()
{
   SoPlex a, donor;
   a.setIntParam(SoPlex::VERBOSITY, 0);
   buildLP(a);
   donor.setIntParam(SoPlex::SYNCMODE, SoPlex::SYNCMODE_AUTO);          // fine on its own
   std::cout << "calling a.setSettings(donor.settings()) ..." << std::endl;
   bool ok = a.setSettings(donor.settings());                          // aborts here (via setRealParam(INFTY))
   std::cout << "setSettings returned " << ok << ", syncmode = " << a.intParam(SoPlex::SYNCMODE) << std::endl;
   // the equivalent typed call a.setIntParam(SYNCMODE, SYNCMODE_AUTO) creates and fills the rational LP
   std::cout << "rational LP rows: " << a.numRowsRational() << " (expected 2)" << std::endl;
   return a.numRowsRational() == 2 ? 0 : 1;
}
