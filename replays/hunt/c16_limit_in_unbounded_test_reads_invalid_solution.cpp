// repro_1: exact (rational) solve stopped by the iteration limit (or a zero time limit) while the simplifier is on
// indexes a rational solution vector out of range (assertion in vectorbase.h:278; heap overflow without assertions).
//   min -5x + 4y  s.t.  5x - 2y >= -3, x,y >= 0    (unbounded)
// exits non-zero (abort) when the defect shows
#include "soplex.h"
#include <iostream>
using namespace soplex;
int main(int argc, char** argv)
{
   SoPlex s;
   s.setIntParam(SoPlex::VERBOSITY, argc > 1 ? atoi(argv[1]) : 0);
   s.setIntParam(SoPlex::SOLVEMODE, SoPlex::SOLVEMODE_RATIONAL);
   s.setIntParam(SoPlex::SYNCMODE, SoPlex::SYNCMODE_AUTO);
   s.setIntParam(SoPlex::READMODE, SoPlex::READMODE_RATIONAL);
   s.setIntParam(SoPlex::CHECKMODE, SoPlex::CHECKMODE_RATIONAL);
   s.setRealParam(SoPlex::FEASTOL, 0.0);
   s.setRealParam(SoPlex::OPTTOL, 0.0);
   s.setIntParam(SoPlex::SIMPLIFIER, SoPlex::SIMPLIFIER_AUTO);   // default
   s.setIntParam(SoPlex::OBJSENSE, SoPlex::OBJSENSE_MINIMIZE);
   DSVector dummy(0);
   s.addColReal(LPCol(-5.0, dummy, infinity, 0.0));
   s.addColReal(LPCol(4.0, dummy, infinity, 0.0));
   DSVector r(2);
   r.add(0, 5.0);
   r.add(1, -2.0);
   s.addRowReal(LPRow(-3.0, r, infinity));
   s.setIntParam(SoPlex::ITERLIMIT, 0);
   SPxSolver::Status st = s.optimize();   // assertion `n >= 0 && n < dim()' fails here
   std::cout << "status with ITERLIMIT=0: " << st << "\n";
   if(st != SPxSolver::ABORT_ITER) return 1;
   s.setIntParam(SoPlex::ITERLIMIT, -1);
   st = s.optimize();
   std::cout << "status after lifting the limit: " << st << "\n";
   return st == SPxSolver::UNBOUNDED ? 0 : 1;
}
