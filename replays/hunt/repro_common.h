// shared helper for the repro_<n>.cpp programs: dense LP description, loading through the public API,
// and an explicit primal-dual certificate check in the user's problem space.
#ifndef REPRO_COMMON_H
#define REPRO_COMMON_H
#include "soplex.h"
#include <vector>
#include <cstdio>
#include <cmath>
using namespace soplex;
static const double INF = 1e100;
struct DenseLP
{
   int m, n, sense; // sense +1 min, -1 max
   double offset;
   std::vector<std::vector<double>> A;
   std::vector<double> lhs, rhs, lo, up, c;
};
static inline bool fin(double v) { return std::fabs(v) < 1e99; }
// build 1: empty columns one by one, then rows one by one; build 2: LPColSet / LPRowSet in one call each
static void loadLP(SoPlex& sp, const DenseLP& lp, int build = 1)
{
   sp.setIntParam(SoPlex::OBJSENSE, lp.sense > 0 ? SoPlex::OBJSENSE_MINIMIZE : SoPlex::OBJSENSE_MAXIMIZE);
   sp.setRealParam(SoPlex::OBJ_OFFSET, lp.offset);
   DSVector e(0);
   if(build == 2)
   {
      LPColSet cs;
      for(int j = 0; j < lp.n; j++) cs.add(lp.c[j], lp.lo[j], e, lp.up[j]);
      sp.addColsReal(cs);
      LPRowSet rs;
      for(int i = 0; i < lp.m; i++)
      {
         DSVector v(lp.n);
         for(int j = 0; j < lp.n; j++) if(lp.A[i][j] != 0) v.add(j, lp.A[i][j]);
         rs.add(lp.lhs[i], v, lp.rhs[i]);
      }
      sp.addRowsReal(rs);
      return;
   }
   for(int j = 0; j < lp.n; j++) sp.addColReal(LPCol(lp.c[j], e, lp.up[j], lp.lo[j]));
   for(int i = 0; i < lp.m; i++)
   {
      DSVector v(lp.n);
      for(int j = 0; j < lp.n; j++) if(lp.A[i][j] != 0) v.add(j, lp.A[i][j]);
      sp.addRowReal(LPRow(lp.lhs[i], v, lp.rhs[i]));
   }
}
// returns number of violations of the certificate / basis; prints them
static int checkOptimal(SoPlex& sp, const DenseLP& lp, double trueopt, bool checkBasis = true)
{
   int bad = 0;
   const double tol = 1e-6;
   int m = lp.m, n = lp.n;
   VectorReal x(n), s(m), y(m), d(n);
   if(!sp.getPrimal(x) || !sp.getSlacksReal(s) || !sp.getDual(y) || !sp.getRedCost(d)) { printf("getter failed\n"); return 1; }
   double cx = lp.offset;
   for(int j = 0; j < n; j++)
   {
      cx += lp.c[j] * x[j];
      if(fin(lp.lo[j]) && x[j] < lp.lo[j] - tol) { printf("x%d=%g < lower %g\n", j, x[j], lp.lo[j]); bad++; }
      if(fin(lp.up[j]) && x[j] > lp.up[j] + tol) { printf("x%d=%g > upper %g\n", j, x[j], lp.up[j]); bad++; }
   }
   if(std::fabs(cx - sp.objValueReal()) > tol * (1 + std::fabs(cx))) { printf("objValue %g != c.x+offset %g\n", sp.objValueReal(), cx); bad++; }
   if(std::fabs(trueopt - sp.objValueReal()) > 1e-5 * (1 + std::fabs(cx))) { printf("objValue %g != true optimum %g\n", sp.objValueReal(), trueopt); bad++; }
   for(int i = 0; i < m; i++)
   {
      double act = 0;
      for(int j = 0; j < n; j++) act += lp.A[i][j] * x[j];
      if(std::fabs(act - s[i]) > tol * (1 + std::fabs(act))) { printf("slack%d=%g != row activity %g\n", i, s[i], act); bad++; }
      if(fin(lp.lhs[i]) && act < lp.lhs[i] - tol) { printf("row%d activity %g < lhs %g\n", i, act, lp.lhs[i]); bad++; }
      if(fin(lp.rhs[i]) && act > lp.rhs[i] + tol) { printf("row%d activity %g > rhs %g\n", i, act, lp.rhs[i]); bad++; }
      double ym = y[i] * lp.sense;
      if(ym > tol && !(fin(lp.lhs[i]) && act - lp.lhs[i] <= 10 * tol)) { printf("dual%d=%g has wrong sign / row not at lhs\n", i, y[i]); bad++; }
      if(ym < -tol && !(fin(lp.rhs[i]) && lp.rhs[i] - act <= 10 * tol)) { printf("dual%d=%g has wrong sign / row not at rhs\n", i, y[i]); bad++; }
   }
   for(int j = 0; j < n; j++)
   {
      double rc = lp.c[j];
      for(int i = 0; i < m; i++) rc -= y[i] * lp.A[i][j];
      if(std::fabs(rc - d[j]) > tol * (1 + std::fabs(rc))) { printf("redcost%d=%g != c - A'y = %g\n", j, d[j], rc); bad++; }
      double dm = d[j] * lp.sense;
      if(dm > tol && !(fin(lp.lo[j]) && x[j] - lp.lo[j] <= 10 * tol)) { printf("redcost%d=%g wrong sign / col not at lower\n", j, d[j]); bad++; }
      if(dm < -tol && !(fin(lp.up[j]) && lp.up[j] - x[j] <= 10 * tol)) { printf("redcost%d=%g wrong sign / col not at upper\n", j, d[j]); bad++; }
   }
   if(checkBasis)
   {
      if(!sp.hasBasis()) { printf("OPTIMAL without basis\n"); return bad + 1; }
      int nb = 0;
      for(int j = 0; j < n; j++)
      {
         auto b = sp.basisColStatus(j);
         if(b == SPxSolver::BASIC) nb++;
         else if(b == SPxSolver::ON_LOWER && !(fin(lp.lo[j]) && std::fabs(x[j] - lp.lo[j]) <= 1e-5)) { printf("col%d is ON_LOWER in the basis but x=%g, lower=%g\n", j, x[j], lp.lo[j]); bad++; }
         else if(b == SPxSolver::ON_UPPER && !(fin(lp.up[j]) && std::fabs(x[j] - lp.up[j]) <= 1e-5)) { printf("col%d is ON_UPPER in the basis but x=%g, upper=%g\n", j, x[j], lp.up[j]); bad++; }
         else if(b == SPxSolver::ZERO && !(std::fabs(x[j]) <= 1e-5)) { printf("col%d is nonbasic ZERO in the basis but x=%g\n", j, x[j]); bad++; }
      }
      for(int i = 0; i < m; i++)
      {
         auto b = sp.basisRowStatus(i);
         if(b == SPxSolver::BASIC) nb++;
         else if(b == SPxSolver::ON_LOWER && !(fin(lp.lhs[i]) && std::fabs(s[i] - lp.lhs[i]) <= 1e-5)) { printf("row%d is ON_LOWER in the basis but slack=%g, lhs=%g\n", i, s[i], lp.lhs[i]); bad++; }
         else if(b == SPxSolver::ON_UPPER && !(fin(lp.rhs[i]) && std::fabs(s[i] - lp.rhs[i]) <= 1e-5)) { printf("row%d is ON_UPPER in the basis but slack=%g, rhs=%g\n", i, s[i], lp.rhs[i]); bad++; }
      }
      if(nb != m) { printf("basis has %d BASIC variables but the LP has %d rows\n", nb, m); bad++; }
   }
   return bad;
}
#endif
