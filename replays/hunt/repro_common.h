// shared by the reproducers: a tiny LP   max x+y  s.t. x+2y<=4, 3x+y<=6, x,y>=0   (optimum 2.8)
#include "soplex.h"
#include <iostream>
#include <sstream>
#include <cmath>
using namespace soplex;
static void buildLP(SoPlex& s)
{
   s.setIntParam(SoPlex::OBJSENSE, SoPlex::OBJSENSE_MAXIMIZE);
   DSVector d(0);
   s.addColReal(LPCol(1.0, d, infinity, 0.0));
   s.addColReal(LPCol(1.0, d, infinity, 0.0));
   DSVector r1(2); r1.add(0, 1.0); r1.add(1, 2.0);
   s.addRowReal(LPRow(-infinity, r1, 4.0));
   DSVector r2(2); r2.add(0, 3.0); r2.add(1, 1.0);
   s.addRowReal(LPRow(-infinity, r2, 6.0));
}
// badly scaled 4x4 LP (min), used to make scaler / simplifier activity visible in the log
static void buildBadlyScaledLP(SoPlex& s)
{
   s.setIntParam(SoPlex::OBJSENSE, SoPlex::OBJSENSE_MINIMIZE);
   DSVector d(0);
   for(int j = 0; j < 4; j++) s.addColReal(LPCol(1.0 + j, d, infinity, 0.0));
   double A[4][4] = {{1, 1000, 0, 3}, {0.001, 2, 50, 0}, {7, 0, 0.03, 900}, {20, 0.5, 1, 1}};
   for(int i = 0; i < 4; i++)
   {
      DSVector r(4);
      for(int j = 0; j < 4; j++) if(A[i][j] != 0) r.add(j, A[i][j]);
      s.addRowReal(LPRow(1.0 + i, r, infinity));
   }
}
