// C08 finding 1: the simplifier declares an LP with a finite optimum UNBOUNDED; SoPlex::optimize() with default
// parameters answers INForUNBD ("infeasible or unbounded") for an LP whose optimal value is -6.
//   min 3 x0 - 2 x1 + 2 x2   s.t.  -3 x0 + x1 + x2 <= 9,   x1 - 3 x2 = -3,   x0 free, x1, x2 >= 0
// (every feasible point with x0 = (x1 + x2 - 9) / 3 has objective -6; the objective is bounded below by -6)
#include <cstdio>
#include <cmath>
#include "soplex.h"
using namespace soplex;
int main()
{
   SoPlex sp;
   sp.setIntParam(SoPlex::VERBOSITY, 0);
   sp.setIntParam(SoPlex::OBJSENSE, SoPlex::OBJSENSE_MINIMIZE);
   DSVector e(0);
   sp.addColReal(LPCol(3.0, e, infinity, -infinity));
   sp.addColReal(LPCol(-2.0, e, infinity, 0.0));
   sp.addColReal(LPCol(2.0, e, infinity, 0.0));
   DSVector r0(3), r1(3);
   r0.add(0, -3.0); r0.add(1, 1.0); r0.add(2, 1.0);
   r1.add(1, 1.0); r1.add(2, -3.0);
   sp.addRowReal(LPRow(-infinity, r0, 9.0));
   sp.addRowReal(LPRow(-3.0, r1, -3.0));
   SPxSolver::Status st = sp.optimize();
   printf("simplifier on : status %d (1 = OPTIMAL, 4 = INForUNBD)\n", (int)st);
   SoPlex sp2;
   sp2.setIntParam(SoPlex::VERBOSITY, 0);
   sp2.setIntParam(SoPlex::OBJSENSE, SoPlex::OBJSENSE_MINIMIZE);
   sp2.setIntParam(SoPlex::SIMPLIFIER, SoPlex::SIMPLIFIER_OFF);
   sp2.addColReal(LPCol(3.0, e, infinity, -infinity));
   sp2.addColReal(LPCol(-2.0, e, infinity, 0.0));
   sp2.addColReal(LPCol(2.0, e, infinity, 0.0));
   sp2.addRowReal(LPRow(-infinity, r0, 9.0));
   sp2.addRowReal(LPRow(-3.0, r1, -3.0));
   SPxSolver::Status st2 = sp2.optimize();
   printf("simplifier off: status %d objective %g\n", (int)st2, sp2.objValueReal());
   if(st != SPxSolver::OPTIMAL || std::fabs(sp.objValueReal() + 6.0) > 1e-6)
   {
      printf("DEFECT: LP has optimal value -6 but optimize() with the simplifier returned status %d\n", (int)st);
      return 1;
   }
   return 0;
}
