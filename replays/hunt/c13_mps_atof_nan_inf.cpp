// Finding 7: the real-mode MPS reader converts every numeric field with atof() and never validates the result
// (spxlpbase_real.hpp MPSreadCols 1642/1658, MPSreadRhs 1729/1746, MPSreadRanges 1818/1848, MPSreadBounds 1948).
// So "nan" gives a NaN matrix coefficient / right-hand side / objective / bound, "inf" / "infinity" a true IEEE
// infinity (not the solver's 1e100) as a matrix coefficient, "0x1p3" is a hex float, and any non-number ("abc") is
// silently 0.  readFile() returns true; the LP it leaves behind is not a usable LP: every solve of it dies on an
// assertion, e.g.
//   nan_coef.mps       spxmainsm.hpp:2755 simplifyRows: Assertion `isNotZero(aij, R(1.0 / R(infinity)))'
//                      (simplifier off: spxboundflippingrt.hpp:408 Assertion `curVal > 0')
//   nan_rhs.mps        spxvecs.hpp:147 computeFrhs: Assertion `lhs(i) <= -infinity && rhs(i) >= infinity'
//   nan_obj_bound.mps  spxmainsm.hpp:4101 multiaggregation / spxquality.hpp:82 qualBoundViolation
//   inf_coef.mps       spxmainsm.hpp:4348 duplicateRows
// (The LP-format reader scans digits itself and is not affected; the rational MPS reader warns "malformed rational
// value" and then goes on with the PREVIOUS value of the variable - also a silent success.)
//
// exit code: 1 if readFile returned true and NaN/inf is found in the LP (then a solve is attempted: abort 134)
#include "soplex.h"
#include <cstdio>
#include <cmath>
using namespace soplex;
int main()
{
   const char* fn = "/tmp/hunt/C13/inputs/nan_coef.mps";
   FILE* f = fopen(fn, "w");
   fputs("NAME t\nROWS\n N obj\n G r1\n L r2\nCOLUMNS\n x obj 1 r1 1\n x r2 nan\n y obj 1 r1 inf\n y r2 abc\n"
         "RHS\n RHS r1 1 r2 nan\nBOUNDS\n UP BND y nan\nENDATA\n", f);
   fclose(f);
   SoPlex s;
   s.setIntParam(SoPlex::VERBOSITY, 0);
   bool ok = s.readFile(fn);
   printf("readFile=%d rows=%d cols=%d nnz=%d\n", ok, s.numRows(), s.numCols(), s.numNonzeros());
   int bad = 0;

   for(int i = 0; ok && i < s.numRows(); i++)
   {
      DSVector r;
      s.getRowVectorReal(i, r);
      printf(" row %d: lhs %g rhs %g :", i, s.lhsReal(i), s.rhsReal(i));

      for(int k = 0; k < r.size(); k++)
      {
         printf(" %g*x%d", r.value(k), r.index(k));
         bad |= !std::isfinite(r.value(k));
      }

      printf("\n");
      bad |= std::isnan(s.lhsReal(i)) || std::isnan(s.rhsReal(i));
   }

   for(int j = 0; ok && j < s.numCols(); j++)
   {
      printf(" col %d: [%g, %g] obj %g\n", j, s.lowerReal(j), s.upperReal(j), s.objReal(j));
      bad |= std::isnan(s.lowerReal(j)) || std::isnan(s.upperReal(j)) || std::isnan(s.objReal(j));
   }

   if(bad)
   {
      fflush(stdout);
      SPxSolver::Status st = s.optimize();     // <- assertion
      printf("status %d\n", (int)st);
   }

   return bad;
}
