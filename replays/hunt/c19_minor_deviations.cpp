// Minor deviations, one program:
//  (a) SVector::scaleAssign() copies the scaled nonzeros but never sets size()
//  (b) SVSet copy / assignment renumbers the DataKeys when the source holds only empty vectors in packed memory,
//      while it preserves them in every other case (as DataSet documents for assignment)
//  (c) ClassSet<T>::operator= MOVES the elements out of its const right hand side
//  (e) SSVector::setValue(i, x) with 0 < |x| <= epsilon on a setup vector stores x without registering index i;
//      the vector claims to be setup although a nonzero is missing from its index set, and clear() leaves x behind
//  (d) [only with -DNDEBUG, otherwise it does not compile] IdList::remove(sublist) at the tail leaves all but one
//      element of the sublist in the list and never repairs prev() pointers
// exit code: number of deviations seen
#include <iostream>
#include <string>
#include "soplex.h"
using namespace soplex;
struct P
{
   int v;
};
int main()
{
   int bad = 0;
   {
      DSVector a(4), b(4);
      a.add(0, 1.0);
      a.add(2, 3.0);
      b.scaleAssign(1, a);
      std::cout << "(a) scaleAssign: size() = " << b.size() << " expected 2" << std::endl;
      bad += b.size() != 2;
   }
   {
      SVSet s;
      DSVector e;
      DataKey k0, k1;
      s.add(k0, e);
      s.add(k1, e);
      s.remove(k0);                    // the remaining vector keeps key 1
      s.memPack();                     // nonzero memory now empty
      SVSet t;
      t = s;
      std::cout << "(b) key of the only vector: source " << s.key(0).idx << " copy " << t.key(0).idx << std::endl;
      bad += s.key(0).idx != t.key(0).idx;
   }
   {
      ClassSet<std::string> s(8), t(8);
      DataKey k;
      s.add(k, std::string("a string that is too long for the small string optimisation"));
      const ClassSet<std::string>& cs = s;
      t = cs;
      std::cout << "(c) source element after 't = s': '" << s[0] << "'" << std::endl;
      bad += s[0].empty();
   }
   {
      auto tol = std::make_shared<Tolerances>();
      SSVector x(4, tol);
      x.setValue(2, 1e-20);
      x.clear();
      std::cout << "(e) x[2] after setValue(2, 1e-20); clear(): " << x[2] << " (expected 0)" << std::endl;
      bad += x[2] != 0.0;
   }
#ifdef NDEBUG
   {
      typedef IdElement<P> E;
      E e[5];
      IdList<E> l;

      for(int i = 0; i < 5; i++)
      {
         e[i].v = i;
         l.append(&e[i]);
      }

      IdList<E> sub(&e[3], &e[4]);
      l.remove(sub);
      std::cout << "(d) after removing the sublist (3,4) from 0..4: length " << l.length() << " last " << l.last()->v
                << " (expected 3, 2)" << std::endl;
      bad += l.length() != 3;
      IdList<E> l2;
      E f[5];

      for(int i = 0; i < 5; i++)
      {
         f[i].v = i;
         l2.append(&f[i]);
      }

      IdList<E> sub2(&f[1], &f[2]);
      l2.remove(sub2);
      std::cout << "(d) after removing the sublist (1,2): prev(3) = " << l2.prev(&f[3])->v << " (expected 0)" << std::endl;
      bad += l2.prev(&f[3])->v != 0;
   }
#endif
   std::cout << bad << " deviations" << std::endl;
   return bad;
}
