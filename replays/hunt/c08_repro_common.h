// helpers shared by the C08 reproducers that drive SPxMainSM directly (as SoPlex::_preprocessAndSolveReal does)
#pragma once
#include <cstdio>
#include <cmath>
#include <vector>
#include <memory>
#include "soplex.h"
#include "soplex/spxmainsm.h"
using namespace soplex;
typedef SPxSolverBase<double>::VarStatus VS;

static const char* vsName(VS v)
{
   switch(v)
   {
   case SPxSolverBase<double>::ON_UPPER: return "ON_UPPER";
   case SPxSolverBase<double>::ON_LOWER: return "ON_LOWER";
   case SPxSolverBase<double>::FIXED: return "FIXED";
   case SPxSolverBase<double>::ZERO: return "ZERO";
   case SPxSolverBase<double>::BASIC: return "BASIC";
   default: return "UNDEFINED";
   }
}

struct DenseLP
{
   bool maximize;
   int n, m;
   std::vector<double> c, lo, up, lhs, rhs;
   std::vector<std::vector<double>> A;
};

static void build(const DenseLP& p, SPxLPBase<double>& lp)
{
   lp.changeSense(p.maximize ? SPxLPBase<double>::MAXIMIZE : SPxLPBase<double>::MINIMIZE);
   DSVectorBase<double> e(0);
   for(int j = 0; j < p.n; j++) lp.addCol(LPColBase<double>(p.c[j], e, p.up[j], p.lo[j]));
   for(int i = 0; i < p.m; i++)
   {
      DSVectorBase<double> r(p.n);
      for(int j = 0; j < p.n; j++) if(p.A[i][j] != 0) r.add(j, p.A[i][j]);
      lp.addRow(LPRowBase<double>(p.lhs[i], r, p.rhs[i]));
   }
}

// prints the postsolved solution and returns the number of violated optimality / basis conditions (tolerance 1e-6)
static int report(const DenseLP& p, SPxMainSM<double>& sm)
{
   const double tol = 1e-6;
   const VectorBase<double>& x = sm.unsimplifiedPrimal();
   const VectorBase<double>& r = sm.unsimplifiedRedCost();
   const VectorBase<double>& s = sm.unsimplifiedSlacks();
   const VectorBase<double>& y = sm.unsimplifiedDual();
   int bad = 0, nbasic = 0;
   double sg = p.maximize ? -1.0 : 1.0;
   for(int j = 0; j < p.n; j++)
   {
      VS st = sm.getBasisColStatus(j);
      printf("  x%d = %-10g redcost %-10g %-8s bounds [%g, %g]\n", j, x[j], r[j], vsName(st), p.lo[j], p.up[j]);
      if(st == SPxSolverBase<double>::BASIC) nbasic++;
      double d = sg * r[j];
      if(d > tol && std::fabs(x[j] - p.lo[j]) > tol) { printf("    -> reduced cost asks for the lower bound, x is not there\n"); bad++; }
      if(d < -tol && std::fabs(x[j] - p.up[j]) > tol) { printf("    -> reduced cost asks for the upper bound, x is not there\n"); bad++; }
      if(st == SPxSolverBase<double>::FIXED && p.lo[j] != p.up[j]) { printf("    -> status FIXED but bounds differ\n"); bad++; }
      if(st == SPxSolverBase<double>::ZERO && (std::fabs(x[j]) > tol || p.lo[j] > -infinity || p.up[j] < infinity)) { printf("    -> status ZERO on a bounded or nonzero variable\n"); bad++; }
      if(st == SPxSolverBase<double>::ON_LOWER && std::fabs(x[j] - p.lo[j]) > tol) { printf("    -> status ON_LOWER, x not at lower\n"); bad++; }
      if(st == SPxSolverBase<double>::ON_UPPER && std::fabs(x[j] - p.up[j]) > tol) { printf("    -> status ON_UPPER, x not at upper\n"); bad++; }
      if(x[j] < p.lo[j] - tol || x[j] > p.up[j] + tol) { printf("    -> bound violated\n"); bad++; }
   }
   for(int i = 0; i < p.m; i++)
   {
      VS st = sm.getBasisRowStatus(i);
      double act = 0;
      for(int j = 0; j < p.n; j++) act += p.A[i][j] * x[j];
      printf("  row%d activity %-10g dual %-10g %-8s sides [%g, %g]\n", i, s[i], y[i], vsName(st), p.lhs[i], p.rhs[i]);
      if(st == SPxSolverBase<double>::BASIC) nbasic++;
      double d = sg * y[i];
      if(std::fabs(act - s[i]) > tol) { printf("    -> slack differs from A x = %g\n", act); bad++; }
      if(act < p.lhs[i] - tol || act > p.rhs[i] + tol) { printf("    -> row violated\n"); bad++; }
      if(d > tol && std::fabs(act - p.lhs[i]) > tol) { printf("    -> dual asks for the left-hand side, row is not there\n"); bad++; }
      if(d < -tol && std::fabs(act - p.rhs[i]) > tol) { printf("    -> dual asks for the right-hand side, row is not there\n"); bad++; }
   }
   for(int j = 0; j < p.n; j++)
   {
      double rc = p.c[j];
      for(int i = 0; i < p.m; i++) rc -= p.A[i][j] * y[i];
      if(std::fabs(rc - r[j]) > tol) { printf("  -> redcost of x%d differs from c - A'y = %g\n", j, rc); bad++; }
   }
   if(nbasic != p.m) { printf("  -> %d basic variables for %d rows\n", nbasic, p.m); bad++; }
   return bad;
}
