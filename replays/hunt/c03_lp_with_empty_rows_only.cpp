// LP with a row but no nonzero at all:   min x   s.t.  0*x <= 1,  x free   (true status: UNBOUNDED)
// exact solve with default options -> assertion `i >= 0 && i < nRows()' in _untransformFeasibility (asserts on),
// segmentation fault / garbage without assertions.
#include "exact_common.h"
int main(int argc, char** argv)
{
   SoPlex sp;
   exactSettings(sp, argc > 1);
   Q inf(infinity);
   DSVectorRational e(0);
   sp.addColRational(LPColRational(Q(1), e, inf, -inf));
   sp.addRowRational(LPRowRational(-inf, e, Q(1)));
   SPxSolver::Status st = sp.optimize();
   std::cout << "status " << st << " (expected UNBOUNDED = " << SPxSolver::UNBOUNDED << ")\n";
   VectorRational d(1);
   if(st != SPxSolver::UNBOUNDED || !sp.getPrimalRayRational(d) || !(d[0] < 0)) return 1;
   return 0;
}
