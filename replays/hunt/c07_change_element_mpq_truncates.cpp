// Finding 2: changeElementRational(i, j, const mpq_t*) converts with mpq_get_d (truncation), every other path
// converts with R(Rational) (round to nearest): the real LP is not the floating-point image of the rational LP.
#include "soplex.h"
#include <iostream>
using namespace soplex;
int main()
{
   SoPlex s;
   s.setIntParam(SoPlex::VERBOSITY, 0);
   s.setIntParam(SoPlex::SYNCMODE, SoPlex::SYNCMODE_AUTO);
   DSVectorReal r(1);
   r.add(0, 1.0);
   s.addColReal(LPColReal(1.0, DSVectorReal(), 1.0, 0.0));
   s.addRowReal(LPRowReal(0.0, r, 1.0));
   Rational q(9);
   q /= 10;
   s.changeElementRational(0, 0, q);
   double viaRational = s.coefReal(0, 0);
   mpq_t v;
   mpq_init(v);
   mpq_set_si(v, 9, 10);
   s.changeElementRational(0, 0, &v);
   double viaMpq = s.coefReal(0, 0);
   std::cout.precision(17);
   std::cout << "rational LP: " << s.rowVectorRational(0).value(0) << "\n"
             << "real LP after changeElementRational(Rational 9/10): " << viaRational << "\n"
             << "real LP after changeElementRational(mpq_t   9/10): " << viaMpq << "\n"
             << "double(9/10) = " << double(q) << "\n";
   return (viaMpq == double(q) && viaMpq == viaRational) ? 0 : 1;
}
