// Variant of /tmp/hunt/C15/repro_5.cpp: the original evaluates status() only AFTER the re-solve, so it also reports a
// defect when the solution was correctly invalidated (objValueReal() == 0 without a solution).  Here status and value are
// captured directly after setRealParam(OBJ_OFFSET): either the solution is invalidated or the value is the new optimum.
#include "repro_common.h"
int main()
{
   SoPlex s;
   s.setIntParam(SoPlex::VERBOSITY, 0);
   buildLP(s);
   s.optimize();
   double v0 = s.objValueReal();
   s.setRealParam(SoPlex::OBJ_OFFSET, 5.0);
   int st1 = s.status();
   bool hs1 = s.hasSol();
   double v1 = s.objValueReal();
   std::cout << "optimal value " << v0 << "; after obj_offset=5: status " << st1 << " hasSol " << hs1 << " objValueReal " << v1 << " (LP optimum is now " << v0 + 5 << ")\n";
   s.optimize();
   double v2 = s.objValueReal();
   std::cout << "after re-solve: " << v2 << "\n";
   if((st1 == SPxSolver::OPTIMAL || hs1) && std::fabs(v1 - (v0 + 5)) > 1e-9) { std::cout << "DEFECT: stale objective value reported as optimal\n"; return 1; }
   if(s.status() != SPxSolver::OPTIMAL || std::fabs(v2 - (v0 + 5)) > 1e-9) { std::cout << "DEFECT: re-solve wrong\n"; return 2; }
   return 0;
}
