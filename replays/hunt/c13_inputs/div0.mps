NAME t
ROWS
 N obj
 G r1
COLUMNS
 x obj 1 r1 1/0
 y obj 1 r1 1
RHS
 RHS r1 3/0
ENDATA
