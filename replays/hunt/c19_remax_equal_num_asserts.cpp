// LPRowSet::reMax() / LPColSet::reMax(): assertion failure in VectorBase::reSize() whenever the new capacity equals
// the number of rows (e.g. the documented default reMax() == "shrink to what is needed" on a full set).
// exit code: 0 = fine, 1 = defect
#include <iostream>
#include <csignal>
#include <unistd.h>
#include "soplex.h"
using namespace soplex;
static void onAbort(int)
{
   std::cout << "DEFECT: assertion failure inside LPRowSet::reMax()" << std::endl;
   _exit(1);
}
int main()
{
   signal(SIGABRT, onAbort);
   LPRowSet rs(3, 10);                 // room for exactly 3 rows
   DSVector v;
   v.add(0, 1.0);

   for(int i = 0; i < 3; i++)
      rs.add(0.0, v, 1.0);

   rs.reMax(3);                        // also: rs.reMax() / rs.reMax(0) / any value <= num()
   std::cout << "ok, max() = " << rs.max() << std::endl;
   return 0;
}
