// Finding 5: exact solve of an unbounded LP with a ranged row: _transformUnbounded() sets both sides of the row to 0
// and leaves _rowTypes[r] == RANGETYPE_BOXED; the assertion in _performOptIRStable (solverational.hpp:2363) fails.
#include "soplex.h"
#include <iostream>
using namespace soplex;
int main()
{
   SoPlex s;
   s.setIntParam(SoPlex::VERBOSITY, 0);
   s.setIntParam(SoPlex::SYNCMODE, SoPlex::SYNCMODE_AUTO);
   s.setIntParam(SoPlex::SOLVEMODE, SoPlex::SOLVEMODE_RATIONAL);
   s.setIntParam(SoPlex::OBJSENSE, SoPlex::OBJSENSE_MAXIMIZE);
   // max x  s.t. 1 <= x - y <= 2, x, y >= 0   (unbounded)
   s.addColReal(LPColReal(1, DSVectorReal(), infinity, 0));
   s.addColReal(LPColReal(0, DSVectorReal(), infinity, 0));
   DSVectorReal r(2);
   r.add(0, 1.0);
   r.add(1, -1.0);
   s.addRowReal(LPRowReal(1, r, 2));
   SPxSolver::Status st = s.optimize();
   std::cout << "status " << st << " (expected UNBOUNDED = " << SPxSolver::UNBOUNDED << ")\n";
   return st == SPxSolver::UNBOUNDED ? 0 : 1;
}
