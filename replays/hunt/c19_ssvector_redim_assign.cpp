// SSVector: (a) reDim() on a vector that is not setup but still has a nonzero index count aborts with an assertion
// (reDim calls the setup-only accessor index()); (b) SSVector = Vector of larger dimension changes dim() but not the
// index memory, so the following setup() writes behind the index array (heap overflow; detected here via max()).
// exit code: 0 = fine, 1 = defect
#include <iostream>
#include <csignal>
#include <unistd.h>
#include "soplex.h"
using namespace soplex;
static void onAbort(int)
{
   std::cout << "DEFECT (a): assertion failure inside SSVector::reDim()" << std::endl;
   _exit(1);
}
int main()
{
   auto tol = std::make_shared<Tolerances>();
   {
      SSVector x(2, tol);
      Vector w(50);

      for(int i = 0; i < 50; i++)
         w[i] = i + 1;

      x = w;                           // documented: "Assignment operator", leaves x not setup

      if(x.dim() > x.indices().max())
      {
         std::cout << "DEFECT (b): after SSVector = Vector dim() = " << x.dim() << " but the index memory holds only "
                   << x.indices().max() << " indices; setup() would write " << x.dim() << std::endl;
         // x.setup();                 // heap-buffer-overflow at ssvectorbase.h:162 (confirmed with -fsanitize=address)
         signal(SIGABRT, onAbort);
         SSVector y(5, tol);
         y.setValue(4, 2.0);
         y.unSetup();
         y.reDim(3);
         return 1;
      }
   }
   signal(SIGABRT, onAbort);
   SSVector y(5, tol);
   y.setValue(4, 2.0);
   y.unSetup();
   y.reDim(3);
   std::cout << "ok" << std::endl;
   return 0;
}
