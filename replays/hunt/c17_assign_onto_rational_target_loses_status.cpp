// Finding 3: assigning a solved solver WITHOUT rational LP (SYNCMODE_ONLYREAL, the default) to an object that holds a
// rational LP (SYNCMODE_AUTO) gives a "copy" whose status is UNKNOWN and whose solution is invalidated although
// hasSol() is true: operator= first copies status and solution and then calls clearLPRational(), which calls _invalidateSolution().
#include "soplex.h"
#include <cstdio>
using namespace soplex;

static void build(SoPlex& s)
{
   s.setIntParam(SoPlex::VERBOSITY, 0);
   s.setIntParam(SoPlex::OBJSENSE, SoPlex::OBJSENSE_MINIMIZE);
   s.addColReal(LPCol(-1.0, DSVector(), 3.0, 0.0));      // min -x, 0 <= x <= 3
   DSVector r0; r0.add(0, 1.0); s.addRowReal(LPRow(-infinity, r0, 2.0));  // x <= 2
}

int main()
{
   SoPlex A;
   build(A);
   A.optimize();

   SoPlex B;
   B.setIntParam(SoPlex::SYNCMODE, SoPlex::SYNCMODE_AUTO);   // B owns a rational LP
   build(B);

   B = A;

   VectorReal xa(1), xb(1);
   bool ga = A.getPrimal(xa), gb = B.getPrimal(xb);
   printf("source:   status %d hasSol %d isPrimalFeasible %d isDualFeasible %d getPrimal %d x=%g obj=%g\n", (int)A.status(), A.hasSol(), A.isPrimalFeasible(), A.isDualFeasible(), ga, xa[0], A.objValueReal());
   printf("assigned: status %d hasSol %d isPrimalFeasible %d isDualFeasible %d getPrimal %d x=%g obj=%g\n", (int)B.status(), B.hasSol(), B.isPrimalFeasible(), B.isDualFeasible(), gb, xb[0], B.objValueReal());
   bool bad = A.status() != B.status() || A.isPrimalFeasible() != B.isPrimalFeasible() || A.isDualFeasible() != B.isDualFeasible() || A.objValueReal() != B.objValueReal();
   printf(bad ? "DEFECT: assigned object differs from its source\n" : "ok\n");
   return bad ? 1 : 0;
}
