// repro_2: the vector changers changeLowerReal(vec) (likewise changeUpperReal / changeBoundsReal / changeLhsReal /
// changeRhsReal / changeRangeReal with vectors) scale infinite entries of the new vector on a persistently scaled LP:
// -1e100 * 2^-e is stored.
//   e > 0: the stored value is > -infinity, i.e. a *finite* bound for the solver -> an unbounded LP is reported OPTIMAL
//          with objective value -1e100;
//   e < 0: the stored value is < -1e100 and the scalar getter lowerReal(j) returns it unchanged (-1.024e103 != -1e100).
#include "soplex.h"
#include <cstdio>
using namespace soplex;
int main()
{
   int bad = 0;
   for(int var = 0; var < 2; var++)
   {
      SoPlex s;
      s.setIntParam(SoPlex::VERBOSITY, 0);
      s.setIntParam(SoPlex::OBJSENSE, SoPlex::OBJSENSE_MINIMIZE);
      s.setIntParam(SoPlex::SCALER, SoPlex::SCALER_BIEQUI);
      s.setBoolParam(SoPlex::PERSISTENTSCALING, true);
      s.setIntParam(SoPlex::SIMPLIFIER, SoPlex::SIMPLIFIER_OFF);
      const double inf = s.realParam(SoPlex::INFTY);
      const double f = var ? 1024.0 : 1.0 / 1024;
      DSVector e;
      // min x0   s.t.  f x0 + 2f x1 <= 16 f ;  x0 >= 0 ; 0 <= x1 <= 5           (optimum 0)
      s.addColReal(LPCol(1.0, e, inf, 0.0));
      s.addColReal(LPCol(0.0, e, 5.0, 0.0));
      DSVector r; r.add(0, f); r.add(1, 2 * f);
      s.addRowReal(LPRow(-inf, r, 16 * f));
      s.optimize();
      VectorReal lo(2); lo[0] = -inf; lo[1] = 0;
      s.changeLowerReal(lo);              // x0 is free now: min x0 is unbounded
      printf("f=%g: lowerReal(0)=%g stored=%g\n", f, s.lowerReal(0), s.lowerRealInternal()[0]);
      if(s.lowerReal(0) != -inf) { bad++; printf("  DEFECT: lowerReal(0) != -infinity after changeLowerReal(vec)\n"); }
      if(s.lowerRealInternal()[0] > -inf) { bad++; printf("  DEFECT: stored lower bound is finite for the solver\n"); }
      SPxSolver::Status st = s.optimize();
      printf("  status %d (UNBOUNDED=%d)", (int)st, (int)SPxSolver::UNBOUNDED);
      if(st == SPxSolver::OPTIMAL) printf(" objective %g", s.objValueReal());
      printf("\n");
      if(st != SPxSolver::UNBOUNDED) { bad++; printf("  DEFECT: unbounded LP reported with status %d\n", (int)st); }
   }
   return bad ? 1 : 0;
}
