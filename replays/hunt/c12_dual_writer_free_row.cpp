// Finding 2: writeDualFileReal() on an LP with a free row (lhs = -infinity, rhs = +infinity):
// LPRowSetBase::type() classifies the free row as GREATER_EQUAL (it tests rhs >= infinity first), and
// SPxLPBase<R>::buildDualProblem() (spxlpbase_real.hpp:3007-3008) asserts lhs(i) > -infinity for that type.
// The process aborts; with assertions off a dual column with objective -1e100 would be written.
// Exits non-zero (abort) when the defect shows.
#include "soplex.h"
#include <iostream>
using namespace soplex;
int main()
{
   SoPlex sp;
   sp.setIntParam(SoPlex::VERBOSITY, 0); sp.setIntParam(SoPlex::OBJSENSE, SoPlex::OBJSENSE_MINIMIZE);
   DSVector e;
   sp.addColReal(LPCol(1.0, e, infinity, 0.0));
   sp.addColReal(LPCol(1.0, e, infinity, 0.0));
   DSVector r; r.add(0, 1.0); r.add(1, 1.0);
   sp.addRowReal(LPRow(1.0, r, infinity));            // x + y >= 1
   sp.addRowReal(LPRow(-infinity, r, infinity));      // free row
   sp.writeDualFileReal("tmp_dual_free_row.lp");
   // if we get here: the dual must have optimal value 1 like the primal
   SoPlex sd; sd.setIntParam(SoPlex::VERBOSITY, 0);
   if(!sd.readFile("tmp_dual_free_row.lp")) { std::cout << "DEFECT: dual file unreadable\n"; return 1; }
   sd.optimize();
   std::cout << "dual value " << sd.objValueReal() << "\n";
   return (sd.status() == SPxSolver::OPTIMAL && sd.objValueReal() == 1.0) ? 0 : 1;
}
