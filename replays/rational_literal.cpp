// F27: ratFromString multiplies by the double pow(10, mult): in rational read mode "1e-1" does not become 1/10.
#include "soplex.h"
#include <iostream>
#include <fstream>
using namespace soplex;
int main(){
  { std::ofstream f("/tmp/f27.lp"); f<<"Minimize\n obj: 1e-1 x + 25e-2 y\nSubject To\n c1: x + y >= 3e-1\nBounds\nEnd\n"; }
  SoPlex s; s.setIntParam(SoPlex::VERBOSITY,0);
  s.setIntParam(SoPlex::READMODE, SoPlex::READMODE_RATIONAL); s.setIntParam(SoPlex::SYNCMODE, SoPlex::SYNCMODE_AUTO);
  s.setIntParam(SoPlex::OBJSENSE, SoPlex::OBJSENSE_MINIMIZE);
  if(!s.readFile("/tmp/f27.lp")){ std::cout<<"read failed\n"; return 2; }
  Rational a=s.objRational(0), b=s.objRational(1), c=s.lhsRational(0);
  std::cout<<"obj(0)="<<a<<" obj(1)="<<b<<" lhs(0)="<<c<<"\n";
  bool ok = a==Rational(1,10) && b==Rational(1,4) && c==Rational(3,10);
  std::cout<<(ok?"ok: literals are exact\n":"FAIL: literals with a negative exponent are not the rationals they denote\n");
  return ok?0:1;
}
