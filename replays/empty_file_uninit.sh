#!/bin/bash
# F47: reading an empty file made SPxLPBase::read() branch on an uninitialised character (in.get(c) assigns nothing on an empty
# stream).  Visible under valgrind memcheck ("Conditional jump or move depends on uninitialised value(s)").
# usage: empty_file_uninit.sh [soplex binary]   exit 0 = clean
bin=${1:-/repo/_build/bin/soplex}
t=$(mktemp /tmp/spx_empty.XXXXXX.lp)
: > "$t"
valgrind -q --error-exitcode=9 "$bin" "$t" > /dev/null 2>/tmp/spx_empty.err
rc=$?
grep -m2 "uninitialised" /tmp/spx_empty.err
rm -f "$t" /tmp/spx_empty.err
[ $rc -ne 9 ]
