// F65 (SVector = SSVector is always empty), F66 (DSVector::add(SVector) replaces instead of appending), F69 (bool:lifting=bogus accepted),
// F67 (writeDualFileReal aborts).  Each case runs in a child process; cases 0 and 5 of this file are superseded by
// c_interface_row_vector_rational.cpp and by reading SVSetBase::add (nkey[0] is never set).
#include "soplex.h"
#include "soplex_interface.h"
#include <iostream>
#include <unistd.h>
#include <sys/wait.h>
using namespace soplex;
static int child(int which){
 if(which==0){ void* s=SoPlex_create(); SoPlex_setIntParam(s,0,-1); double e[2]={1.0,2.0}; SoPlex_addColReal(s,e,0,0,1.0,0.0,10.0); SoPlex_addColReal(s,e,0,0,1.0,0.0,10.0); SoPlex_setIntParam(s, SoPlex::SYNCMODE, SoPlex::SYNCMODE_AUTO); double r[2]={1.0,3.0}; SoPlex_addRowReal(s,r,2,2,0.0,5.0); long num[2]={0,0},den[2]={0,0}; int nnz=0; SoPlex_getRowVectorRational(s,0,&nnz,num,den,nullptr); std::cout<<"getRowVectorRational nnz "<<nnz<<" "<<num[0]<<"/"<<den[0]<<"\n"; return 0; }
 if(which==1){ SSVector ss(5, std::make_shared<Tolerances>()); ss.setValue(1,2.0); ss.setValue(3,4.0); DSVector d(5); SVector& sv=d; sv=ss; std::cout<<"SVector = SSVector: size "<<sv.size()<<" (expected 2)\n"; return sv.size()==2?0:1; }
 if(which==2){ DSVector a(3); a.add(0,1.0); DSVector b(2); b.add(5,2.0); a.add(b); std::cout<<"DSVector::add(SVector): size "<<a.size()<<" (append expected 2)\n"; return a.size()==2?0:1; }
 if(which==3){ SoPlex s; s.setIntParam(SoPlex::VERBOSITY,0); char t[]="bool:lifting=bogus"; bool ok=s.parseSettingsString(t); std::cout<<"parse 'bool:lifting=bogus' returns "<<ok<<" lifting="<<s.boolParam(SoPlex::LIFTING)<<"\n"; char t2[]="bool:lifting=truex"; ok=s.parseSettingsString(t2); std::cout<<"parse 'bool:lifting=truex' returns "<<ok<<" lifting="<<s.boolParam(SoPlex::LIFTING)<<"\n"; return 0; }
 if(which==4){ SoPlex s; s.setIntParam(SoPlex::VERBOSITY,0); s.readFile("/repo/check/instances/afiro.mps"); bool ok=s.writeDualFileReal("/tmp/rp/dual.lp"); std::cout<<"writeDualFileReal "<<ok<<"\n"; SoPlex d; d.setIntParam(SoPlex::VERBOSITY,0); d.readFile("/tmp/rp/dual.lp"); s.optimize(); d.optimize(); std::cout<<"primal "<<s.objValueReal()<<" dual "<<d.objValueReal()<<"\n"; return 0; }
 if(which==5){ SVSet sv(2,8); DSVector v[3]; for(int i=0;i<3;i++) v[i].add(i,1.0+i); DataKey keys[3]; for(auto&k:keys){k.idx=-7;} sv.add(keys, v, 3); std::cout<<"SVSet::add(keys, vecs, 3): keys "<<keys[0].idx<<" "<<keys[1].idx<<" "<<keys[2].idx<<" num "<<sv.num()<<"\n"; return keys[0].idx>=0?0:1; }
 return 0; }
int main(){ for(int w=0;w<6;w++){ pid_t p=fork(); if(p==0){ alarm(20); {int rc=child(w); std::cout.flush(); _exit(rc);} } int st; waitpid(p,&st,0); if(!WIFEXITED(st)) std::cout<<"case "<<w<<": killed by signal "<<WTERMSIG(st)<<"\n"; else if(WEXITSTATUS(st)) std::cout<<"case "<<w<<": exit "<<WEXITSTATUS(st)<<"\n"; } }
