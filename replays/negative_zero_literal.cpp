// F46: in rational read mode the literals -0.0, -.0, -0., -0.00e3 ... were not read as 0: ratFromString stripped all digits of a
// negative zero ("-/10"), the conversion threw, the reader warned "malformed rational value" and used the stale value of its temporary.
#include "soplex.h"
#include <fstream>
#include <iostream>
using namespace soplex;
int main()
{
   const char* lits[] = {"-0.0", "-.0", "-0.", "-0.00e3", "-00.000"};
   int rc = 0;
   for(const char* t : lits)
   {
      {
         std::ofstream f("/tmp/spx_replay_negzero.lp");
         f << "Minimize\n obj: 3 x0 " << t << " x1\nSubject To\n c1: x0 + x1 >= 1\nEnd\n";
      }
      SoPlex s;
      s.setIntParam(SoPlex::VERBOSITY, 0);
      s.setIntParam(SoPlex::READMODE, SoPlex::READMODE_RATIONAL);
      s.setIntParam(SoPlex::SYNCMODE, SoPlex::SYNCMODE_AUTO);
      s.setIntParam(SoPlex::SOLVEMODE, SoPlex::SOLVEMODE_RATIONAL);
      s.setIntParam(SoPlex::OBJSENSE, SoPlex::OBJSENSE_MINIMIZE);
      bool ok = s.readFile("/tmp/spx_replay_negzero.lp");
      Rational c = ok && s.numColsRational() == 2 ? s.objRational(1) : Rational(-99);
      std::cout << "coefficient written as " << t << " is read as " << c << std::endl;
      if(c != 0) rc = 1;
   }
   remove("/tmp/spx_replay_negzero.lp");
   return rc;
}
