// does an exact solve with lifting leave the user's rational LP as it was?
#include "soplex.h"
#include <iostream>
using namespace soplex;
int main(){ int bad=0;
  SoPlex s; s.setIntParam(SoPlex::VERBOSITY,0); s.setIntParam(SoPlex::READMODE,SoPlex::READMODE_RATIONAL); s.setIntParam(SoPlex::SOLVEMODE,SoPlex::SOLVEMODE_RATIONAL); s.setIntParam(SoPlex::CHECKMODE,SoPlex::CHECKMODE_RATIONAL); s.setIntParam(SoPlex::SYNCMODE,SoPlex::SYNCMODE_AUTO);
  s.setRealParam(SoPlex::FEASTOL,0.0); s.setRealParam(SoPlex::OPTTOL,0.0); s.setBoolParam(SoPlex::LIFTING,true);
  // min x+y  s.t. 1e-6 x + y >= 1, x + 2e6 y >= 2,  x,y in [0,10]
  DSVectorRational empty; s.addColRational(LPColRational(1,empty,10,0)); s.addColRational(LPColRational(1,empty,10,0));
  DSVectorRational r1; r1.add(0,Rational(1)/1000000); r1.add(1,1); s.addRowRational(LPRowRational(1,r1,infinity));
  DSVectorRational r2; r2.add(0,1); r2.add(1,2000000); s.addRowRational(LPRowRational(2,r2,infinity));
  int nnz0=0; for(int j=0;j<s.numColsRational();j++) nnz0+=s.colVectorRational(j).size();
  std::cout<<"before: "<<s.numRowsRational()<<" rows, "<<s.numColsRational()<<" cols, "<<nnz0<<" nonzeros\n";
  s.optimize();
  int nnz1=0; for(int j=0;j<s.numColsRational();j++) nnz1+=s.colVectorRational(j).size();
  std::cout<<"status "<<s.status()<<" after: "<<s.numRowsRational()<<" rows, "<<s.numColsRational()<<" cols, "<<nnz1<<" nonzeros\n";
  for(int j=0;j<s.numColsRational();j++){ const SVectorRational& c=s.colVectorRational(j); std::cout<<" col "<<j<<":"; for(int k=0;k<c.size();k++) std::cout<<" ("<<c.index(k)<<","<<(double)c.value(k)<<")"; std::cout<<"\n"; }
  int nnzr=0; for(int j=0;j<s.numColsReal();j++){ DSVector c; s.getColVectorReal(j,c); nnzr+=c.size(); }
  std::cout<<"real LP: "<<nnzr<<" nonzeros\n"; if(nnzr!=nnz0) bad=1;
  Rational o1=s.objValueRational(); s.clearBasis(); s.optimize(); if(s.objValueRational()!=o1){ std::cout<<"second solve gives another optimum\n"; bad=1; }
  if(nnz0!=nnz1) bad=1; std::cout<<(bad?"FAIL":"OK")<<"\n"; return bad; }
