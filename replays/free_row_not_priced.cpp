// repro_1: a nonbasic FREE row with a nonzero dual multiplier is never priced (enter.hpp, SPxSolverBase<R>::coTest() has no
// case P_FREE, unlike test()), so a dual infeasible basis is accepted as OPTIMAL.
//  (A) max x0, x0 free, one free row x0: STARTER_SUM puts the column into the basis and the free row out -> OPTIMAL, obj 0
//      (row representation: optimize() returns RUNNING); the LP is unbounded.
//  (B) default settings except simplifier off: min -x  s.t. x <= 1, x >= 0  -> OPTIMAL x=1; then the row is relaxed to a free row
//      (changeRhsReal(0, infinity)) and the LP re-solved: the LP is now unbounded, SoPlex answers OPTIMAL (objective 0, free row dual -1).
//  (C) as (A) with SOLVEMODE_RATIONAL: even the exact solve returns OPTIMAL.
#include "soplex.h"
#include <cstdio>
using namespace soplex;
int main()
{
   int bad = 0;
   for(int repr = 1; repr <= 3; repr++)
   {
      SoPlex sp;
      sp.setIntParam(SoPlex::VERBOSITY, 0);
      if(repr == 3) sp.setIntParam(SoPlex::SOLVEMODE, SoPlex::SOLVEMODE_RATIONAL);
      sp.setIntParam(SoPlex::SIMPLIFIER, SoPlex::SIMPLIFIER_OFF);
      sp.setIntParam(SoPlex::SCALER, SoPlex::SCALER_OFF);
      sp.setIntParam(SoPlex::STARTER, SoPlex::STARTER_SUM);
      sp.setIntParam(SoPlex::REPRESENTATION, repr == 3 ? 1 : repr);
      sp.setIntParam(SoPlex::OBJSENSE, SoPlex::OBJSENSE_MAXIMIZE);
      DSVector e(0);
      sp.addColReal(LPCol(1.0, e, infinity, -infinity));      // max x0, x0 free
      DSVector r(1); r.add(0, 1.0);
      sp.addRowReal(LPRow(-infinity, r, infinity));          // free row  -inf <= x0 <= inf
      SPxSolver::Status st = sp.optimize();
      SPxSolver::VarStatus rs[1], cs[1];
      sp.getBasis(rs, cs);
      VectorReal x(1), d(1);
      sp.getPrimal(x); sp.getDual(d);
      printf("(%s) repr=%d status=%d (OPTIMAL=1 UNBOUNDED=2 RUNNING=-1) obj=%g x0=%g dual(free row)=%g rowstat=%d colstat=%d (BASIC=4 ZERO=3)\n",
             repr == 3 ? "C, rational" : "A", repr == 3 ? 1 : repr, (int)st, sp.objValueReal(), x[0], d[0], (int)rs[0], (int)cs[0]);
      if(st != SPxSolver::UNBOUNDED && st != SPxSolver::INForUNBD) bad = 1;
   }
   for(int simp = 0; simp <= 1; simp++)
   {
      SoPlex sp;
      sp.setIntParam(SoPlex::VERBOSITY, 0);
      sp.setIntParam(SoPlex::SIMPLIFIER, simp);
      sp.setIntParam(SoPlex::OBJSENSE, SoPlex::OBJSENSE_MINIMIZE);
      DSVector e(0);
      sp.addColReal(LPCol(-1.0, e, infinity, 0.0));           // min -x, x >= 0
      DSVector r(1); r.add(0, 1.0);
      sp.addRowReal(LPRow(-infinity, r, 1.0));               // x <= 1
      SPxSolver::Status st1 = sp.optimize();
      sp.changeRhsReal(0, infinity);                         // relax the row: now a free row, LP unbounded
      SPxSolver::Status st2 = sp.optimize();
      VectorReal d(1); sp.getDual(d);
      printf("(B) simplifier=%d first solve status=%d, after changeRhsReal(0,inf): status=%d obj=%g dual(free row)=%g hasPrimalRay=%d\n", simp, (int)st1, (int)st2, sp.objValueReal(), d[0], (int)sp.hasPrimalRay());
      if(st2 != SPxSolver::UNBOUNDED && st2 != SPxSolver::INForUNBD) bad = 1;
   }
   if(bad) printf("DEFECT: an unbounded LP was reported OPTIMAL / not decided\n");
   return bad;
}
