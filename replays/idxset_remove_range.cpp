// F55: IdxSet::remove(n, m) removes the positions n..m by moving elements from the tail into the gap with a do-while loop.  When the
// range reaches the end of the set there is nothing to move, but the loop body runs once anyway: idx[n - 1] is overwritten with a
// removed element (the set loses a member and gains a removed one), and for n == 0 the write goes to idx[-1] (heap corruption).
#include "soplex.h"
#include "soplex/didxset.h"
#include <iostream>
using namespace soplex;
int main()
{
   DIdxSet s;
   for(int v = 10; v < 14; v++) s.addIdx(v);      // {10, 11, 12, 13}
   s.remove(2, 3);                                 // remove the last two
   std::cout << "after remove(2,3): size " << s.size() << " :";
   for(int p = 0; p < s.size(); p++) std::cout << " " << s.index(p);
   std::cout << "   (expected: 10 11)" << std::endl;
   return (s.size() == 2 && s.index(0) == 10 && s.index(1) == 11) ? 0 : 1;
}
