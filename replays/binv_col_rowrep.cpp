#include "soplex.h"
#include <iostream>
#include <vector>
#include <cmath>
using namespace soplex;
double check(SoPlex& s, bool unscale, const char* what){
  int m=s.numRows(), n=s.numCols(); std::vector<int> bind(m); s.getBasisInd(bind.data());
  // build B dense (unscaled user LP)
  std::vector<std::vector<double>> B(m, std::vector<double>(m,0.0));
  for(int k=0;k<m;k++){ if(bind[k]>=0){ DSVector col; s.getColVectorReal(bind[k], col); for(int p=0;p<col.size();p++) B[col.index(p)][k]=col.value(p);} else B[-1-bind[k]][k]=1.0; }
  double worst=0; 
  for(int c=0;c<m;c++){ std::vector<double> x(m,0.0); if(!s.getBasisInverseColReal(c,x.data(),nullptr,nullptr,unscale)){ std::cout<<"query failed\n"; return -1;} 
    for(int i=0;i<m;i++){ double r=0; for(int k=0;k<m;k++) r+=B[i][k]*x[k]; r-=(i==c); worst=std::max(worst,std::fabs(r)); } }
  std::cout<<what<<": max |B*Binv_col - e| = "<<worst<<"\n"; return worst;
}
int main(int argc,char**argv){
  for(int rep=1; rep<=2; rep++){
    SoPlex s; s.setIntParam(SoPlex::VERBOSITY,0); s.setIntParam(SoPlex::OBJSENSE, SoPlex::OBJSENSE_MINIMIZE);
    s.setIntParam(SoPlex::REPRESENTATION, rep); s.setIntParam(SoPlex::SIMPLIFIER, SoPlex::SIMPLIFIER_OFF); s.setBoolParam(SoPlex::PERSISTENTSCALING,true);
    DSVector dummy(0); int n=4,m=3;
    for(int j=0;j<n;j++) s.addColReal(LPCol(1.0+j, dummy, 100.0, 0.0));
    double A[3][4]={{1024,2,0,1},{0,1.0/256,3,0},{5,0,64,7}};
    for(int i=0;i<m;i++){ DSVector r(n); for(int j=0;j<n;j++) if(A[i][j]!=0) r.add(j,A[i][j]); s.addRowReal(LPRow(1.0+i, r, infinity)); }
    s.optimize(); std::cout<<"rep="<<rep<<" status="<<s.status()<<" obj="<<s.objValueReal()<<"\n";
    check(s,true, rep==1?"COLUMN unscale=true":"ROW unscale=true");
  }
  return 0;
}
