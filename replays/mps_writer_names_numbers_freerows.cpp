// F43 / F44 / F45: three defects of the MPS writers (floating-point and rational), found by writing small LPs and reading them back.
//  (a) names longer than 8 characters were cut to 8 (%-8.8s) and two 8-character fields were glued together: the file cannot be
//      read back ("Syntax error"), or different names become one;
//  (b) a number of magnitude >= 1e66, printed with %.15lf into an 81-byte record buffer, lost its trailing digits: an upper bound
//      1e75 came back as 1e70, a coefficient 3e70 as 3e69;
//  (c) a free row (lhs = -infinity, rhs = +infinity) made writeMPS throw SPxInternalCodeException "This should never happen".
#include "soplex.h"
#include <iostream>
using namespace soplex;
int main()
{
   int rc = 0;
   {
      SoPlex a;
      a.setIntParam(SoPlex::VERBOSITY, 0);
      NameSet rn, cn;
      cn.add("production_plant_1");
      cn.add("production_plant_2");
      rn.add("capacity_limit_north");
      rn.add("capacity_limit_south");
      DSVector c(0);
      a.addColReal(LPCol(1.0, c, 10, 0));
      a.addColReal(LPCol(2.0, c, 10, 0));
      DSVector r(2);
      r.add(0, 1.0);
      r.add(1, 1.0);
      a.addRowReal(LPRow(1.0, r, infinity));
      a.addRowReal(LPRow(-infinity, r, 5.0));
      a.writeFileReal("/tmp/spx_replay_names.mps", &rn, &cn);
      SoPlex b;
      b.setIntParam(SoPlex::VERBOSITY, 0);
      NameSet rn2, cn2;
      bool ok = b.readFile("/tmp/spx_replay_names.mps", &rn2, &cn2);
      std::cout << "(a) long names: read back " << ok << ", rows " << b.numRowsReal() << ", cols " << b.numColsReal() << std::endl;
      if(!ok || b.numRowsReal() != 2 || b.numColsReal() != 2 || !cn2.has("production_plant_2")) rc |= 1;
   }
   {
      SoPlex a;
      a.setIntParam(SoPlex::VERBOSITY, 0);
      DSVector c(0);
      a.addColReal(LPCol(1.0, c, 1e75, 0));
      DSVector r(1);
      r.add(0, 3e70);
      a.addRowReal(LPRow(-infinity, r, 2e72));
      a.writeFileReal("/tmp/spx_replay_big.mps");
      SoPlex b;
      b.setIntParam(SoPlex::VERBOSITY, 0);
      bool ok = b.readFile("/tmp/spx_replay_big.mps");
      DSVector rr;
      if(ok && b.numRowsReal() == 1) b.getRowVectorReal(0, rr);
      std::cout << "(b) big numbers: read back " << ok << ", upper " << (ok ? b.upperReal(0) : 0.0) << " (written 1e75), coefficient " << (rr.size() ? rr.value(0) : 0.0) << " (3e70), rhs " << (ok ? b.rhsReal(0) : 0.0) << " (2e72)" << std::endl;
      if(!ok || b.upperReal(0) != 1e75 || rr.size() != 1 || rr.value(0) != 3e70 || b.rhsReal(0) != 2e72) rc |= 2;
   }
   {
      SoPlex a;
      a.setIntParam(SoPlex::VERBOSITY, 0);
      DSVector c(0);
      a.addColReal(LPCol(1.0, c, 10, 0));
      DSVector r(1);
      r.add(0, 1.0);
      a.addRowReal(LPRow(1.0, r, infinity));
      a.addRowReal(LPRow(-infinity, r, infinity));
      try
      {
         a.writeFileReal("/tmp/spx_replay_free.mps");
         SoPlex b;
         b.setIntParam(SoPlex::VERBOSITY, 0);
         bool ok = b.readFile("/tmp/spx_replay_free.mps");
         std::cout << "(c) free row: written, read back " << ok << ", rows " << b.numRowsReal() << std::endl;
         if(!ok || b.numRowsReal() != 2 || b.lhsReal(1) > -infinity || b.rhsReal(1) < infinity) rc |= 4;
      }
      catch(const SPxException& e)
      {
         std::cout << "(c) free row: writeFileReal threw " << e.what() << std::endl;
         rc |= 4;
      }
   }
   remove("/tmp/spx_replay_names.mps");
   remove("/tmp/spx_replay_big.mps");
   remove("/tmp/spx_replay_free.mps");
   return rc;
}
