// Every basis query of C05 as the FIRST query after an in-place modification of the loaded LP (row removed / row added / column removed):
// the query must agree with the basis matrix defined by getBasisInd().  {COL,ROW} x scaler {off, bi-equi} x persistent x modification x query.
#include "soplex.h"
#include <iostream>
#include <vector>
#include <cmath>
using namespace soplex;
static void Bx(SoPlex& s, const std::vector<int>& bind, const std::vector<double>& x, std::vector<double>& out){
  int m=s.numRowsReal(); out.assign(m,0.0);
  for(int i=0;i<m;i++){ if(bind[i]<0) out[-bind[i]-1]+=x[i]; else { DSVector c; s.getColVectorReal(bind[i],c); for(int k=0;k<c.size();k++) out[c.index(k)]+=x[i]*c.value(k);} }
}
static void xB(SoPlex& s, const std::vector<int>& bind, const std::vector<double>& x, std::vector<double>& out){
  int m=s.numRowsReal(); out.assign(m,0.0);
  for(int i=0;i<m;i++){ if(bind[i]<0) out[i]=x[-bind[i]-1]; else { DSVector c; s.getColVectorReal(bind[i],c); double d=0; for(int k=0;k<c.size();k++) d+=x[c.index(k)]*c.value(k); out[i]=d;} }
}
int main(int argc,char**argv){ const char* file=argc>1?argv[1]:"/repo/check/instances/adlittle.mps"; int bad=0;
 for(int rep=1;rep<=2;rep++) for(int sc=0;sc<=2;sc+=2) for(int p=0;p<2;p++) for(int mod=0;mod<3;mod++) for(int q=0;q<5;q++){
  SoPlex s; s.setIntParam(SoPlex::VERBOSITY,0); s.setIntParam(SoPlex::SIMPLIFIER,0); s.setIntParam(SoPlex::REPRESENTATION,rep); s.setIntParam(SoPlex::SCALER,sc);
  s.setBoolParam(SoPlex::PERSISTENTSCALING,p); s.readFile(file); s.optimize();
  int m=s.numRowsReal();
  if(mod==0){ int r=-1; for(int i=0;i<m;i++) if(s.basisRowStatus(i)==SPxSolver::BASIC){r=i;break;} if(r<0) continue; s.removeRowReal(r);} 
  else if(mod==1){ DSVector row(2); row.add(0,1.0); row.add(1,1.0); s.addRowReal(LPRow(-1e6,row,1e6)); }
  else { int c=-1; for(int j=0;j<s.numColsReal();j++) if(s.basisColStatus(j)!=SPxSolver::BASIC){c=j;break;} if(c<0) continue; s.removeColReal(c); }
  if(!s.hasBasis()) continue;
  m=s.numRowsReal(); std::vector<int> bind(m); s.getBasisInd(bind.data());
  std::vector<double> v(m),w(m),t(m),out(m,0.0); for(int i=0;i<m;i++) v[i]=1.0+(i%5)*0.5;
  double err=0; int k=m/2; bool ok=true;
  if(q==0){ ok=s.getBasisInverseColReal(k,out.data(),0,0,true); Bx(s,bind,out,w); for(int i=0;i<m;i++) err=std::max(err,std::fabs(w[i]-(i==k))); }
  if(q==1){ ok=s.getBasisInverseRowReal(k,out.data(),0,0,true); xB(s,bind,out,w); for(int i=0;i<m;i++) err=std::max(err,std::fabs(w[i]-(i==k))); }
  if(q==2){ Bx(s,bind,v,w); ok=s.getBasisInverseTimesVecReal(w.data(),out.data(),true); for(int i=0;i<m;i++) err=std::max(err,std::fabs(out[i]-v[i])); }
  if(q==3){ Bx(s,bind,v,w); t=v; ok=s.multBasis(t.data(),true); for(int i=0;i<m;i++) err=std::max(err,std::fabs(t[i]-w[i])); }
  if(q==4){ xB(s,bind,v,w); t=v; ok=s.multBasisTranspose(t.data(),true); for(int i=0;i<m;i++) err=std::max(err,std::fabs(t[i]-w[i])); }
  if(!ok||err>1e-6){ bad++; std::cout<<(rep==2?"ROW":"COL")<<" scaler "<<sc<<" persist "<<p<<" mod "<<mod<<" query "<<q<<": ok="<<ok<<" error "<<err<<"\n"; }
 }
 std::cout<<"failures "<<bad<<std::endl; return bad?1:0; }
