// F30: SLUFactor::assign tests this->l.rval.empty() instead of old.l.rval.empty(): copy-constructing or assigning from a
// solver that holds a live LU factorization with the row-wise copy of L aborts on assert(old.l.ridx == nullptr) in the
// tested (assert-enabled) configuration; with NDEBUG the row-wise L of the copy is silently dropped.
#include "soplex.h"
#include <iostream>
using namespace soplex;
int main(int argc,char**argv){
  SoPlex a; a.setIntParam(SoPlex::VERBOSITY,0);
  a.readFile(argc>1?argv[1]:"/repo/check/instances/adlittle.mps");
  a.optimize(); std::cout<<"a: status "<<a.status()<<" obj "<<a.objValueReal()<<" iters "<<a.numIterations()<<std::endl;
  SoPlex b(a);
  std::cout<<"copy constructed; b: status "<<b.status()<<" obj "<<b.objValueReal()<<std::endl;
  b.optimize(); std::cout<<"b re-solved: status "<<b.status()<<" obj "<<b.objValueReal()<<" iters "<<b.numIterations()<<std::endl;
  return (b.status()==a.status())?0:1;
}
