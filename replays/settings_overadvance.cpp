// F26: _parseSettingsLine / parseSettingsString stepped over the terminating NUL when the parameter type (or name)
// was the last token of the line and went on parsing uninitialised buffer contents.
// Build against the pre-fix headers and run under valgrind: "Conditional jump or move depends on uninitialised value(s)".
#include "soplex.h"
#include <iostream>
using namespace soplex;
int main(){
  SoPlex s; s.setIntParam(SoPlex::VERBOSITY,0);
  char a[]="bool"; bool r1=s.parseSettingsString(a);
  char b[]="int:iterlimit"; bool r2=s.parseSettingsString(b);
  std::cout<<"parse(\"bool\")="<<r1<<" parse(\"int:iterlimit\")="<<r2<<" (both must be rejected)\n";
  return (r1||r2)?1:0;
}
