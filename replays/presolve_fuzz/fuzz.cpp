// Harness: checks the presolve/postsolve property for SPxMainSM<double> on a given LP.
#include <cstdio>
#include <cmath>
#include <vector>
#include <memory>
#include "soplex.h"
#include "soplex/spxmainsm.h"

using namespace soplex;
typedef SPxSolverBase<double>::VarStatus VS;

static int g_verbose = 1;

static void loadInto(SoPlex& sp, const SPxLPBase<double>& lp)
{
   sp.setIntParam(SoPlex::VERBOSITY, 0);
   sp.setIntParam(SoPlex::SIMPLIFIER, SoPlex::SIMPLIFIER_OFF);
   sp.setIntParam(SoPlex::SCALER, SoPlex::SCALER_OFF);
   sp.setIntParam(SoPlex::OBJSENSE, lp.spxSense() == SPxLPBase<double>::MAXIMIZE ? SoPlex::OBJSENSE_MAXIMIZE :
                  SoPlex::OBJSENSE_MINIMIZE);
   sp.setBoolParam(SoPlex::ENSURERAY, true);

   for(int i = 0; i < lp.nRows(); ++i)
      sp.addRowReal(LPRowBase<double>(lp.lhs(i), DSVectorBase<double>(), lp.rhs(i)));

   for(int j = 0; j < lp.nCols(); ++j)
      sp.addColReal(LPColBase<double>(lp.obj(j), DSVectorBase<double>(lp.colVector(j)), lp.upper(j), lp.lower(j)));
}

// returns 0 if property holds, else a non-zero code
static int checkProperty(const SPxLPBase<double>& orig, bool keepbounds, uint32_t seed, double tol = 1e-6)
{
   const bool maxi = orig.spxSense() == SPxLPBase<double>::MAXIMIZE;
   const int nR = orig.nRows(), nC = orig.nCols();

   // reference solve of the original LP without any presolving
   SoPlex ref;
   loadInto(ref, orig);
   SPxSolverBase<double>::Status refStat = ref.optimize();

   SPxOut out;
   out.setVerbosity(g_verbose >= 2 ? SPxOut::INFO3 : SPxOut::ERROR);
   SPxLPBase<double> work(orig);
   work.spxout = &out;
   SPxMainSM<double> simp;
   std::shared_ptr<Tolerances> tols = std::make_shared<Tolerances>();
   simp.setTolerances(tols);
   SPxSimplifier<double>::Result res = simp.simplify(work, 1e20, keepbounds, seed);

   if(res == SPxSimplifier<double>::INFEASIBLE)
   {
      if(refStat != SPxSolverBase<double>::INFEASIBLE)
      {
         if(g_verbose) printf("  presolve says INFEASIBLE but LP has status %d\n", (int)refStat);
         return 10;
      }
      return 0;
   }

   if(res == SPxSimplifier<double>::UNBOUNDED || res == SPxSimplifier<double>::DUAL_INFEASIBLE)
   {
      if(refStat == SPxSolverBase<double>::OPTIMAL)
      {
         if(g_verbose) printf("  presolve says UNBOUNDED/DUAL_INFEASIBLE but LP is optimal\n");
         return 11;
      }
      return 0;
   }

   VectorBase<double> x(work.nCols()), r(work.nCols()), y(work.nRows()), s(work.nRows());
   double redObj = 0.0;   // optimal value of the reduced LP (0 if presolve removed everything)
   std::vector<VS> rs(nR + 1), cs(nC + nR + 1);

   if(res == SPxSimplifier<double>::OKAY)
   {
      SoPlex red;
      loadInto(red, work);
      SPxSolverBase<double>::Status st = red.optimize();

      if(st != SPxSolverBase<double>::OPTIMAL)
      {
         if(refStat == SPxSolverBase<double>::OPTIMAL)
         {
            if(g_verbose) printf("  reduced LP has status %d but original is optimal\n", (int)st);
            return 12;
         }
         return 0;
      }

      if(refStat != SPxSolverBase<double>::OPTIMAL)
      {
         if(g_verbose) printf("  reduced LP optimal but original has status %d\n", (int)refStat);
         return 13;
      }

      redObj = red.objValueReal();
      red.getPrimal(x);
      red.getDual(y);
      red.getSlacksReal(s);
      red.getRedCost(r);
      red.getBasis(rs.data(), cs.data());
   }
   else // VANISHED
   {
      if(refStat != SPxSolverBase<double>::OPTIMAL)
      {
         if(g_verbose) printf("  presolve solved LP but original has status %d\n", (int)refStat);
         return 14;
      }
   }

   simp.unsimplify(x, y, s, r, rs.data(), cs.data(), true);

   VectorBase<double> X = simp.unsimplifiedPrimal();
   VectorBase<double> Y = simp.unsimplifiedDual();
   VectorBase<double> S = simp.unsimplifiedSlacks();
   VectorBase<double> Rc = simp.unsimplifiedRedCost();

   if(X.dim() != nC || Y.dim() != nR || S.dim() != nR || Rc.dim() != nC)
   {
      if(g_verbose) printf("  dimension mismatch\n");
      return 20;
   }

   std::vector<VS> RS(nR), CS(nC);
   simp.getBasis(RS.data(), CS.data(), nR, nC);

   if(g_verbose >= 2)
   {
      for(int j = 0; j < nC; ++j) printf("  x%d = %g  redcost %g  status %d\n", j, X[j], Rc[j], (int)CS[j]);

      for(int i = 0; i < nR; ++i) printf("  row %d: slack %g  dual %g  status %d\n", i, S[i], Y[i], (int)RS[i]);
   }

   int bad = 0;
   double sgn = maxi ? -1.0 : 1.0;   // convert duals to minimisation convention
   double objval = 0.0;

   for(int j = 0; j < nC; ++j)
   {
      objval += orig.obj(j) * X[j];
      double sc = 1.0 + std::fabs(X[j]);

      if(X[j] < orig.lower(j) - tol * sc || X[j] > orig.upper(j) + tol * sc)
      {
         if(g_verbose) printf("  col %d: x=%g violates bounds [%g,%g]\n", j, X[j], orig.lower(j), orig.upper(j));
         bad |= 1;
      }

      // reduced cost identity
      double rc = orig.obj(j);
      const SVectorBase<double>& col = orig.colVector(j);

      for(int k = 0; k < col.size(); ++k)
         rc -= col.value(k) * Y[col.index(k)];

      if(std::fabs(rc - Rc[j]) > tol * (1.0 + std::fabs(rc)))
      {
         if(g_verbose) printf("  col %d: redcost %g != c - A^T y = %g\n", j, Rc[j], rc);
         bad |= 2;
      }

      // sign of the reduced cost
      double d = sgn * Rc[j];
      bool atLo = X[j] <= orig.lower(j) + tol * sc;
      bool atUp = X[j] >= orig.upper(j) - tol * sc;

      if((d > tol && !atLo) || (d < -tol && !atUp))
      {
         if(g_verbose) printf("  col %d: redcost %g has wrong sign for x=%g in [%g,%g]\n", j, Rc[j], X[j], orig.lower(j),
                                 orig.upper(j));
         bad |= 4;
      }

      // basis status agrees with the value
      if((CS[j] == SPxSolverBase<double>::ON_LOWER && !atLo) || (CS[j] == SPxSolverBase<double>::ON_UPPER && !atUp)
            || (CS[j] == SPxSolverBase<double>::FIXED && !(atLo && atUp))
            || (CS[j] == SPxSolverBase<double>::ZERO && std::fabs(X[j]) > tol))
      {
         if(g_verbose) printf("  col %d: status %d inconsistent with x=%g in [%g,%g]\n", j, (int)CS[j], X[j], orig.lower(j),
                                 orig.upper(j));
         bad |= 8;
      }
   }

   for(int i = 0; i < nR; ++i)
   {
      const SVectorBase<double>& row = orig.rowVector(i);
      double act = 0.0;

      for(int k = 0; k < row.size(); ++k)
         act += row.value(k) * X[row.index(k)];

      double sc = 1.0 + std::fabs(act);

      if(std::fabs(act - S[i]) > tol * sc)
      {
         if(g_verbose) printf("  row %d: slack %g != activity %g\n", i, S[i], act);
         bad |= 16;
      }

      if(act < orig.lhs(i) - tol * sc || act > orig.rhs(i) + tol * sc)
      {
         if(g_verbose) printf("  row %d: activity %g violates [%g,%g]\n", i, act, orig.lhs(i), orig.rhs(i));
         bad |= 32;
      }

      double d = sgn * Y[i];
      bool atLo = act <= orig.lhs(i) + tol * sc;
      bool atUp = act >= orig.rhs(i) - tol * sc;

      if((d > tol && !atLo) || (d < -tol && !atUp))
      {
         if(g_verbose) printf("  row %d: dual %g has wrong sign for activity %g in [%g,%g]\n", i, Y[i], act, orig.lhs(i),
                                 orig.rhs(i));
         bad |= 64;
      }

      if((RS[i] == SPxSolverBase<double>::ON_LOWER && !atLo) || (RS[i] == SPxSolverBase<double>::ON_UPPER && !atUp)
            || (RS[i] == SPxSolverBase<double>::FIXED && !(atLo && atUp)))
      {
         if(g_verbose) printf("  row %d: status %d inconsistent with activity %g in [%g,%g]\n", i, (int)RS[i], act,
                                 orig.lhs(i), orig.rhs(i));
         bad |= 128;
      }
   }

   if(std::fabs(objval - ref.objValueReal()) > tol * (1.0 + std::fabs(objval)))
   {
      if(g_verbose) printf("  objective %g differs from optimum %g\n", objval, ref.objValueReal());
      bad |= 256;
   }

   // reduced optimum + objective offset reported by the simplifier = original optimum
   if(std::fabs(redObj + simp.getObjoffset() - ref.objValueReal()) > tol * (1.0 + std::fabs(ref.objValueReal())))
   {
      if(g_verbose) printf("  reduced optimum %g + offset %g differs from optimum %g\n", redObj, simp.getObjoffset(),
                              ref.objValueReal());
      bad |= 2048;
   }

   // the basis must be a valid optimal basis of the original LP: starting from it needs no simplex iteration
   int nbasic = 0;

   for(int i = 0; i < nR; ++i) nbasic += RS[i] == SPxSolverBase<double>::BASIC;

   for(int j = 0; j < nC; ++j) nbasic += CS[j] == SPxSolverBase<double>::BASIC;

   if(nbasic != nR)
   {
      if(g_verbose) printf("  basis has %d basic variables for %d rows\n", nbasic, nR);
      bad |= 512;
   }
   else
   {
      SoPlex chk;
      loadInto(chk, orig);
      chk.setBasis(RS.data(), CS.data());
      SPxSolverBase<double>::Status st = chk.optimize();

      if(st != SPxSolverBase<double>::OPTIMAL || chk.numIterations() != 0)
      {
         if(g_verbose) printf("  postsolved basis is not optimal: status %d after %d iterations\n", (int)st,
                                 chk.numIterations());
         bad |= 1024;
      }
   }

   return bad;
}

// ---------------------------------------------------------------------------------------------------------------------
// random small LPs rich in presolve structures
// usage: fuzz <first seed> <number of seeds> [verbose 0/1/2 (2 = presolve log + postsolved vectors)] [dump 0/1: write seed<N>.lp for failing seeds]
// seed t: bit 0 = maximise, bit 1 = keepbounds, presolve seed = t
// ---------------------------------------------------------------------------------------------------------------------
#include <random>
#include <string>

static std::mt19937 rng;
static int ri(int a, int b)
{
   return std::uniform_int_distribution<int>(a, b)(rng);
}

static void gen(SPxLPBase<double>& lp, bool maxi)
{
   int nC = ri(2, 7), nR = ri(1, 7);
   lp.changeSense(maxi ? SPxLPBase<double>::MAXIMIZE : SPxLPBase<double>::MINIMIZE);
   std::vector<std::vector<double> > A(nR, std::vector<double>(nC, 0.0));
   std::vector<double> lhs(nR), rhs(nR), lo(nC), up(nC), c(nC);

   for(int j = 0; j < nC; ++j)
   {
      int t = ri(0, 9);

      if(t <= 3) { lo[j] = 0; up[j] = infinity; }
      else if(t <= 5) { lo[j] = ri(-3, 1); up[j] = lo[j] + ri(1, 6); }
      else if(t == 6) { lo[j] = -infinity; up[j] = infinity; }
      else if(t == 7) { lo[j] = up[j] = ri(-2, 3); }
      else if(t == 8) { lo[j] = -infinity; up[j] = ri(-1, 5); }
      else { lo[j] = ri(-2, 2); up[j] = infinity; }

      c[j] = ri(0, 3) == 0 ? 0 : ri(-4, 4);
   }

   for(int i = 0; i < nR; ++i)
   {
      int t = ri(0, 9);
      int nnz;

      if(t == 0) nnz = 0;
      else if(t <= 2) nnz = 1;
      else if(t <= 5) nnz = 2;
      else nnz = ri(2, nC);

      for(int k = 0; k < nnz; ++k) { int v = ri(-3, 3); A[i][ri(0, nC - 1)] = v; }

      int s = ri(0, 9);
      int b = ri(-4, 8);

      if(s <= 2) { lhs[i] = rhs[i] = b; }
      else if(s <= 5) { lhs[i] = -infinity; rhs[i] = b; }
      else if(s <= 7) { lhs[i] = b; rhs[i] = infinity; }
      else if(s == 8) { lhs[i] = b; rhs[i] = b + ri(1, 5); }
      else { lhs[i] = -infinity; rhs[i] = infinity; }
   }

   // duplicate rows
   if(nR >= 2 && ri(0, 2) == 0)
   {
      int a = ri(0, nR - 1), b = ri(0, nR - 1);

      if(a != b)
      {
         int f = ri(0, 1) ? ri(1, 3) : -ri(1, 3);

         for(int j = 0; j < nC; ++j) A[b][j] = f * A[a][j];
      }
   }

   // duplicate columns
   if(nC >= 2 && ri(0, 2) == 0)
   {
      int a = ri(0, nC - 1), b = ri(0, nC - 1);

      if(a != b)
      {
         int f = ri(0, 1) ? ri(1, 3) : -ri(1, 3);

         for(int i = 0; i < nR; ++i) A[i][b] = f * A[i][a];

         if(ri(0, 1)) c[b] = f * c[a];
      }
   }

   for(int i = 0; i < nR; ++i)
      lp.addRow(LPRowBase<double>(lhs[i], DSVectorBase<double>(), rhs[i]));

   for(int j = 0; j < nC; ++j)
   {
      DSVectorBase<double> col;

      for(int i = 0; i < nR; ++i) if(A[i][j] != 0) col.add(i, A[i][j]);

      lp.addCol(LPColBase<double>(c[j], col, up[j], lo[j]));
   }
}

static std::string kinds(int code)
{
   if(code < 20)
   {
      switch(code)
      {
      case 10: return "verdict INFEASIBLE is false";
      case 11: return "verdict UNBOUNDED/DUAL_INFEASIBLE is false";
      case 12: return "reduced LP not optimal but original is";
      case 13: return "reduced LP optimal but original is not";
      case 14: return "presolve solved an LP that has no optimum";
      }
   }

   if(code == 20) return "dimension mismatch";

   static const char* names[] = {"primal-bound-violation", "redcost!=c-A^Ty", "redcost-sign", "col-status-vs-value",
                                 "slack!=Ax", "row-violation", "dual-sign", "row-status-vs-activity", "objective",
                                 "number-of-basics", "basis-not-optimal", "objective-offset"
                                };
   std::string s;

   for(int b = 0; b < 12; ++b)
      if(code & (1 << b)) { if(!s.empty()) s += ","; s += names[b]; }

   return s;
}

int main(int argc, char** argv)
{
   int start = argc > 1 ? atoi(argv[1]) : 0;
   int n = argc > 2 ? atoi(argv[2]) : 1000;
   g_verbose = argc > 3 ? atoi(argv[3]) : 0;
   int dump = argc > 4 ? atoi(argv[4]) : 0;
   int fails = 0;

   for(int t = start; t < start + n; ++t)
   {
      rng.seed(t);
      SPxLPBase<double> lp;
      lp.setTolerances(std::make_shared<Tolerances>());
      gen(lp, t & 1);
      int code = checkProperty(lp, (t >> 1) & 1, t);

      if(code)
      {
         ++fails;
         printf("seed %d (%s, keepbounds=%d, %dx%d): code %d: %s\n", t, (t & 1) ? "max" : "min", (t >> 1) & 1, lp.nRows(),
                lp.nCols(), code, kinds(code).c_str());

         if(dump)
         {
            std::string fn = "seed" + std::to_string(t) + ".lp";
            lp.writeFileLPBase(fn.c_str());
         }
      }
   }

   printf("fails %d / %d\n", fails, n);
   return fails != 0;
}
