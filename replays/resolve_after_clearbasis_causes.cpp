#include "soplex.h"
#include <iostream>
#include <cstring>
using namespace soplex;
int main(int argc,char**argv){ int mode=atoi(argv[2]);
  SoPlex a; a.setIntParam(SoPlex::VERBOSITY,0); if(mode&2) a.setBoolParam(SoPlex::PERSISTENTSCALING,false); if(mode&4) a.setIntParam(SoPlex::SCALER,0); if(mode&8) a.setIntParam(SoPlex::SIMPLIFIER,0);
  if(!a.readFile(argv[1])) return 3; a.optimize();
  int it1=a.numIterations(); int n=a.numColsReal(); VectorReal p1(n); a.getPrimal(p1);
  a.clearBasis(); if(mode&1) a.setRandomSeed(a.randomSeed()); a.optimize();
  int it2=a.numIterations(); VectorReal p2(n); a.getPrimal(p2);
  std::cout<<"mode "<<mode<<": iterations "<<it1<<" / "<<it2<<(memcmp(p1.get_const_ptr(),p2.get_const_ptr(),8*n)?" primal differs":" primal identical")<<"\n"; return 0; }
