// F17 (C14/C07): writeBasisFile(cpxFormat=true) with the LP held outside the solver reads _rowTypes[],
// which is only maintained when a rational LP exists (empty in SYNCMODE_ONLYREAL).
#include "soplex.h"
#include <iostream>
using namespace soplex;
int main(){
  SoPlex s; s.setIntParam(SoPlex::VERBOSITY,0);   // SYNCMODE_ONLYREAL is the default
  s.setIntParam(SoPlex::SIMPLIFIER, SoPlex::SIMPLIFIER_OFF); s.setIntParam(SoPlex::SCALER, SoPlex::SCALER_BIEQUI); s.setBoolParam(SoPlex::PERSISTENTSCALING,false);
  s.setIntParam(SoPlex::OBJSENSE, SoPlex::OBJSENSE_MINIMIZE);
  s.optimize();                                   // empty LP: leaves the LP outside the solver
  DSVector dummy(0);
  for(int j=0;j<2;j++) s.addColReal(LPCol(1.0, dummy, 10.0, 0.0));
  for(int i=0;i<2;i++){ DSVector r(2); r.add(i,1.0); s.addRowReal(LPRow(0.0, r, 5.0)); }
  SPxSolver::VarStatus rows[2]={SPxSolver::ON_UPPER,SPxSolver::ON_UPPER}, cols[2]={SPxSolver::BASIC,SPxSolver::BASIC};
  s.setBasis(rows, cols);
  std::cout<<"hasBasis="<<s.hasBasis()<<"; calling writeBasisFile(cpxFormat=true)\n";
  bool ok=s.writeBasisFile("f17.bas", nullptr, nullptr, true);
  std::cout<<"returned "<<ok<<"\n";
  return 0;
}
