// F20: _removeRowsReal / _removeColsReal remap the stored basis with a loop bounded by numRows()/numCols()
// *after* the removal; entries at or beyond the new dimension - exactly the ones that move - are never visited.
// State "LP held outside the solver + basis" reached as in unloaded_basis.cpp.
#include "soplex.h"
#include <iostream>
using namespace soplex;
int main(){
  SoPlex s; s.setIntParam(SoPlex::VERBOSITY,0);
  s.setIntParam(SoPlex::SIMPLIFIER, SoPlex::SIMPLIFIER_OFF);
  s.setIntParam(SoPlex::SCALER, SoPlex::SCALER_BIEQUI);
  s.setBoolParam(SoPlex::PERSISTENTSCALING,false);
  s.optimize();
  DSVector dummy(0);
  for(int j=0;j<4;j++) s.addColReal(LPCol(1.0+j, dummy, 10.0, 0.0));
  for(int i=0;i<4;i++){ DSVector r(4); r.add(i,1.0); s.addRowReal(LPRow(1.0, r, infinity)); }
  // rows 0,1 basic, rows 2,3 nonbasic (on lower); cols 0,1 basic, cols 2,3 on lower  => 4 basic for 4 rows
  SPxSolver::VarStatus rows[4]={SPxSolver::BASIC,SPxSolver::BASIC,SPxSolver::ON_LOWER,SPxSolver::ON_LOWER};
  SPxSolver::VarStatus cols[4]={SPxSolver::BASIC,SPxSolver::BASIC,SPxSolver::ON_LOWER,SPxSolver::ON_LOWER};
  s.setBasis(rows, cols);
  std::cout<<"hasBasis="<<s.hasBasis()<<"\n";
  // remove the two BASIC rows 0 and 1: the nonbasic rows 2,3 move to positions 0,1; the basis loses two basic
  // variables and stays valid (2 rows, basic: cols 0,1).  perm is filled by the call.
  int idx[2]={0,1};
  s.removeRowsReal(idx,2);
  std::cout<<"after removing rows 0,1: numRows="<<s.numRows()<<" hasBasis="<<s.hasBasis()<<"\n";
  int bad=0;
  if(s.hasBasis()){
    for(int i=0;i<s.numRows();i++){ std::cout<<" row "<<i<<" status "<<s.basisRowStatus(i)<<" (expected ON_LOWER="<<SPxSolver::ON_LOWER<<")\n"; if(s.basisRowStatus(i)!=SPxSolver::ON_LOWER) bad=1; }
  }
  std::cout<<(bad?"FAIL: survivors kept the statuses of the removed rows\n":"ok\n");
  return bad;
}
