// F28: the basis-inverse / basis-multiply queries dereference _scaler guarded only by `unscale && _solver.isScaled()`.
// With persistent scaling the LP stays scaled after setIntParam(SCALER, SCALER_OFF), which sets _scaler = nullptr.
#include "soplex.h"
#include <iostream>
#include <vector>
using namespace soplex;
int main(){
  SoPlex s; s.setIntParam(SoPlex::VERBOSITY,0); s.setIntParam(SoPlex::SIMPLIFIER, SoPlex::SIMPLIFIER_OFF);
  s.setBoolParam(SoPlex::PERSISTENTSCALING,true); s.setIntParam(SoPlex::OBJSENSE, SoPlex::OBJSENSE_MINIMIZE);
  DSVector dummy(0);
  for(int j=0;j<3;j++) s.addColReal(LPCol(1.0+j, dummy, 10.0, 0.0));
  for(int i=0;i<2;i++){ DSVector r(3); r.add(i,1024.0); r.add(2,3.0/512); s.addRowReal(LPRow(1.0, r, infinity)); }
  s.optimize(); std::cout<<"status "<<s.status()<<" hasBasis "<<s.hasBasis()<<std::endl;
  s.setIntParam(SoPlex::SCALER, SoPlex::SCALER_OFF);
  std::vector<double> coef(2); std::cout<<"calling getBasisInverseRowReal(0, unscale=true) with the scaler switched off..."<<std::endl;
  bool ok=s.getBasisInverseRowReal(0, coef.data(), nullptr, nullptr, true);
  std::cout<<"returned "<<ok<<" coef="<<coef[0]<<","<<coef[1]<<"\n";
  return 0;
}
