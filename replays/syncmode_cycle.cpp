// F42: setIntParam(SYNCMODE, ...) AUTO -> ONLYREAL -> MANUAL.  Switching to ONLYREAL frees the rational LP but keeps the range-type
// arrays _rowTypes / _colTypes at their old sizes; switching to MANUAL then creates an empty rational LP next to them, and the
// consistency check at the end of setIntParam (`_colTypes.size() == numColsRational()`) fails: abort in builds with assertions, and
// without them stale range types that the next _syncLPRational / addColRational extends instead of rebuilding.
#include "soplex.h"
#include <iostream>
using namespace soplex;
int main(int argc, char** argv)
{
   SoPlex s;
   s.setIntParam(SoPlex::VERBOSITY, 0);
   s.readFile(argc > 1 ? argv[1] : "/repo/check/instances/afiro.mps");
   s.setIntParam(SoPlex::SYNCMODE, SoPlex::SYNCMODE_AUTO);
   s.setIntParam(SoPlex::SYNCMODE, SoPlex::SYNCMODE_ONLYREAL);
   bool ok = s.setIntParam(SoPlex::SYNCMODE, SoPlex::SYNCMODE_MANUAL);
   std::cout << "MANUAL accepted: " << ok << ", rational LP has " << s.numColsRational() << " columns" << std::endl;
   // in manual mode the user fills the rational LP himself
   DSVectorRational col(0);
   s.addColRational(LPColRational(Rational(1), col, Rational(10), Rational(0)));
   std::cout << "rational LP now has " << s.numColsRational() << " column(s)" << std::endl;
   return 0;
}
