// F58 / F59: random small structured LPs (singleton rows and columns, doubleton equations, duplicate and empty rows, fixed and free
// columns), solved with and without the internal simplifier; compares status and objective and checks the KKT conditions of the
// postsolved solution.  Before the fixes: seed 1169 returned duals that violate r = c - A^T y (AggregationPS), seed 4234 aborted on
// assert(lower <= upper) (crossing bounds after a row-singleton step whose INFEASIBLE verdict was dropped).  The remaining
// differences (ABORT_CYCLING without presolve on unbounded LPs) are not decided by any rule.
// usage: presolve_random_lps [number of seeds, default 3000]
#include "soplex.h"
#include <iostream>
#include <vector>
#include <cmath>
#include <random>
using namespace soplex;
static int bad=0;
#define CHECK(c,msg) do{ if(!(c)){ bad++; if(bad<25) std::cout<<"FAIL: "<<msg<<std::endl; } }while(0)
static void build(SoPlex& s, unsigned seed){ std::mt19937 rng(seed); int n=2+rng()%7, m=1+rng()%7; auto iv=[&](int a,int b){ return a+(int)(rng()%(b-a+1)); };
  s.setIntParam(SoPlex::OBJSENSE, (rng()%2)?SoPlex::OBJSENSE_MINIMIZE:SoPlex::OBJSENSE_MAXIMIZE);
  for(int j=0;j<n;j++){ DSVector c(0); int t=rng()%7; double lo,up; switch(t){ case 0: lo=0;up=infinity;break; case 1: lo=-infinity;up=infinity;break; case 2: lo=iv(-3,0);up=iv(1,5);break; case 3: lo=up=iv(-2,2);break; case 4: lo=-infinity;up=iv(0,4);break; case 5: lo=iv(-4,0);up=infinity;break; default: lo=0;up=iv(1,3);} s.addColReal(LPCol((rng()%5==0)?0.0:iv(-4,4),c,up,lo)); }
  std::vector<DSVector> rows;
  for(int i=0;i<m;i++){ DSVector r(n); int kind=rng()%8; if(kind==0){ r.add(iv(0,n-1),iv(1,3)*((rng()%2)?1:-1)); } else if(kind==1 && n>=2){ int a=iv(0,n-1),b=iv(0,n-1); if(a==b) b=(a+1)%n; r.add(a,iv(1,3)); r.add(b,iv(-3,3)==0?1:iv(-3,-1)); } else if(kind==2 && !rows.empty()){ const DSVector& o=rows[rng()%rows.size()]; int f=iv(1,2)*((rng()%2)?1:-1); for(int k=0;k<o.size();k++) r.add(o.index(k),o.value(k)*f); } else if(kind==3){ /* empty row */ } else { for(int j=0;j<n;j++) if(rng()%2) r.add(j,iv(-3,3)==0?1:iv(-3,3)); }
    // clean zero entries
    DSVector r2(n); for(int k=0;k<r.size();k++) if(r.value(k)!=0) r2.add(r.index(k),r.value(k)); rows.push_back(r2);
    int st=rng()%5; double lhs,rhs; switch(st){ case 0: lhs=-infinity; rhs=iv(0,8); break; case 1: lhs=iv(-8,0); rhs=infinity; break; case 2: lhs=rhs=iv(-3,3); break; case 3: lhs=iv(-6,0); rhs=lhs+iv(0,8); break; default: lhs=-infinity; rhs=infinity; }
    s.addRowReal(LPRow(lhs,r2,rhs)); } }
static bool kktok(SoPlex& s){ int m=s.numRowsReal(), n=s.numColsReal(); std::vector<double> x(n),y(m),r(n); if(!s.getPrimalReal(x.data(),n)||!s.getDualReal(y.data(),m)||!s.getRedCostReal(r.data(),n)) return false; double tol=1e-6; std::vector<double> act(m,0.0),da(n,0.0); for(int i=0;i<m;i++){ DSVector row; s.getRowVectorReal(i,row); for(int k=0;k<row.size();k++){ act[i]+=row.value(k)*x[row.index(k)]; da[row.index(k)]+=row.value(k)*y[i]; } }
  bool mini=s.intParam(SoPlex::OBJSENSE)==SoPlex::OBJSENSE_MINIMIZE; for(int i=0;i<m;i++){ if(act[i]<s.lhsReal(i)-tol||act[i]>s.rhsReal(i)+tol) return false; double yy=mini?y[i]:-y[i]; if(yy>tol && std::fabs(act[i]-s.lhsReal(i))>1e-5) return false; if(yy<-tol && std::fabs(act[i]-s.rhsReal(i))>1e-5) return false; }
  for(int j=0;j<n;j++){ if(x[j]<s.lowerReal(j)-tol||x[j]>s.upperReal(j)+tol) return false; if(std::fabs(r[j]-(s.objReal(j)-da[j]))>1e-5) return false; double rr=mini?r[j]:-r[j]; if(rr>tol && std::fabs(x[j]-s.lowerReal(j))>1e-5) return false; if(rr<-tol && std::fabs(x[j]-s.upperReal(j))>1e-5) return false; } return true; }
int main(int argc,char**argv){ int N=argc>1?atoi(argv[1]):3000;
 for(int seed=1;seed<=N;seed++){ SoPlex a,b; a.setIntParam(SoPlex::VERBOSITY,0); b.setIntParam(SoPlex::VERBOSITY,0); a.setIntParam(SoPlex::SIMPLIFIER,SoPlex::SIMPLIFIER_INTERNAL); b.setIntParam(SoPlex::SIMPLIFIER,SoPlex::SIMPLIFIER_OFF); build(a,seed); build(b,seed);
   SPxSolver::Status sa=a.optimize(), sb=b.optimize();
   bool cmp = (sa==sb) || ((sa==SPxSolver::INForUNBD||sa==SPxSolver::INFEASIBLE||sa==SPxSolver::UNBOUNDED)&&(sb==SPxSolver::INFEASIBLE||sb==SPxSolver::UNBOUNDED||sb==SPxSolver::INForUNBD));
   CHECK(cmp,"seed "<<seed<<": status with presolve "<<sa<<" without "<<sb);
   if(sa==SPxSolver::OPTIMAL&&sb==SPxSolver::OPTIMAL){ CHECK(std::fabs(a.objValueReal()-b.objValueReal())<=1e-6*(1+std::fabs(b.objValueReal())),"seed "<<seed<<": objective with presolve "<<a.objValueReal()<<" without "<<b.objValueReal()); CHECK(kktok(a),"seed "<<seed<<": KKT violated by the postsolved solution"); CHECK(kktok(b),"seed "<<seed<<": KKT violated without presolve");
     if(a.hasBasis()){ int m=a.numRowsReal(), n=a.numColsReal(); std::vector<SPxSolver::VarStatus> r(m),c(n); a.getBasis(r.data(),c.data()); int nb=0; for(auto v:r) nb+=v==SPxSolver::BASIC; for(auto v:c) nb+=v==SPxSolver::BASIC; CHECK(nb==m,"seed "<<seed<<": "<<nb<<" basic for "<<m<<" rows after presolved solve"); } }
 }
 std::cout<<"failures "<<bad<<std::endl; return bad?1:0; }
