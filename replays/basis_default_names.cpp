// F1 (C14): a basis written with default names cannot be read back with default names.
#include "soplex.h"
#include <iostream>
using namespace soplex;
int main(){
  SoPlex s; s.setIntParam(SoPlex::VERBOSITY,0);
  s.setIntParam(SoPlex::OBJSENSE, SoPlex::OBJSENSE_MINIMIZE);
  DSVector dummy(0);
  for(int j=0;j<3;j++) s.addColReal(LPCol(1.0+j, dummy, 10.0, 0.0));
  for(int i=0;i<2;i++){ DSVector r(3); r.add(i,1.0); r.add(2,1.0); s.addRowReal(LPRow(1.0, r, infinity)); }
  s.optimize();
  std::cout<<"status "<<s.status()<<" obj "<<s.objValueReal()<<"\n";
  s.writeBasisFile("t.bas", nullptr, nullptr);
  bool ok = s.readBasisFile("t.bas", nullptr, nullptr);
  std::cout<<"readBasisFile(default names) -> "<<ok<<" hasBasis="<<s.hasBasis()<<"  (expected 1 1)\n";
  return ok ? 0 : 1;
}
