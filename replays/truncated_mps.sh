#!/bin/sh
# F25: an MPS file that ends before ENDATA made MPSInput::readLine spin forever (exit 124 from timeout before the fix).
head -c 600 /repo/check/instances/afiro.mps > /tmp/trunc_f25.mps
timeout 10 /repo/_build/bin/soplex /tmp/trunc_f25.mps > /dev/null 2>&1
rc=$?
rm -f /tmp/trunc_f25.mps
[ $rc -eq 124 ] && { echo "FAIL: reader did not terminate"; exit 1; }
echo "ok (rc=$rc)"
