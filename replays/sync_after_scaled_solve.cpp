// F48: solve in floating point (default: persistent scaling scales the real LP in place), then switch SYNCMODE from ONLYREAL to AUTO.
// _syncLPRational copied the *scaled* real LP into the rational LP: assertion `old.lp_scaler == nullptr` in builds with assertions,
// and without them a rational LP that holds scaled coefficients, i.e. not the user's LP - the exact solve then certifies another problem.
#include "soplex.h"
#include <iostream>
using namespace soplex;
int main(int argc, char** argv)
{
   const char* f = argc > 1 ? argv[1] : "/repo/check/instances/adlittle.mps";
   SoPlex s;
   s.setIntParam(SoPlex::VERBOSITY, 0);
   s.readFile(f);
   s.optimize();
   s.setIntParam(SoPlex::SYNCMODE, SoPlex::SYNCMODE_AUTO);
   int bad = 0;
   for(int i = 0; i < s.numRowsReal(); i++)
   {
      DSVector r;
      s.getRowVectorReal(i, r);
      const SVectorRational& q = s.rowVectorRational(i);
      for(int k = 0; k < r.size(); k++)
      {
         int p = q.pos(r.index(k));
         if(p < 0 || q.value(p) != Rational(r.value(k))) bad++;
      }
      if(s.lhsReal(i) > -infinity && s.lhsRational(i) != Rational(s.lhsReal(i))) bad++;
      if(s.rhsReal(i) < infinity && s.rhsRational(i) != Rational(s.rhsReal(i))) bad++;
   }
   std::cout << "entries of the rational LP that differ from the user's (unscaled) real LP: " << bad << std::endl;
   s.setIntParam(SoPlex::SOLVEMODE, SoPlex::SOLVEMODE_RATIONAL);
   s.setRealParam(SoPlex::FEASTOL, 0.0);
   s.setRealParam(SoPlex::OPTTOL, 0.0);
   SPxSolver::Status st = s.optimize();
   SoPlex t;
   t.setIntParam(SoPlex::VERBOSITY, 0);
   t.setIntParam(SoPlex::SYNCMODE, SoPlex::SYNCMODE_AUTO);
   t.setIntParam(SoPlex::SOLVEMODE, SoPlex::SOLVEMODE_RATIONAL);
   t.setRealParam(SoPlex::FEASTOL, 0.0);
   t.setRealParam(SoPlex::OPTTOL, 0.0);
   t.readFile(f);
   t.optimize();
   std::cout << "exact solve after the switch: status " << st << " objective ~ " << double(s.objValueRational()) << "\nexact solve of the file     : status " << t.status() << " objective ~ " << double(t.objValueRational()) << (s.objValueRational() == t.objValueRational() ? "  (equal as rationals)" : "  (DIFFERENT)") << std::endl;
   return (bad == 0 && st == t.status() && s.objValueRational() == t.objValueRational()) ? 0 : 1;
}
