#!/bin/bash
# F39: LPFhasKeyword("gen[erals]") let a ']' in the INPUT match the closing bracket of the keyword pattern; the index then
# stood behind the pattern's own ']' and the following `while(keyword[i] != ']') i++;` ran off the end of the string literal
# (AddressSanitizer: global-buffer-overflow in LPFhasKeyword).  Needs ASan to be visible: without it the scan continues into the
# neighbouring literals.  Builds a small ASan reader from the sources of the tree given as $1 (default /repo) in a scratch directory.
root=${1:-/repo}
in=$(cd "$(dirname "$0")" && pwd)/inputs/keyword_bracket.lp
t=$(mktemp -d /tmp/spxreplay.XXXXXX)
trap 'rm -rf "$t"' EXIT
cat > $t/r.cpp <<'CPP'
#include "soplex.h"
#include <fstream>
#include <iostream>
using namespace soplex;
int main(int argc, char** argv)
{
   std::ifstream in(argv[1]);
   SPxOut out; out.setVerbosity(SPxOut::ERROR);
   SPxLPBase<Real> lp; lp.spxout = &out; lp.setTolerances(std::make_shared<Tolerances>());
   NameSet rn, cn; DIdxSet ints;
   bool ok = lp.readLPF(in, &rn, &cn, &ints);
   std::cout << "readLPF returned " << ok << std::endl;
   return 0;
}
CPP
FL="-std=gnu++14 -g -O1 -fsanitize=address -I$root/src -I${root}/_build -I/repo/_build"
ls $root/src/soplex/*.cpp | grep -v git_hash.cpp | xargs -P8 -I{} sh -c "clang++ $FL -c {} -o $t/\$(basename {} .cpp).o" || exit 2
clang++ $FL $t/r.cpp $t/*.o -o $t/r -lmpfr -lgmp -lz || exit 2
$t/r "$in" 2>&1 | grep -E "readLPF returned|ERROR: AddressSanitizer|SUMMARY" | head -3
[ ${PIPESTATUS[0]} -eq 0 ]
