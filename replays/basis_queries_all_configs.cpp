// F6 / F33 / F32: every basis query of C05 against the explicit basis matrix B (built from getBasisInd + getColVectorReal), for
// {COLUMN, ROW} representation x scalers {off, bi-equi, geo8, geo-equi} x persistent scaling {off, on}, unscale = true.
// Prints the maximal error of  B * invcol_k - e_k,  invrow_k * B - e_k^T,  solve(B v) - v,  multBasis(v) - B v,
// multBasisTranspose(v) - v^T B  and the number of mismatches between the sparse index output and the nonzeros.
// Exit 1 if any error exceeds 1e-6 * scale.  Before the fixes: ROW + persistent scaling aborted in getBasisInverseColReal
// (assertion in DataArray::operator[]), solve was off by up to 1e6, multBasis by |B v|.
#include "soplex.h"
#include <iostream>
#include <vector>
#include <cmath>
using namespace soplex;
static int g_bad=0;
static void Bx(SoPlex& s, const std::vector<int>& bind, const std::vector<double>& x, std::vector<double>& out){
  int m=s.numRowsReal(); out.assign(m,0.0);
  for(int i=0;i<m;i++){ if(bind[i]<0) out[-bind[i]-1]+=x[i]; else { DSVector c; s.getColVectorReal(bind[i],c); for(int k=0;k<c.size();k++) out[c.index(k)]+=x[i]*c.value(k);} }
}
static void xB(SoPlex& s, const std::vector<int>& bind, const std::vector<double>& x, std::vector<double>& out){
  int m=s.numRowsReal(); out.assign(m,0.0);
  for(int i=0;i<m;i++){ if(bind[i]<0) out[i]=x[-bind[i]-1]; else { DSVector c; s.getColVectorReal(bind[i],c); double d=0; for(int k=0;k<c.size();k++) d+=x[c.index(k)]*c.value(k); out[i]=d;} }
}
static int run(int rep,int scaler,bool persist,const char* file){
  SoPlex s; s.setIntParam(SoPlex::VERBOSITY,0); s.setIntParam(SoPlex::SIMPLIFIER,0); s.setIntParam(SoPlex::REPRESENTATION,rep); s.setIntParam(SoPlex::SCALER,scaler);
  s.setBoolParam(SoPlex::PERSISTENTSCALING,persist);
  s.readFile(file); s.optimize(); int m=s.numRowsReal();
  std::vector<int> bind(m); s.getBasisInd(bind.data());
  double eCol=0,eRow=0,eSolve=0,eMT=0,eM=0; int spbad=0;
  std::vector<double> v(m),w(m),t(m);
  for(int k=0;k<m;k+= (m>40? m/20:1)){
    std::vector<double> col(m,0.0); std::vector<int> inds(m); int n=-1;
    if(!s.getBasisInverseColReal(k,col.data(),inds.data(),&n,true)){std::cout<<"col false\n";return 2;}
    Bx(s,bind,col,w); for(int i=0;i<m;i++) eCol=std::max(eCol,std::fabs(w[i]-(i==k)));
    if(n>=0){ std::vector<char> in(m,0); for(int j=0;j<n;j++) in[inds[j]]=1; for(int i=0;i<m;i++) if((col[i]!=0)!=(in[i]!=0)) spbad++; }
    std::vector<double> row(m,0.0); n=-1;
    if(!s.getBasisInverseRowReal(k,row.data(),inds.data(),&n,true)){std::cout<<"row false\n";return 2;}
    xB(s,bind,row,w); for(int i=0;i<m;i++) eRow=std::max(eRow,std::fabs(w[i]-(i==k)));
    if(n>=0){ std::vector<char> in(m,0); for(int j=0;j<n;j++) in[inds[j]]=1; for(int i=0;i<m;i++) if((row[i]!=0)!=(in[i]!=0)) spbad++; }
  }
  for(int i=0;i<m;i++) v[i]=1.0+(i%5)*0.5;
  Bx(s,bind,v,w); std::vector<double> sol(m); if(!s.getBasisInverseTimesVecReal(w.data(),sol.data(),true)){std::cout<<"tv false\n";return 2;}
  for(int i=0;i<m;i++) eSolve=std::max(eSolve,std::fabs(sol[i]-v[i]));
  Bx(s,bind,v,w); t=v; s.multBasis(t.data(),true); for(int i=0;i<m;i++) eM=std::max(eM,std::fabs(t[i]-w[i]));
  xB(s,bind,v,w); t=v; s.multBasisTranspose(t.data(),true); for(int i=0;i<m;i++) eMT=std::max(eMT,std::fabs(t[i]-w[i]));
  double worst=std::max(std::max(eCol,eRow),std::max(eSolve,std::max(eM,eMT))); g_bad |= (worst>1e-6*(1+std::fabs(s.objValueReal())) || spbad>0);
  std::cout<<(rep==2?"ROW":"COL")<<" scaler "<<scaler<<" persist "<<persist<<": invcol "<<eCol<<" invrow "<<eRow<<" solve "<<eSolve<<" mult "<<eM<<" multT "<<eMT<<" sparsity-mismatch "<<spbad<<std::endl;
  return 0;
}
int main(int argc,char**argv){ const char* f=argc>1?argv[1]:"/repo/check/instances/adlittle.mps";
 for(int rep=1;rep<=2;rep++) for(int sc=0;sc<=6;sc+=2) for(int p=0;p<2;p++) run(rep,sc,p,f);
 return g_bad; }
