// F29: the exact solver computes the rational objective value as primal*obj and never adds the objective offset.
#include "soplex.h"
#include <iostream>
using namespace soplex;
int main(){
  SoPlex s; s.setIntParam(SoPlex::VERBOSITY,0);
  s.setIntParam(SoPlex::SYNCMODE, SoPlex::SYNCMODE_AUTO); s.setIntParam(SoPlex::SOLVEMODE, SoPlex::SOLVEMODE_RATIONAL);
  s.setIntParam(SoPlex::READMODE, SoPlex::READMODE_RATIONAL); s.setIntParam(SoPlex::CHECKMODE, SoPlex::CHECKMODE_RATIONAL);
  s.setRealParam(SoPlex::FEASTOL,0.0); s.setRealParam(SoPlex::OPTTOL,0.0);
  s.setIntParam(SoPlex::OBJSENSE, SoPlex::OBJSENSE_MINIMIZE);
  DSVectorRational dummy(0);
  s.addColRational(LPColRational(Rational(1), dummy, Rational(10), Rational(2)));   // min x, 2 <= x <= 10
  DSVectorRational r(1); r.add(0, Rational(1)); s.addRowRational(LPRowRational(Rational(3), r, Rational(100)));   // x >= 3
  s.setRealParam(SoPlex::OBJ_OFFSET, 5.0);
  s.optimize();
  Rational obj=s.objValueRational();
  std::cout<<"status "<<s.status()<<" objValueRational="<<obj<<" objValueReal="<<s.objValueReal()<<" (c*x + offset = 3 + 5 = 8)\n";
  return obj==Rational(8)?0:1;
}
