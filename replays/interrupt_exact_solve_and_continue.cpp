// the interrupt flag raised during / before an exact solve: honest abort status, and the solve can be continued to the right answer afterwards
#include "soplex.h"
#include <iostream>
using namespace soplex;
int main(int argc, char** argv)
{
   const char* files[] = {"/repo/check/instances/adlittle.mps", "/repo/check/instances/afiro.mps", "/repo/check/instances/blend.mps"};
   int bad = 0;
   for(int k = 0; k < 3; k++) for(int boost = 0; boost <= 1; boost++)
   {
      SoPlex s; s.setIntParam(SoPlex::VERBOSITY, 0);
      s.setIntParam(SoPlex::READMODE, SoPlex::READMODE_RATIONAL); s.setIntParam(SoPlex::SOLVEMODE, SoPlex::SOLVEMODE_RATIONAL);
      s.setIntParam(SoPlex::SYNCMODE, SoPlex::SYNCMODE_AUTO); s.setIntParam(SoPlex::CHECKMODE, SoPlex::CHECKMODE_RATIONAL);
      s.setRealParam(SoPlex::FEASTOL, 0.0); s.setRealParam(SoPlex::OPTTOL, 0.0);
      s.setBoolParam(SoPlex::PRECISION_BOOSTING, boost != 0);
      s.readFile(files[k]);
      volatile bool stop = true;
      SPxSolver::Status st1 = s.optimize(&stop);
      stop = false;
      SPxSolver::Status st2 = s.optimize(&stop);
      SoPlex ref; ref.setIntParam(SoPlex::VERBOSITY, 0);
      ref.setIntParam(SoPlex::READMODE, SoPlex::READMODE_RATIONAL); ref.setIntParam(SoPlex::SOLVEMODE, SoPlex::SOLVEMODE_RATIONAL);
      ref.setIntParam(SoPlex::SYNCMODE, SoPlex::SYNCMODE_AUTO); ref.setIntParam(SoPlex::CHECKMODE, SoPlex::CHECKMODE_RATIONAL);
      ref.setRealParam(SoPlex::FEASTOL, 0.0); ref.setRealParam(SoPlex::OPTTOL, 0.0);
      ref.readFile(files[k]); ref.optimize();
      bool same = st2 == ref.status() && s.objValueRational() == ref.objValueRational();
      std::cout << files[k] << " boosting " << boost << ": interrupted status " << st1 << " (" << (int)st1 << "), continued " << st2 << ", equals uninterrupted exact solve: " << same << std::endl;
      if(st1 == SPxSolver::OPTIMAL || !same) bad = 1;
   }
   return bad;
}
