"""C11 — the rational LU factorization is exact (type and cache clauses)."""
from engine import render, strip, Graph, Assume, must, reachable_events, MustSummaries
from facts import AnalysisBroken, CALL_KINDS
import modifiers as M

EXPLANATION = (
    "Decides structural necessary conditions of C11: R11.1 no floating-point value enters a Rational anywhere in CLUFactorRational, "
    "SLUFactorRational and the SoPlexBase functions that assemble / query the rational basis matrix (conversion sites are discovered in "
    "the resolved AST: Boost.Multiprecision constructors, assignments and arithmetic operators with a floating operand; comparisons "
    "that only steer heuristics are listed, not judged; positive control: the same matcher must find the double->Rational conversions "
    "of the real modifiers in soplex.hpp); R11.2 the cached rational factorization is dropped by every entry point that can change the "
    "basis matrix, its dimension or the basis itself, in every sync mode in which that entry point mutates the rational LP (call-graph "
    "must-summaries under the sync-mode assumption); R11.3 the four exact basis queries (re)factorize when no valid factorization is "
    "cached, never solve with a factorization whose status is not OK, use the left solve for rows and the right solve for columns and "
    "vectors with the caller's index, and the basis matrix is assembled from the *rational* LP's columns and unit vectors according to "
    "the freshly refilled basis index array. NOT decided: that the elimination itself is implemented correctly, 'singular iff det = 0'.")

C = M.CLS
CMP = ('<', '>', '<=', '>=', '==', '!=')


def floaty(t):
    t = t.replace('const ', '').replace(' &', '').strip()
    return t in ('double', 'float', 'long double')


def conversion_sites(f):
    """(call node, floating argument) pairs where a floating value flows into a Rational operation"""
    out = []
    for n in f.nodes:
        if not n.is_call() or not n.n:
            continue
        if not ('boost::multiprecision' in n.n or n.n.startswith('Rational::') or (n.t == 'Rational' and n.k in ('CXXConstructExpr', 'CXXTemporaryObjectExpr'))):
            continue
        args = n.kids if n.k in ('CXXConstructExpr', 'CXXTemporaryObjectExpr') else n.args()
        if not ('Rational' in n.t or any('Rational' in b.t for b in args)):
            continue
        for a in args:
            s = strip(a)
            if floaty(a.t) and s.k not in ('FloatingLiteral', 'IntegerLiteral'):
                # a literal possibly negated / scaled by literals is still a literal
                if all(x.k in ('FloatingLiteral', 'IntegerLiteral', 'UnaryOperator', 'BinaryOperator', 'ImplicitCastExpr', 'ParenExpr') for x in s.walk()):
                    kind = 'literal-expr'
                else:
                    kind = 'value'
                out.append((n, a, kind))
    return out


def run(fb, rep, tier):
    _run(fb, rep, tier)
    index_domains(fb, rep)


def _run(fb, rep, tier):
    rep.extra['explanation'] = EXPLANATION
    rep.extra['assumptions'] = ['Boost.Multiprecision operators are the only way a double can enter a Rational (mpq_set_d is searched for by name as well)']
    # ------------------------------------------------------------------ R11.1
    rep.rule('R11.1', 'no non-literal floating value is converted into / combined arithmetically with a Rational in the rational LU classes and the basis-matrix assembly', floor=100)
    scope = []
    for cls in ('soplex::CLUFactorRational', 'soplex::SLUFactorRational'):
        ms = fb.methods_of(cls)
        if len(ms) < 30:
            raise AnalysisBroken('%s: only %d member functions with a body found' % (cls, len(ms)))
        scope += ms
    for nm in ('_computeBasisInverseRational', 'factorizeColumnRational', 'computeBasisInverseRational', 'getBasisInverseRowRational',
               'getBasisInverseColRational', 'getBasisInverseTimesVecRational', 'getBasisIndRational'):
        scope.append(fb.one(C + '::' + nm))
    cmp_notes = []
    for f in scope:
        key = '%s::%s(%s)' % ((f.cls or '').replace('soplex::', ''), f.short, ','.join(M.short_t(t) for _, t in f.params))
        sites = conversion_sites(f)
        bad = []
        for n, a, kind in sites:
            op = n.o if n.k == 'CXXOperatorCallExpr' else None
            short = n.short or ''
            is_cmp = (op in CMP) or any(short.startswith('operator' + c) for c in CMP)
            if is_cmp:
                cmp_notes.append('%s:%d %s compares a Rational with %s (steers a heuristic, no value enters a number)' % (f.file, n.l, f.short, render(a)))
                continue
            if kind == 'literal-expr':
                continue
            bad.append((n, a))
        mpq = [n for n in f.nodes if n.k == 'CallExpr' and n.short in ('__gmpq_set_d', 'mpq_set_d', '__gmpz_set_d')]
        if bad or mpq:
            n, a = bad[0] if bad else (mpq[0], mpq[0])
            rep.bad('R11.1', key, '%s:%d' % (f.file, n.l), 'floating value %s enters a Rational through %s' % (render(a), n.short))
        else:
            rep.ok('R11.1', key, f.where(), 'no floating value enters a Rational (%d conversion sites, all literal or comparisons)' % len(sites))
    rep.accepted_idioms += sorted(set(cmp_notes))
    # positive control
    ctl = 0
    for f in fb.methods_of(C):
        if not f.file.endswith('solverational.hpp'):
            ctl += sum(1 for n, a, kind in conversion_sites(f) if kind == 'value' and not (n.o in CMP))
    rep.rule('R11.1c', 'positive control: the conversion matcher finds the double->Rational conversions in soplex.hpp (tolerance setters, real modifiers)', floor=1)
    rep.check(ctl >= 5, 'R11.1c', 'control|real-modifiers', 'src/soplex.hpp', '%d conversions found' % ctl, 'the matcher finds only %d conversions in the real modifiers (>= 5 expected): it is blind' % ctl, nontrivial=False)
    if ctl < 5:
        raise AnalysisBroken('R11.1 positive control failed (%d)' % ctl)

    # ------------------------------------------------------------------ R11.2
    rep.rule('R11.2', 'every entry point that can change the basis matrix / its dimension / the basis drops the cached rational factorization, in every sync mode in which it mutates the rational LP', floor=60)

    def clr(n):
        return n.k == 'CXXMemberCallExpr' and n.short == 'clear' and M.obj_text(n) == '_rationalLUSolver'
    mods = M.discover(fb)
    for mode in M.MODES:
        ms = MustSummaries(fb, clr, M.mode_assume(mode), follow=lambda g: g.cls == C)
        for m in mods:
            if not m.structural:
                continue
            if m.field == 'Rational' and mode == 'SYNCMODE_ONLYREAL':
                continue      # documented early return, no rational LP
            if m.field == 'Real' and mode != 'SYNCMODE_AUTO':
                # the real LP changes; the cache must go because the basis it was built for is changed by the helper
                pass
            ok, path = ms.witness(m.fn)
            rep.check(ok, 'R11.2', m.key + '|' + mode, m.fn.where(), 'clears _rationalLUSolver on every path (directly or through a helper)',
                      'a normal path changes the %s LP structure but keeps the cached rational factorization' % ('rational' if m.field == 'Rational' else 'real'), path=path)
    ms = MustSummaries(fb, clr, None, follow=lambda g: g.cls == C)
    for nm, npar in (('setBasis', 2), ('clearBasis', 0), ('_syncLPReal', 1), ('clearLPReal', 0), ('clearLPRational', 0)):
        f = fb.one(C + '::' + nm, nparams=npar)
        ok, path = ms.witness(f)
        rep.check(ok, 'R11.2', nm + '|always', f.where(), 'clears _rationalLUSolver on every path', 'a normal path keeps the cached rational factorization', path=path)
    # successful reads of LP / basis files replace the LP / basis
    for nm in ('_readFileReal', '_readFileRational', 'readBasisFile'):
        f = fb.one(C + '::' + nm)
        ok, path = ms.witness(f)
        rep.check(ok, 'R11.2', nm + '|always', f.where(), 'clears _rationalLUSolver on every path', 'a normal path keeps the cached rational factorization', path=path)
    # a floating-point solve that iterated changes the basis
    f = fb.one(C + '::_solveRealLPAndRecordStatistics')
    has = [n for n in f.nodes if clr(n)]
    guarded = [n for n in has if any(a.k == 'IfStmt' and 'iterations()' in render(a.kid('cond')) and '> 0' in render(a.kid('cond')) for a in f.ancestors(n))]
    rep.check(bool(has) and (bool(guarded) or must(f, None, clr)[0]), 'R11.2', '_solveRealLPAndRecordStatistics|iterations>0', f.where(),
              'clears the cache when the solve performed iterations', 'a solve that changed the basis keeps the cached rational factorization')

    # ------------------------------------------------------------------ R11.3
    rep.rule('R11.3', 'exact basis queries: refactorize when needed, never solve unless status()==OK, left solve for rows / right solve for columns and vectors, matrix assembled from the rational LP by the refilled basis indices', floor=20)
    want = {'getBasisInverseRowRational': 'solveLeft', 'getBasisInverseColRational': 'solveRight', 'getBasisInverseTimesVecRational': 'solveRight'}
    notok = Assume(atoms={'(_rationalLUSolver.status() != OK)': True})
    for nm, solve in sorted(want.items()) + [('getBasisIndRational', None)]:
        f = fb.one(C + '::' + nm)
        w = f.where()
        solves = [n for n in f.nodes if n.k == 'CXXMemberCallExpr' and n.short in ('solveLeft', 'solveRight') and M.obj_text(n) == '_rationalLUSolver']
        if solve is not None:
            rep.check(len(solves) == 1 and solves[0].short == solve, 'R11.3', nm + '|solve-kind', w, 'uses ' + solve,
                      'uses %s, expected %s' % ([s.short for s in solves], solve))
            for s in solves:
                a = s.args()
                out, rhs = render(a[0]), render(a[1])
                p0, p1 = f.params[0][0], f.params[1][0]
                if nm == 'getBasisInverseTimesVecRational':
                    good = out == p1 and rhs == p0
                else:
                    good = out == p1 and rhs == '*_unitVectorRational(%s)' % p0
                rep.check(good, 'R11.3', nm + '|solve-args', '%s:%d' % (f.file, s.l), '%s(%s, %s)' % (s.short, out, rhs), 'solve arguments (%s, %s) do not match the query\'s parameters' % (out, rhs))
        ev = reachable_events(f, notok, lambda n: (n.k == 'CXXMemberCallExpr' and n.short in ('solveLeft', 'solveRight')) or
                              (n.k in ('CXXOperatorCallExpr', 'BinaryOperator') and n.o == '=' and '_rationalLUSolverBind' in render(n)))
        rep.check(not ev, 'R11.3', nm + '|guard', w, 'no solve / no result when the factorization is not OK', 'the factorization is used although its status is not OK: %s' % (render(ev[0]) if ev else ''))
        ok, p, _ = must(f, notok, lambda n: M.is_this_call(n, 'computeBasisInverseRational'))
        rep.check(ok, 'R11.3', nm + '|refactorize', w, 'computeBasisInverseRational() when no valid factorization is cached', 'a query with no valid factorization does not refactorize', path=p)
    f = fb.one(C + '::computeBasisInverseRational')
    w = f.where()
    A = Assume(atoms={'hasBasis()': False})
    ev = reachable_events(f, A, lambda n: M.is_this_call(n, '_computeBasisInverseRational'))
    rep.check(not ev, 'R11.3', 'computeBasisInverseRational|no-basis', w, 'no factorization without a basis', 'a factorization is computed without a basis')
    ok, p, _ = must(f, A, lambda n: n.k == 'CXXMemberCallExpr' and n.short == 'clear' and M.obj_text(n) == '_rationalLUSolver')
    rep.check(ok, 'R11.3', 'computeBasisInverseRational|no-basis-clears', w, 'cache cleared when no basis exists', 'the stale cache survives when no basis exists', path=p)
    # refill of the index array dominates the factorization
    g = Graph(f, None)
    fac = [n for n in f.nodes if M.is_this_call(n, '_computeBasisInverseRational')]
    for n in fac:
        b = g.block_of(n)
        ok1, _ = g.must_pass(lambda x: M.is_this_call(x, 'getBasisInd') and '_rationalLUSolverBind' in render(x), to=b)
        ok2, _ = g.must_pass(lambda x: x.k == 'CXXMemberCallExpr' and x.short == 'reSize' and M.obj_text(x) == '_rationalLUSolverBind' and 'numRowsRational()' in render(x), to=b)
        rep.check(ok1, 'R11.3', 'computeBasisInverseRational|refill-before-factorize', '%s:%d' % (f.file, n.l), 'getBasisInd(_rationalLUSolverBind) precedes the factorization', 'the basis index array is not refilled before factorizing')
        rep.check(ok2, 'R11.3', 'computeBasisInverseRational|resize-before-factorize', '%s:%d' % (f.file, n.l), 'index array resized to numRowsRational()', 'the basis index array is not resized before factorizing')
    if not fac:
        rep.unrec('R11.3', 'computeBasisInverseRational|factorize-call', w, 'call of _computeBasisInverseRational not found')
    # matrix assembly
    f = fb.one(C + '::_computeBasisInverseRational')
    w = f.where()
    assigns = [n for n in f.nodes if n.k in ('BinaryOperator', 'CXXOperatorCallExpr') and n.o == '=' and render(n.kids[0] if n.k == 'BinaryOperator' else n.args()[0]).startswith('matrix[') and not f.in_assert(n)]
    if len(assigns) != 2:
        rep.unrec('R11.3', '_computeBasisInverseRational|assembly', w, 'expected two assignments to matrix[i], found %d' % len(assigns))
    else:
        for n in assigns:
            rhs = render(n.kids[1] if n.k == 'BinaryOperator' else n.args()[1])
            arm = None
            for a in f.ancestors(n):
                if a.k == 'IfStmt' and render(a.kid('cond')) == '(_rationalLUSolverBind[i] >= 0)':
                    arm = 'col' if any(x.i == n.i for x in a.kid('then').walk()) else 'slack'
            if arm == 'col':
                rep.check(rhs == '&colVectorRational(_rationalLUSolverBind[i])', 'R11.3', '_computeBasisInverseRational|column-arm', '%s:%d' % (f.file, n.l), rhs,
                          'a basic column is taken from %s instead of the rational LP column _rationalLUSolverBind[i]' % rhs)
            elif arm == 'slack':
                rep.check(rhs == '_unitVectorRational((-1 - _rationalLUSolverBind[i]))', 'R11.3', '_computeBasisInverseRational|slack-arm', '%s:%d' % (f.file, n.l), rhs,
                          'a basic slack is represented by %s instead of the unit vector of row -1-bind[i]' % rhs)
            else:
                rep.unrec('R11.3', '_computeBasisInverseRational|assembly-arm', '%s:%d' % (f.file, n.l), 'assignment outside the bind[i] >= 0 split')
    loads = [n for n in f.nodes if n.k == 'CXXMemberCallExpr' and n.short == 'load' and M.obj_text(n) == '_rationalLUSolver']
    ok, p, _ = must(f, None, lambda n: n.k == 'CXXMemberCallExpr' and n.short == 'load' and M.obj_text(n) == '_rationalLUSolver')
    rep.check(ok and len(loads) == 1 and render(loads[0].args()[1]) == 'matrixdim', 'R11.3', '_computeBasisInverseRational|load', w, 'loads the assembled matrix with its dimension', 'the assembled matrix is not loaded on every path / wrong dimension', path=p)


# ------------------------------------------------------------------------------------------------ R11.5
# The rational LU code addresses its data by four kinds of integers: row indices, column indices, positions in the pivot order, and
# offsets into the index/value files.  Each array has one index domain and (for the integer arrays) one value domain:
LU_REQ = {}
for _a in 'diag row.perm u.row.start u.row.len u.row.max u.row.elem temp.s_max l.rbeg l.rperm'.split():
    LU_REQ[_a] = 'ROW'
for _a in 'col.perm u.col.start u.col.len u.col.max u.col.elem temp.s_cact'.split():
    LU_REQ[_a] = 'COL'
for _a in 'row.orig col.orig l.rorig'.split():
    LU_REQ[_a] = 'POS'
for _a in 'u.row.idx u.row.val'.split():
    LU_REQ[_a] = 'offset into the row file of U'
for _a in 'u.col.idx u.col.val'.split():
    LU_REQ[_a] = 'offset into the column file of U'
for _a in 'l.idx l.val'.split():
    LU_REQ[_a] = 'offset into the column file of L'
for _a in 'l.ridx l.rval'.split():
    LU_REQ[_a] = 'offset into the row file of L'
LU_VAL = {'row.orig': 'ROW', 'col.orig': 'COL', 'row.perm': 'POS', 'col.perm': 'POS', 'u.row.idx': 'COL', 'u.col.idx': 'ROW', 'l.idx': 'ROW', 'l.row': 'ROW',
          'u.row.start': 'offset into the row file of U', 'u.col.start': 'offset into the column file of U', 'l.start': 'offset into the column file of L',
          'l.rbeg': 'offset into the row file of L', 'l.ridx': 'ROW', 'l.rorig': 'ROW', 'l.rperm': 'POS'}
LU_WORD = {'ROW': 'a row index', 'COL': 'a column index', 'POS': 'a position in the pivot order'}


def _defs(f, u, use):
    out = []
    for x in f.nodes:
        if x.k == 'VarDecl' and x.u == u and x.c:
            out.append((x.l, x.i, x.kids[0]))
        if x.k == 'BinaryOperator' and x.o == '=' and strip(x.kids[0]).k == 'DeclRefExpr' and strip(x.kids[0]).u == u:
            out.append((x.l, x.i, x.kids[1]))
    out = [d for d in out if d[0] <= use.l]
    return max(out, key=lambda t: (t[0], t[1])) if out else None


def lu_canon(f, b, use, depth=0):
    """the member array an array expression denotes (local pointer aliases such as `int* rorig = row.orig` resolved to their nearest preceding
    definition); None for parameters and anything else"""
    b = strip(b)
    if depth > 4:
        return None
    if b.k == 'MemberExpr':
        return render(b).replace('this->', '')
    if b.k == 'DeclRefExpr' and b.dk == 'local':
        d = _defs(f, b.u, use)
        if d is None:
            return None
        rhs = strip(d[2])
        if rhs.k == 'CXXMemberCallExpr' and rhs.short == 'get_ptr' and rhs.obj() is not None:
            return lu_canon(f, rhs.obj(), use, depth + 1)
        return lu_canon(f, rhs, use, depth + 1)
    return None


def lu_sub(n):
    n = strip(n)
    if n.k == 'ArraySubscriptExpr':
        return lu_canon(n.fn, n.kids[0], n), n.kids[1]
    if n.k == 'CXXOperatorCallExpr' and n.short == 'operator[]' and len(n.kids) >= 3:
        return lu_canon(n.fn, n.kids[1], n), n.kids[2]
    return None, None


def lu_dom(f, e, use, depth=0):
    """domain of an integer expression, from the value domain of the array it was read from (locals: nearest preceding definition)"""
    e = strip(e)
    if depth > 6:
        return None
    b, ix = lu_sub(e)
    if ix is not None:
        return LU_VAL.get(b)
    if e.k == 'DeclRefExpr' and e.dk == 'local':
        d = _defs(f, e.u, use)
        if d is None or d[1] == use.i:
            return None
        return lu_dom(f, d[2], use, depth + 1)
    if e.k == 'BinaryOperator' and e.o in ('+', '-'):
        a, b2 = lu_dom(f, e.kids[0], use, depth + 1), lu_dom(f, e.kids[1], use, depth + 1)
        if a and a.startswith('offset'):
            return a
        if b2 and b2.startswith('offset') and e.o == '+':
            return b2
        return None
    if e.k == 'UnaryOperator' and e.c and e.o in ('++', '--', 'post++', 'post--', 'pre++', 'pre--'):
        return lu_dom(f, e.kids[0], use, depth + 1)
    return None


def index_domains(fb, rep, rule='R11.5', suffix='clufactor_rational.hpp', what='rational LU', floor=400):
    rep.rule(rule, what + ': every subscript of a permutation, diagonal, start/length or index/value array is an integer of that array\'s index domain '
             '(row index, column index, pivot position, file offset), as far as the integer\'s origin is known', floor=floor)
    tot = known = ctl = 0
    for f in sorted(fb.funcs.values(), key=lambda g: (g.file, g.line, g.name)):
        isctl = f.name.startswith('verif_ctl::LuCtl')
        if not (isctl or f.file.endswith('/' + suffix)) or not f.nodes:
            continue
        seen = {}
        for n in f.nodes:
            b, ix = lu_sub(n)
            if b is None or b not in LU_REQ:
                continue
            tot += 1
            d = lu_dom(f, ix, n)
            if d is None:
                continue
            if isctl:
                ctl += 1 if d != LU_REQ[b] else 0
                continue
            known += 1
            base = '%s|%s[%s]' % (f.short, b, render(strip(ix))[:20])
            seen[base] = seen.get(base, 0) + 1
            rep.check(d == LU_REQ[b], rule, '%s#%d' % (base, seen[base]), '%s:%d' % (f.file, n.l), 'index is %s' % LU_WORD.get(d, d),
                      '%s is subscripted by %s, which is %s (read from an array of such), but %s is addressed by %s: a different entry is read or written whenever row and column '
                      'permutation differ' % (b, render(strip(ix))[:30], LU_WORD.get(d, 'an ' + d), b, LU_WORD.get(LU_REQ[b], 'an ' + LU_REQ[b])))
    # comparisons between integers of known, different domains (a file offset compared with a row index bounds a loop by the wrong thing)
    ncmp = 0
    for f in sorted(fb.funcs.values(), key=lambda g: (g.file, g.line, g.name)):
        if not f.file.endswith('/' + suffix) or not f.nodes:
            continue
        seen = {}
        for n in f.nodes:
            if n.k != 'BinaryOperator' or n.o not in ('<', '<=', '>', '>=', '==', '!=') or f.in_assert(n):
                continue
            a, b = strip(n.kids[0]), strip(n.kids[1])
            da, db = lu_dom(f, a, n), lu_dom(f, b, n)
            if da is None or db is None:
                continue
            ncmp += 1
            base = '%s|cmp(%s %s %s)' % (f.short, render(a)[:14], n.o, render(b)[:14])
            seen[base] = seen.get(base, 0) + 1
            rep.check(da == db, rule, '%s#%d' % (base, seen[base]), '%s:%d' % (f.file, n.l), 'both are %s' % LU_WORD.get(da, 'an ' + da),
                      '`%s` compares %s, which is %s, with %s, which is %s: a loop bounded this way runs over the wrong range' % (render(n)[:50], render(a)[:20], LU_WORD.get(da, 'an ' + da), render(b)[:20], LU_WORD.get(db, 'an ' + db)))
    rep.extra.setdefault('comparisons_decided', {})[rule] = ncmp
    if ctl < 1:
        raise AnalysisBroken(rule + ' positive control (LuCtl) did not fire')
    rep.ok(rule, 'control|LuCtl::diag_by_column', 'units/controls.cpp', 'positive control fires', nontrivial=False)
    rep.not_decided.append(rule + ': %d of %d subscripts of the typed arrays have an index whose origin is not an array of known value domain (loop counters, parameters): no verdict' % (tot - known, tot))
