"""C12 — LP/MPS files round-trip; numeric literals are read exactly (table / precision / exactness clauses)."""
import re
from engine import render, strip, Graph, Assume, must
from facts import AnalysisBroken, CALL_KINDS
import modifiers as M
import c11

EXPLANATION = (
    "Decides structural necessary conditions of C12: R12.1 every keyword, sense and bound indicator the LP and MPS writers emit is "
    "accepted by the corresponding reader: LP section keywords are matched against the reader's LPFhasKeyword patterns with a "
    "re-implementation of its pattern language (whose agreement with LPFhasKeyword is itself checked on the patterns present), 'free' and "
    "'-Inf' against the character tests of LPFisFree / LPFisInfinity, MPS section names against the reader's strcmp literals, row senses "
    "and bound indicators against the case labels of the readers' switches, and each bound indicator is composed with the reader arm it "
    "selects (LO -> lower, UP -> upper, FX -> both, FR -> both infinite, MI -> lower = -inf); real and rational readers agree on these "
    "tables; R12.2 default row / column names use one format in all writers and in the LP reader; R12.3 the floating-point LP writer "
    "prints with at least 16 digits after the leading one (17 significant), the MPS writer with %.15; R12.4 in the rational readers no "
    "floating-point function or temporary lies on the path from a token to a Rational (atof/strtod/stod, mpq_get_d, arithmetic with a "
    "non-literal double; positive controls: the real readers do call atof). NOT decided: equivalence of the re-read LP, the dual "
    "writer, MPS normalisations.")

REAL = 'spxlpbase_real.hpp'
RAT = 'spxlpbase_rational.hpp'


def funcs_in(fb, base, pred=None):
    return [f for f in fb.funcs.values() if f.file.endswith('/' + base) and (pred is None or pred(f))]


def lits(f):
    return [n for n in f.nodes if n.k == 'StringLiteral' and n.v is not None and not f.in_assert(n)]


def kw_match(pattern, token):
    """re-implementation of LPFhasKeyword(pos, pattern) for a whole token (lower-cased)"""
    t = token.lower()
    i = k = 0
    p = pattern
    while i < len(p):
        if p[i] == '[':
            i += 1
            while k < len(t) and i < len(p) and p[i] != ']' and t[k] == p[i]:
                k += 1
                i += 1
            while p[i] != ']':
                i += 1
            i += 1
        else:
            if k >= len(t) or p[i] != t[k]:
                return False
            i += 1
            k += 1
    return k == len(t)


def run(fb, rep, tier):
    rep.extra['explanation'] = EXPLANATION
    lp_keywords(fb, rep)
    mps_tables(fb, rep)
    names(fb, rep)
    precision(fb, rep)
    exact(fb, rep)


def one_in(fb, base, short, inst=None):
    fs = [f for f in funcs_in(fb, base) if f.short == short and (inst is None or inst in f.name or inst in str(f.params))]
    if not fs:
        raise AnalysisBroken('%s: %s not found' % (base, short))
    return fs[0]


def lp_keywords(fb, rep):
    rep.rule('R12.1', 'writer tokens are accepted by the reader (LP keywords via the reader\'s pattern language; MPS sections, senses, bound indicators via literals and case labels)', floor=40)
    for base, tag in ((REAL, 'real'), (RAT, 'rational')):
        rd = one_in(fb, base, 'readLPF')
        pats = []
        for n in rd.nodes:
            if n.k == 'CallExpr' and n.short == 'LPFhasKeyword':
                a = n.args()
                for x in a[1].walk():
                    if x.k == 'StringLiteral':
                        pats.append(x.v)
        inf = [f for f in funcs_in(fb, base) + funcs_in(fb, REAL) if f.short == 'LPFreadInfinity']
        for f in inf:
            for n in f.nodes:
                if n.k == 'CallExpr' and n.short == 'LPFhasKeyword':
                    for x in n.args()[1].walk():
                        if x.k == 'StringLiteral':
                            pats.append(x.v)
        pats = sorted(set(pats))
        if len(pats) < 8:
            raise AnalysisBroken('%s: only %d LP keyword patterns found' % (base, len(pats)))
        # the matcher agrees with the pattern language: every pattern accepts its own shortest and longest form
        for p in pats:
            short = re.sub(r'\[[^\]]*\]', '', p)
            long_ = p.replace('[', '').replace(']', '')
            rep.check(kw_match(p, short) and kw_match(p, long_) and not kw_match(p, long_ + 'x'), 'R12.1', '%s|pattern-language|%s' % (tag, p), rd.where(), 'pattern accepts "%s" and "%s"' % (short, long_),
                      'pattern "%s" is malformed for the pattern language (unbalanced or upper-case characters): it does not accept its own spelled-out form' % p, nontrivial=False)
        kws = []
        for wname in ('LPFwriteObjective', 'LPFwriteRows', 'LPFwriteBounds', 'LPFwriteGenerals', 'writeLPF'):
            for f in [g for g in funcs_in(fb, base) if g.short == wname]:
                for n in lits(f):
                    t = n.v.strip()
                    if re.match(r'^[A-Z][A-Za-z ]+$', t) and len(t) >= 3:
                        kws.append((t, f, n))
        seen = set()
        for t, f, n in kws:
            if t in seen:
                continue
            seen.add(t)
            tok = ' '.join(t.lower().split())
            ok = any(kw_match(p, tok) or kw_match(p, tok.replace(' ', '')) for p in pats)
            rep.check(ok, 'R12.1', '%s|LP-keyword|%s' % (tag, t), '%s:%d' % (f.file, n.l), '"%s" is accepted by a reader pattern' % t, 'the LP writer emits "%s" but no reader pattern accepts it (patterns: %s)' % (t, pats))
        if len(seen) < 5:
            raise AnalysisBroken('%s: only %d LP section keywords found in the writer' % (base, len(seen)))
        # free / -Inf
        wb = [g for g in funcs_in(fb, base) if g.short == 'LPFwriteBounds']
        toks = set(n.v.strip() for g in wb for n in lits(g))
        fr = one_in(fb, REAL, 'LPFisFree')
        chars = ''.join(chr(n.v) for n in fr.nodes if n.k == 'CharacterLiteral')
        rep.check(any(t.startswith('free') for t in toks) and chars == 'free', 'R12.1', '%s|LP-free' % tag, fr.where(), 'writer "free" / reader tests "%s"' % chars, 'writer tokens %s, LPFisFree tests "%s"' % (sorted(toks), chars))
        fi = one_in(fb, REAL, 'LPFisInfinity')
        chars = ''.join(chr(n.v) for n in fi.nodes if n.k == 'CharacterLiteral')
        inftoks = [re.split(r'[ <=>]', t)[0] for t in toks if re.match(r'^[-+]inf', t.lower())]
        okinf = bool(inftoks) and chars == '-+inf' and all(any(kw_match(p, it[1:]) for p in pats if p.startswith('inf')) for it in inftoks)
        rep.check(okinf, 'R12.1', '%s|LP-infinity' % tag, fi.where(), 'writer %s / reader tests sign + "inf" and accepts the word with pattern inf[inity]' % inftoks,
                  'writer infinity tokens %s are not accepted by LPFisInfinity ("%s") + the reader\'s inf[inity] pattern' % (inftoks or sorted(toks), chars))
        # senses
        wr = [g for g in funcs_in(fb, base) if g.short == 'LPFwriteRow']
        senses = set(n.v.strip() for g in wr for n in lits(g) if n.v.strip() in ('<=', '>=', '=', '<', '>', '=<', '=>'))
        rs = one_in(fb, REAL, 'LPFisSense')
        rchars = set(chr(n.v) for n in rs.nodes if n.k == 'CharacterLiteral')
        rep.check(senses == {'<=', '>=', '='} and {'<', '>', '='} <= rchars, 'R12.1', '%s|LP-senses' % tag, rs.where(), 'writer %s / reader accepts %s' % (sorted(senses), sorted(rchars)), 'writer senses %s, reader characters %s' % (sorted(senses), sorted(rchars)))


def case_chars(f, cond_pred):
    """{char: arm nodes} for the switch in f whose condition satisfies cond_pred"""
    from engine import case_arm_nodes
    out = {}
    for sw in f.nodes:
        if sw.k == 'SwitchStmt' and cond_pred(render(sw.kid('cond'))):
            for c in sw.walk():
                if c.k == 'CaseStmt' and c.v is not None and 32 < c.v < 127:
                    out[chr(c.v)] = case_arm_nodes(f, c)
    return out


def mps_tables(fb, rep):
    tables = {}
    for base, tag in ((REAL, 'real'), (RAT, 'rational')):
        wm = one_in(fb, base, 'writeMPS')
        wl = set(n.v.strip() for n in lits(wm))
        sections = set(t.split()[0] for t in wl if re.match(r'^(NAME|ROWS|COLUMNS|RHS|RANGES|BOUNDS|ENDATA)\b', t))
        rsec = set()
        for f in funcs_in(fb, base) + funcs_in(fb, REAL):
            if f.short.startswith('MPSread') or f.short == 'readMPS':
                for n in f.nodes:
                    if n.k == 'CallExpr' and n.short == 'strcmp' and 'field0()' in render(n):
                        for x in n.walk():
                            if x.k == 'StringLiteral':
                                rsec.add(x.v)
        for t in sorted(sections):
            rep.check(t in rsec, 'R12.1', '%s|MPS-section|%s' % (tag, t), wm.where(), 'section %s recognised by the reader' % t, 'the MPS writer emits section %s, the reader compares field 0 only with %s' % (t, sorted(rsec)))
        if len(sections) < 6:
            raise AnalysisBroken('%s: only %d MPS sections found in the writer' % (base, len(sections)))
        # row senses
        wsens = set(t for t in wl if t in ('N', 'E', 'G', 'L'))
        rr = one_in(fb, base, 'MPSreadRows')
        rc = case_chars(rr, lambda c: 'field1()' in c)
        direct = set(chr(n.v) for n in rr.nodes if n.k == 'CharacterLiteral' and 32 < n.v < 127)
        for t in sorted(wsens):
            rep.check(t in rc or t in direct, 'R12.1', '%s|MPS-sense|%s' % (tag, t), rr.where(), 'sense %s has a case in MPSreadRows' % t, 'row sense %s is written but MPSreadRows has cases only for %s' % (t, sorted(rc)))
        sens_tab = {}
        for ch, arm in rc.items():
            sets = sorted(set(re.sub(r'\(.*', '', x.short) for x in arm if x.k == 'CXXMemberCallExpr' and x.short in ('setLhs', 'setRhs')))
            vals = sorted(set(render(x) for x in arm if x.k == 'CXXMemberCallExpr' and x.short in ('setLhs', 'setRhs')))
            sens_tab[ch] = vals
        want = {'G': ['row.setLhs(0)', 'row.setRhs(infinity)'], 'E': ['row.setLhs(0)', 'row.setRhs(0)'], 'L': ['row.setLhs(-infinity)', 'row.setRhs(0)']}
        def norm_set(v):
            m = 'setLhs' if 'setLhs' in v else 'setRhs'
            val = '-infinity' if '-infinity' in v else 'infinity' if 'infinity' in v else '0'
            return 'row.%s(%s)' % (m, val)
        for ch, w in sorted(want.items()):
            got = [norm_set(v) for v in sens_tab.get(ch, [])]
            rep.check(sorted(got) == sorted(w), 'R12.1', '%s|MPS-sense-arm|%s' % (tag, ch), rr.where(), '%s -> %s' % (ch, got), 'sense %s sets %s, expected %s' % (ch, got, w))
        # bound indicators
        # bound indicators: the indicator argument of every MPSwriteRecord call that writes a BOUND record
        wb = set()
        for n in wm.nodes:
            if n.k == 'CallExpr' and n.short == 'MPSwriteRecord':
                a = [render(x) for x in n.args()]
                if len(a) >= 3 and a[2] == '"BOUND"' and re.match(r'^"[A-Z]{2}"$', a[1]):
                    wb.add(a[1].strip('"'))
        rb = one_in(fb, base, 'MPSreadBounds')
        bc = case_chars(rb, lambda c: 'field1()' in c)
        expect = {'LO': {'lower_w': 'val'}, 'UP': {'upper_w': 'val'}, 'FX': {'lower_w': 'val', 'upper_w': 'val'}, 'FR': {'lower_w': '-infinity', 'upper_w': 'infinity'}, 'MI': {'lower_w': '-infinity'}}
        for t in sorted(wb):
            if t[0] not in bc:
                rep.bad('R12.1', '%s|MPS-bound|%s' % (tag, t), rb.where(), 'bound indicator %s is written but MPSreadBounds has no case for \'%s\'' % (t, t[0]))
                continue
            arm = bc[t[0]]
            asg = {}
            for x in arm:
                if x.k in ('BinaryOperator', 'CXXOperatorCallExpr') and x.o == '=':
                    l = render(x.kids[0] if x.k == 'BinaryOperator' else x.args()[0])
                    r = render(x.kids[1] if x.k == 'BinaryOperator' else x.args()[1])
                    m = re.match(r'^cset\.(lower_w|upper_w)\(idx\)$', l)
                    if not m:
                        continue
                    # second-character split inside the 'F' arm
                    cond = [a for a in rb.ancestors(x) if a.k == 'IfStmt' and "field1()[1] == 88" in render(a.kid('cond'))]
                    if cond:
                        inthen = any(y.i == x.i for y in cond[0].kid('then').walk())
                        if (t[1] == 'X') != inthen:
                            continue
                    r = '-infinity' if '-infinity' in r else 'infinity' if 'infinity' in r else r
                    asg[m.group(1)] = r
            if t in expect:
                rep.check(asg == expect[t], 'R12.1', '%s|MPS-bound|%s' % (tag, t), rb.where(), '%s -> %s' % (t, asg), 'bound indicator %s makes the reader assign %s, the writer means %s' % (t, asg, expect[t]))
            else:
                rep.ok('R12.1', '%s|MPS-bound|%s' % (tag, t), rb.where(), '%s -> %s' % (t, asg), nontrivial=False)
        if len(wb) < 5:
            raise AnalysisBroken('%s: only %d MPS bound indicators found in the writer' % (base, len(wb)))
        tables[tag] = (sorted(sections), sorted(wsens), sorted(wb), sorted(bc), sorted(rc))
    rep.check(tables['real'] == tables['rational'], 'R12.1', 'siblings|MPS-tables', 'spxlpbase_rational.hpp', 'real and rational MPS code use the same sections, senses, indicators and reader cases',
              'the real and rational MPS reader/writer tables differ: %s vs %s' % (tables['real'], tables['rational']))


def names(fb, rep):
    rep.rule('R12.2', 'default row / column names use one format in all writers and in the LP reader', floor=6)
    fmts = {'row': {}, 'col': {}}
    for base in (REAL, RAT, 'spxbasis.hpp'):
        for f in funcs_in(fb, base):
            if f.short in ('getRowName', 'LPFgetRowName', 'MPSgetRowName', 'getColName', 'LPFgetColName', 'MPSgetColName'):
                kind = 'row' if 'Row' in f.short else 'col'
                for n in lits(f):
                    if '%d' in n.v:
                        fmts[kind]['%s:%s' % (base, f.short)] = n.v
            if f.short == 'readLPF':
                for n in lits(f):
                    if re.match(r'^[A-Za-z]%d$', n.v):
                        fmts['row']['%s:readLPF(unnamed row)' % base] = n.v
    for kind in ('row', 'col'):
        vals = fmts[kind]
        if len(vals) < 3:
            raise AnalysisBroken('only %d default %s name formats found' % (len(vals), kind))
        common = max(set(vals.values()), key=list(vals.values()).count)
        for where, v in sorted(vals.items()):
            rep.check(v == common, 'R12.2', '%s|%s' % (kind, where), where.split(':')[0], 'format "%s"' % v, 'default %s names are "%s" here but "%s" elsewhere: a file written with default names is read back with other names' % (kind, v, common))


def precision(fb, rep):
    rep.rule('R12.3', 'floating-point LP writer: setScientific with >= 16 digits before any number is written; MPS writer: %.15', floor=3)
    f = one_in(fb, REAL, 'writeLPF')
    calls = [n for n in f.nodes if n.k == 'CallExpr' and n.short == 'setScientific']
    if not calls:
        rep.bad('R12.3', 'writeLPF|precision', f.where(), 'the LP writer never sets the output precision: doubles are printed with 6 digits and do not round-trip')
    else:
        a = calls[0].args()
        v = None
        if len(a) >= 2:
            s = strip(a[1])
            v = s.v if s.k == 'IntegerLiteral' else None
        rep.check(v is not None and v >= 16, 'R12.3', 'writeLPF|precision', '%s:%d' % (f.file, calls[0].l), 'setScientific(out, %s)' % v,
                  'the LP writer prints with precision %s: 17 significant digits (precision >= 16 in scientific format) are needed for a double to round-trip exactly' % (render(a[1]) if len(a) >= 2 else 'default'))
        writers = [n for n in f.nodes if n.k == 'CallExpr' and n.short.startswith('LPFwrite')]
        rep.check(bool(writers) and all((calls[0].l, calls[0].i) < (w.l, w.i) for w in writers), 'R12.3', 'writeLPF|precision-first', '%s:%d' % (f.file, calls[0].l), 'precision is set before the first section is written', 'a section is written before the precision is set')
    m = one_in(fb, REAL, 'MPSwriteRecord')
    fm = [n.v for n in lits(m) if '%' in n.v and 'lf' in n.v]
    rep.check(bool(fm) and all('%.15lf' in x for x in fm), 'R12.3', 'MPSwriteRecord|precision', m.where(), 'formats %s' % fm, 'MPS numbers are printed with %s, the property promises 15 decimals' % fm)


def exact(fb, rep):
    rep.rule('R12.4', 'rational readers: no floating-point function or temporary between a token and the Rational it denotes', floor=20)
    FLOATFN = {'atof', 'strtod', 'strtof', 'strtold', 'stod', 'stof', 'stold', '__gmpq_get_d', 'mpq_get_d', 'pow', 'exp10', 'ldexp', 'spxLdexp'}
    scope = [f for f in funcs_in(fb, RAT) if re.match(r'^(LPFread|LPFis|MPSread|readLPF|readMPS|read)', f.short)]
    scope += [f for f in fb.funcs.values() if f.file.endswith('/rational.h') and f.short in ('ratFromString', 'readStringRational')]
    if len(scope) < 10:
        raise AnalysisBroken('only %d rational reader functions found' % len(scope))
    for f in scope:
        key = '%s:%s(%s)' % (f.file.rsplit('/', 1)[-1], f.short, ','.join(M.short_t(t) for _, t in f.params))
        bad = [n for n in f.nodes if n.k == 'CallExpr' and n.n and n.n.replace('std::', '') in FLOATFN and not f.in_assert(n)]
        # the constant soplex::infinity is the marker for 'no bound', not a number read from the file
        conv = [(n, a) for n, a, kind in c11.conversion_sites(f) if kind == 'value' and not (n.o in c11.CMP) and render(a).lstrip('-(').rstrip(')') != 'infinity']
        if bad:
            rep.bad('R12.4', key, '%s:%d' % (f.file, bad[0].l), '%s(...) on the path from the token to the Rational: the literal is rounded to a double first' % bad[0].short)
        elif conv:
            n, a = conv[0]
            rep.bad('R12.4', key, '%s:%d' % (f.file, n.l), 'the floating-point value %s enters the Rational through %s' % (render(a)[:40], n.short))
        else:
            rep.ok('R12.4', key, f.where(), 'exact path')
    # positive controls
    ctl_real = sum(1 for f in funcs_in(fb, REAL) for n in f.nodes if n.k == 'CallExpr' and n.short == 'atof')
    ctl_unit = any(n.k == 'CallExpr' and n.short == 'atof' for f in fb.funcs.values() if f.name == 'verif_ctl::parses_with_atof' for n in f.nodes)
    if ctl_real < 3 or not ctl_unit:
        raise AnalysisBroken('R12.4 positive controls did not fire (real readers: %d atof calls, control unit: %s)' % (ctl_real, ctl_unit))
    rep.ok('R12.4', 'control|atof-in-real-readers', REAL, '%d atof calls found in the floating-point readers; control unit fires' % ctl_real, nontrivial=False)
    # SPxLPBase<Rational> entry points that take GMP data decide on the rational itself
    for f in fb.methods_of('soplex::SPxLPBase<Rational>'):
        bad = [n for n in f.nodes if n.k == 'CallExpr' and n.short in ('__gmpq_get_d', 'mpq_get_d')]
        if any('mpq' in t for _, t in f.params):
            rep.check(not bad, 'R12.4', 'SPxLPBase<Rational>::%s(%s)|gmp-exact' % (f.short, ','.join(M.short_t(t) for _, t in f.params)), f.where(), 'no mpq_get_d', 'decides on mpq_get_d(...) of rational input: tiny or huge values are misjudged')
