"""C12 — LP/MPS files round-trip; numeric literals are read exactly (table / precision / exactness clauses)."""
import re
from engine import render, strip, Graph, Assume, must
from facts import AnalysisBroken, CALL_KINDS
import modifiers as M
import c11

EXPLANATION = (
    "Decides structural necessary conditions of C12: R12.1 every keyword, sense and bound indicator the LP and MPS writers emit is "
    "accepted by the corresponding reader: LP section keywords are matched against the reader's LPFhasKeyword patterns with a "
    "re-implementation of its pattern language (whose agreement with LPFhasKeyword is itself checked on the patterns present), 'free' and "
    "'-Inf' against the character tests of LPFisFree / LPFisInfinity, MPS section names against the reader's strcmp literals, row senses "
    "and bound indicators against the case labels of the readers' switches, and each bound indicator is composed with the reader arm it "
    "selects (LO -> lower, UP -> upper, FX -> both, FR -> both infinite, MI -> lower = -inf); real and rational readers agree on these "
    "tables; R12.2 default row / column names use one format in all writers and in the LP reader; R12.3 the floating-point LP writer "
    "prints with at least 16 digits after the leading one (17 significant), the MPS writer with %.15; R12.4 in the rational readers no "
    "floating-point function or temporary lies on the path from a token to a Rational (atof/strtod/stod, mpq_get_d, arithmetic with a "
    "non-literal double; positive controls: the real readers do call atof); R12.5 no writer cuts a name (a %s conversion with a "
    "precision only for strings bounded by it); R12.6 every formatted record fits the buffer it is printed into (the maximal width of "
    "its conversions, with %f bounded only under a dominating magnitude test); R12.7 the writers are total over row / bound kinds (no "
    "arm of a split on infinite sides throws); R12.8 the zero stripping of the number parser always leaves one digit. NOT decided: equivalence of the re-read LP, the dual writer, MPS normalisations.")

REAL = 'spxlpbase_real.hpp'
RAT = 'spxlpbase_rational.hpp'


def funcs_in(fb, base, pred=None):
    return [f for f in fb.funcs.values() if f.file.endswith('/' + base) and (pred is None or pred(f))]


def lits(f):
    return [n for n in f.nodes if n.k == 'StringLiteral' and n.v is not None and not f.in_assert(n)]


def kw_match(pattern, token):
    """re-implementation of LPFhasKeyword(pos, pattern) for a whole token (lower-cased)"""
    t = token.lower()
    i = k = 0
    p = pattern
    while i < len(p):
        if p[i] == '[':
            i += 1
            while k < len(t) and i < len(p) and p[i] != ']' and t[k] == p[i]:
                k += 1
                i += 1
            while p[i] != ']':
                i += 1
            i += 1
        else:
            if k >= len(t) or p[i] != t[k]:
                return False
            i += 1
            k += 1
    return k == len(t)


def run(fb, rep, tier):
    rep.extra['explanation'] = EXPLANATION
    lp_keywords(fb, rep)
    mps_tables(fb, rep)
    names(fb, rep)
    precision(fb, rep)
    exact(fb, rep)
    truncation(fb, rep)
    totality(fb, rep)
    digit_kept(fb, rep)
    local_lp_tolerances(fb, rep)


def one_in(fb, base, short, inst=None):
    fs = [f for f in funcs_in(fb, base) if f.short == short and (inst is None or inst in f.name or inst in str(f.params))]
    if not fs:
        raise AnalysisBroken('%s: %s not found' % (base, short))
    return fs[0]


def lp_keywords(fb, rep):
    rep.rule('R12.1', 'writer tokens are accepted by the reader (LP keywords via the reader\'s pattern language; MPS sections, senses, bound indicators via literals and case labels)', floor=40)
    for base, tag in ((REAL, 'real'), (RAT, 'rational')):
        rd = one_in(fb, base, 'readLPF')
        pats = []
        for n in rd.nodes:
            if n.k == 'CallExpr' and n.short == 'LPFhasKeyword':
                a = n.args()
                for x in a[1].walk():
                    if x.k == 'StringLiteral':
                        pats.append(x.v)
        inf = [f for f in funcs_in(fb, base) + funcs_in(fb, REAL) if f.short == 'LPFreadInfinity']
        for f in inf:
            for n in f.nodes:
                if n.k == 'CallExpr' and n.short == 'LPFhasKeyword':
                    for x in n.args()[1].walk():
                        if x.k == 'StringLiteral':
                            pats.append(x.v)
        pats = sorted(set(pats))
        if len(pats) < 8:
            raise AnalysisBroken('%s: only %d LP keyword patterns found' % (base, len(pats)))
        # the matcher agrees with the pattern language: every pattern accepts its own shortest and longest form
        for p in pats:
            short = re.sub(r'\[[^\]]*\]', '', p)
            long_ = p.replace('[', '').replace(']', '')
            rep.check(kw_match(p, short) and kw_match(p, long_) and not kw_match(p, long_ + 'x'), 'R12.1', '%s|pattern-language|%s' % (tag, p), rd.where(), 'pattern accepts "%s" and "%s"' % (short, long_),
                      'pattern "%s" is malformed for the pattern language (unbalanced or upper-case characters): it does not accept its own spelled-out form' % p, nontrivial=False)
        kws = []
        for wname in ('LPFwriteObjective', 'LPFwriteRows', 'LPFwriteBounds', 'LPFwriteGenerals', 'writeLPF'):
            for f in [g for g in funcs_in(fb, base) if g.short == wname]:
                for n in lits(f):
                    t = n.v.strip()
                    if re.match(r'^[A-Z][A-Za-z ]+$', t) and len(t) >= 3:
                        kws.append((t, f, n))
        seen = set()
        for t, f, n in kws:
            if t in seen:
                continue
            seen.add(t)
            tok = ' '.join(t.lower().split())
            ok = any(kw_match(p, tok) or kw_match(p, tok.replace(' ', '')) for p in pats)
            rep.check(ok, 'R12.1', '%s|LP-keyword|%s' % (tag, t), '%s:%d' % (f.file, n.l), '"%s" is accepted by a reader pattern' % t, 'the LP writer emits "%s" but no reader pattern accepts it (patterns: %s)' % (t, pats))
        if len(seen) < 5:
            raise AnalysisBroken('%s: only %d LP section keywords found in the writer' % (base, len(seen)))
        # free / -Inf
        wb = [g for g in funcs_in(fb, base) if g.short == 'LPFwriteBounds']
        toks = set(n.v.strip() for g in wb for n in lits(g))
        fr = one_in(fb, REAL, 'LPFisFree')
        chars = ''.join(chr(n.v) for n in fr.nodes if n.k == 'CharacterLiteral')
        rep.check(any(t.startswith('free') for t in toks) and chars == 'free', 'R12.1', '%s|LP-free' % tag, fr.where(), 'writer "free" / reader tests "%s"' % chars, 'writer tokens %s, LPFisFree tests "%s"' % (sorted(toks), chars))
        fi = one_in(fb, REAL, 'LPFisInfinity')
        chars = ''.join(chr(n.v) for n in fi.nodes if n.k == 'CharacterLiteral')
        inftoks = [re.split(r'[ <=>]', t)[0] for t in toks if re.match(r'^[-+]inf', t.lower())]
        okinf = bool(inftoks) and chars == '-+inf' and all(any(kw_match(p, it[1:]) for p in pats if p.startswith('inf')) for it in inftoks)
        rep.check(okinf, 'R12.1', '%s|LP-infinity' % tag, fi.where(), 'writer %s / reader tests sign + "inf" and accepts the word with pattern inf[inity]' % inftoks,
                  'writer infinity tokens %s are not accepted by LPFisInfinity ("%s") + the reader\'s inf[inity] pattern' % (inftoks or sorted(toks), chars))
        # senses
        wr = [g for g in funcs_in(fb, base) if g.short == 'LPFwriteRow']
        senses = set(n.v.strip() for g in wr for n in lits(g) if n.v.strip() in ('<=', '>=', '=', '<', '>', '=<', '=>'))
        rs = one_in(fb, REAL, 'LPFisSense')
        rchars = set(chr(n.v) for n in rs.nodes if n.k == 'CharacterLiteral')
        rep.check(senses == {'<=', '>=', '='} and {'<', '>', '='} <= rchars, 'R12.1', '%s|LP-senses' % tag, rs.where(), 'writer %s / reader accepts %s' % (sorted(senses), sorted(rchars)), 'writer senses %s, reader characters %s' % (sorted(senses), sorted(rchars)))


def case_chars(f, cond_pred):
    """{char: arm nodes} for the switch in f whose condition satisfies cond_pred"""
    from engine import case_arm_nodes
    out = {}
    for sw in f.nodes:
        if sw.k == 'SwitchStmt' and cond_pred(render(sw.kid('cond'))):
            for c in sw.walk():
                if c.k == 'CaseStmt' and c.v is not None and 32 < c.v < 127:
                    out[chr(c.v)] = case_arm_nodes(f, c)
    return out


def mps_tables(fb, rep):
    tables = {}
    for base, tag in ((REAL, 'real'), (RAT, 'rational')):
        wm = one_in(fb, base, 'writeMPS')
        wl = set(n.v.strip() for n in lits(wm))
        sections = set(t.split()[0] for t in wl if re.match(r'^(NAME|ROWS|COLUMNS|RHS|RANGES|BOUNDS|ENDATA)\b', t))
        rsec = set()
        for f in funcs_in(fb, base) + funcs_in(fb, REAL):
            if f.short.startswith('MPSread') or f.short == 'readMPS':
                for n in f.nodes:
                    if n.k == 'CallExpr' and n.short == 'strcmp' and 'field0()' in render(n):
                        for x in n.walk():
                            if x.k == 'StringLiteral':
                                rsec.add(x.v)
        for t in sorted(sections):
            rep.check(t in rsec, 'R12.1', '%s|MPS-section|%s' % (tag, t), wm.where(), 'section %s recognised by the reader' % t, 'the MPS writer emits section %s, the reader compares field 0 only with %s' % (t, sorted(rsec)))
        if len(sections) < 6:
            raise AnalysisBroken('%s: only %d MPS sections found in the writer' % (base, len(sections)))
        # row senses
        wsens = set(t for t in wl if t in ('N', 'E', 'G', 'L'))
        rr = one_in(fb, base, 'MPSreadRows')
        rc = case_chars(rr, lambda c: 'field1()' in c)
        direct = set(chr(n.v) for n in rr.nodes if n.k == 'CharacterLiteral' and 32 < n.v < 127)
        for t in sorted(wsens):
            rep.check(t in rc or t in direct, 'R12.1', '%s|MPS-sense|%s' % (tag, t), rr.where(), 'sense %s has a case in MPSreadRows' % t, 'row sense %s is written but MPSreadRows has cases only for %s' % (t, sorted(rc)))
        sens_tab = {}
        for ch, arm in rc.items():
            sets = sorted(set(re.sub(r'\(.*', '', x.short) for x in arm if x.k == 'CXXMemberCallExpr' and x.short in ('setLhs', 'setRhs')))
            vals = sorted(set(render(x) for x in arm if x.k == 'CXXMemberCallExpr' and x.short in ('setLhs', 'setRhs')))
            sens_tab[ch] = vals
        want = {'G': ['row.setLhs(0)', 'row.setRhs(infinity)'], 'E': ['row.setLhs(0)', 'row.setRhs(0)'], 'L': ['row.setLhs(-infinity)', 'row.setRhs(0)']}
        def norm_set(v):
            m = 'setLhs' if 'setLhs' in v else 'setRhs'
            val = '-infinity' if '-infinity' in v else 'infinity' if 'infinity' in v else '0'
            return 'row.%s(%s)' % (m, val)
        for ch, w in sorted(want.items()):
            got = [norm_set(v) for v in sens_tab.get(ch, [])]
            rep.check(sorted(got) == sorted(w), 'R12.1', '%s|MPS-sense-arm|%s' % (tag, ch), rr.where(), '%s -> %s' % (ch, got), 'sense %s sets %s, expected %s' % (ch, got, w))
        # bound indicators
        # bound indicators: the indicator argument of every MPSwriteRecord call that writes a BOUND record
        wb = set()
        for n in wm.nodes:
            if n.k == 'CallExpr' and n.short == 'MPSwriteRecord':
                a = [render(x) for x in n.args()]
                if len(a) >= 3 and a[2] == '"BOUND"' and re.match(r'^"[A-Z]{2}"$', a[1]):
                    wb.add(a[1].strip('"'))
        rb = one_in(fb, base, 'MPSreadBounds')
        bc = case_chars(rb, lambda c: 'field1()' in c)
        expect = {'LO': {'lower_w': 'val'}, 'UP': {'upper_w': 'val'}, 'FX': {'lower_w': 'val', 'upper_w': 'val'}, 'FR': {'lower_w': '-infinity', 'upper_w': 'infinity'}, 'MI': {'lower_w': '-infinity'}}
        for t in sorted(wb):
            if t[0] not in bc:
                rep.bad('R12.1', '%s|MPS-bound|%s' % (tag, t), rb.where(), 'bound indicator %s is written but MPSreadBounds has no case for \'%s\'' % (t, t[0]))
                continue
            arm = bc[t[0]]
            asg = {}
            for x in arm:
                if x.k in ('BinaryOperator', 'CXXOperatorCallExpr') and x.o == '=':
                    l = render(x.kids[0] if x.k == 'BinaryOperator' else x.args()[0])
                    r = render(x.kids[1] if x.k == 'BinaryOperator' else x.args()[1])
                    m = re.match(r'^cset\.(lower_w|upper_w)\(idx\)$', l)
                    if not m:
                        continue
                    # second-character split inside the 'F' arm
                    cond = [a for a in rb.ancestors(x) if a.k == 'IfStmt' and "field1()[1] == 88" in render(a.kid('cond'))]
                    if cond:
                        inthen = any(y.i == x.i for y in cond[0].kid('then').walk())
                        if (t[1] == 'X') != inthen:
                            continue
                    r = '-infinity' if '-infinity' in r else 'infinity' if 'infinity' in r else r
                    asg[m.group(1)] = r
            if t in expect:
                rep.check(asg == expect[t], 'R12.1', '%s|MPS-bound|%s' % (tag, t), rb.where(), '%s -> %s' % (t, asg), 'bound indicator %s makes the reader assign %s, the writer means %s' % (t, asg, expect[t]))
            else:
                rep.ok('R12.1', '%s|MPS-bound|%s' % (tag, t), rb.where(), '%s -> %s' % (t, asg), nontrivial=False)
        if len(wb) < 5:
            raise AnalysisBroken('%s: only %d MPS bound indicators found in the writer' % (base, len(wb)))
        tables[tag] = (sorted(sections), sorted(wsens), sorted(wb), sorted(bc), sorted(rc))
    rep.check(tables['real'] == tables['rational'], 'R12.1', 'siblings|MPS-tables', 'spxlpbase_rational.hpp', 'real and rational MPS code use the same sections, senses, indicators and reader cases',
              'the real and rational MPS reader/writer tables differ: %s vs %s' % (tables['real'], tables['rational']))


def names(fb, rep):
    rep.rule('R12.2', 'default row / column names use one format in all writers and in the LP reader', floor=6)
    fmts = {'row': {}, 'col': {}}
    for base in (REAL, RAT, 'spxbasis.hpp'):
        for f in funcs_in(fb, base):
            if f.short in ('getRowName', 'LPFgetRowName', 'MPSgetRowName', 'getColName', 'LPFgetColName', 'MPSgetColName'):
                kind = 'row' if 'Row' in f.short else 'col'
                for n in lits(f):
                    if '%d' in n.v:
                        fmts[kind]['%s:%s' % (base, f.short)] = n.v
            if f.short == 'readLPF':
                for n in lits(f):
                    if re.match(r'^[A-Za-z]%d$', n.v):
                        fmts['row']['%s:readLPF(unnamed row)' % base] = n.v
    for kind in ('row', 'col'):
        vals = fmts[kind]
        if len(vals) < 3:
            raise AnalysisBroken('only %d default %s name formats found' % (len(vals), kind))
        common = max(set(vals.values()), key=list(vals.values()).count)
        for where, v in sorted(vals.items()):
            rep.check(v == common, 'R12.2', '%s|%s' % (kind, where), where.split(':')[0], 'format "%s"' % v, 'default %s names are "%s" here but "%s" elsewhere: a file written with default names is read back with other names' % (kind, v, common))


def precision(fb, rep):
    rep.rule('R12.3', 'floating-point LP writer: setScientific with >= 16 digits before any number is written; MPS writer: %.15', floor=3)
    f = one_in(fb, REAL, 'writeLPF')
    calls = [n for n in f.nodes if n.k == 'CallExpr' and n.short == 'setScientific']
    if not calls:
        rep.bad('R12.3', 'writeLPF|precision', f.where(), 'the LP writer never sets the output precision: doubles are printed with 6 digits and do not round-trip')
    else:
        a = calls[0].args()
        v = None
        if len(a) >= 2:
            s = strip(a[1])
            v = s.v if s.k == 'IntegerLiteral' else None
        rep.check(v is not None and v >= 16, 'R12.3', 'writeLPF|precision', '%s:%d' % (f.file, calls[0].l), 'setScientific(out, %s)' % v,
                  'the LP writer prints with precision %s: 17 significant digits (precision >= 16 in scientific format) are needed for a double to round-trip exactly' % (render(a[1]) if len(a) >= 2 else 'default'))
        writers = [n for n in f.nodes if n.k == 'CallExpr' and n.short.startswith('LPFwrite')]
        rep.check(bool(writers) and all((calls[0].l, calls[0].i) < (w.l, w.i) for w in writers), 'R12.3', 'writeLPF|precision-first', '%s:%d' % (f.file, calls[0].l), 'precision is set before the first section is written', 'a section is written before the precision is set')
    m = one_in(fb, REAL, 'MPSwriteRecord')
    # the record writer and the value formatter it calls: every floating conversion prints at least 15 digits after the point
    scope = [m] + [fb.funcs[c.u] for c in m.calls() if c.u in fb.funcs and fb.funcs[c.u].file.endswith('/' + REAL) and fb.funcs[c.u].short.startswith('MPS')]
    fm = []
    for g in scope:
        for n in lits(g):
            fm += re.findall(r'%[-+ 0#]*\d*(?:\.(\d+))?(?:l|L)?([feEgG])', n.v)
    okp = bool(fm) and all(pr != '' and int(pr) >= 15 for pr, cv in fm)
    rep.check(okp, 'R12.3', 'MPSwriteRecord|precision', m.where(), 'floating conversions %s' % ['%%.%s%s' % x for x in fm], 'MPS numbers are printed with %s: the property promises 15 decimals' % ['%%.%s%s' % x for x in fm])


def exact(fb, rep):
    rep.rule('R12.4', 'rational readers: no floating-point function or temporary between a token and the Rational it denotes', floor=20)
    FLOATFN = {'atof', 'strtod', 'strtof', 'strtold', 'stod', 'stof', 'stold', '__gmpq_get_d', 'mpq_get_d', 'pow', 'exp10', 'ldexp', 'spxLdexp'}
    scope = [f for f in funcs_in(fb, RAT) if re.match(r'^(LPFread|LPFis|MPSread|readLPF|readMPS|read)', f.short)]
    scope += [f for f in fb.funcs.values() if f.file.endswith('/rational.h') and f.short in ('ratFromString', 'readStringRational')]
    if len(scope) < 10:
        raise AnalysisBroken('only %d rational reader functions found' % len(scope))
    for f in scope:
        key = '%s:%s(%s)' % (f.file.rsplit('/', 1)[-1], f.short, ','.join(M.short_t(t) for _, t in f.params))
        bad = [n for n in f.nodes if n.k == 'CallExpr' and n.n and n.n.replace('std::', '') in FLOATFN and not f.in_assert(n)]
        # the constant soplex::infinity is the marker for 'no bound', not a number read from the file
        conv = [(n, a) for n, a, kind in c11.conversion_sites(f) if kind == 'value' and not (n.o in c11.CMP) and render(a).lstrip('-(').rstrip(')') != 'infinity']
        if bad:
            rep.bad('R12.4', key, '%s:%d' % (f.file, bad[0].l), '%s(...) on the path from the token to the Rational: the literal is rounded to a double first' % bad[0].short)
        elif conv:
            n, a = conv[0]
            rep.bad('R12.4', key, '%s:%d' % (f.file, n.l), 'the floating-point value %s enters the Rational through %s' % (render(a)[:40], n.short))
        else:
            rep.ok('R12.4', key, f.where(), 'exact path')
    # positive controls
    # the floating-point readers convert through atof / strtod (F141 replaced the atof calls of the MPS reader by one strtod in MPSreadValue())
    ctl_real = sum(1 for f in funcs_in(fb, REAL) for n in f.nodes if n.k == 'CallExpr' and n.short in ('atof', 'strtod'))
    ctl_unit = any(n.k == 'CallExpr' and n.short == 'atof' for f in fb.funcs.values() if f.name == 'verif_ctl::parses_with_atof' for n in f.nodes)
    if ctl_real < 2 or not ctl_unit:
        raise AnalysisBroken('R12.4 positive controls did not fire (real readers: %d atof calls, control unit: %s)' % (ctl_real, ctl_unit))
    rep.ok('R12.4', 'control|atof-in-real-readers', REAL, '%d atof / strtod calls found in the floating-point readers; control unit fires' % ctl_real, nontrivial=False)
    # SPxLPBase<Rational> entry points that take GMP data decide on the rational itself
    for f in fb.methods_of('soplex::SPxLPBase<Rational>'):
        bad = [n for n in f.nodes if n.k == 'CallExpr' and n.short in ('__gmpq_get_d', 'mpq_get_d')]
        if any('mpq' in t for _, t in f.params):
            rep.check(not bad, 'R12.4', 'SPxLPBase<Rational>::%s(%s)|gmp-exact' % (f.short, ','.join(M.short_t(t) for _, t in f.params)), f.where(), 'no mpq_get_d', 'decides on mpq_get_d(...) of rational input: tiny or huge values are misjudged')


# ---------------------------------------------------------------------------------------------------
CONV = re.compile(r'%([-+ 0#]*)(\d*)(?:\.(\d+))?(hh|h|ll|l|L|z)?([diouxXfFeEgGscp%])')


def writer_functions(fb):
    out = []
    for f in fb.funcs.values():
        base = f.file.rsplit('/', 1)[-1]
        if base in (REAL, RAT) and re.match(r'^(MPSwrite|MPSformat|MPSget|LPFwrite|writeMPS|writeLPF|getColName|getRowName)', f.short or ''):
            out.append(f)
        elif base in ('spxbasis.hpp',) and f.short in ('writeBasis', 'getRowName', 'getColName'):
            out.append(f)
    return out


def string_bound(fb, f, e, depth=0):
    """maximal length of a const char* expression if it can be bounded: literals, conditionals of literals, a parameter whose every
    call-site argument is bounded; None = unbounded (a name)"""
    e = strip(e)
    if e is None or depth > 3:
        return None
    if e.k == 'StringLiteral' and e.v is not None:
        return len(e.v)
    if e.k == 'ConditionalOperator':
        a, b = string_bound(fb, f, e.kid('then'), depth + 1), string_bound(fb, f, e.kid('else'), depth + 1)
        return None if a is None or b is None else max(a, b)
    if e.k == 'ParenExpr' and e.c:
        return string_bound(fb, f, e.kids[0], depth + 1)
    if e.k == 'DeclRefExpr' and e.dk == 'parm':
        k = [i for i, (pn, pt) in enumerate(f.params) if pn == e.n]
        if not k:
            return None
        best = 0
        sites = 0
        for g in fb.funcs.values():
            for c in g.calls():
                if c.u == f.u and not g.in_assert(c):
                    a = c.args()
                    if k[0] < len(a):
                        sites += 1
                        if a[k[0]].k == 'CXXDefaultArgExpr' or strip(a[k[0]]).k in ('CXXNullPtrLiteralExpr', 'GNUNullExpr'):
                            continue
                        b = string_bound(fb, g, a[k[0]], depth + 1)
                        if b is None:
                            return None
                        best = max(best, b)
        return best if sites else None
    if e.k == 'DeclRefExpr' and e.dk == 'local':
        # a local const char* assigned only from literals
        vals = [n.kids[1] for n in f.nodes if n.k == 'BinaryOperator' and n.o == '=' and render(n.kids[0]) == e.n]
        vals += [n.kids[0] for n in f.nodes if n.k == 'VarDecl' and n.u == e.u and n.c]
        bs = [string_bound(fb, f, v, depth + 1) for v in vals]
        return None if (not bs or any(b is None for b in bs)) else max(bs)
    return None


def magnitude_bound(f, call, arg):
    """decimal digits before the point that a floating argument can have at this call: K if a dominating test |arg| < 1eK exists"""
    t = render(strip(arg))
    t = re.sub(r'^\((double|long double|float|Real)\)', '', t).strip('()')
    for a in f.ancestors(call):
        if a.k != 'IfStmt':
            continue
        c = render(a.kid('cond'))
        m = re.search(r'(?:spxAbs|fabs|std::fabs|abs)\(%s\) <=? ([0-9.]+e\+?(\d+)|1\d*)' % re.escape(t), c)
        if m and any(x.i == call.i for x in a.kid('then').walk()):
            try:
                return len(str(int(float(m.group(1)))))
            except ValueError:
                return None
    return None


def buffer_size(fb, f, size_e, buf_e, depth=0):
    """value of the size argument: a constant, sizeof of a local array, or a parameter resolved at every call site (minimum)"""
    from c13 import const_int
    sz = strip(size_e)
    v = const_int(sz)
    if v is not None:
        return v
    if sz.k == 'UnaryExprOrTypeTraitExpr':
        if sz.v is not None:
            return int(sz.v)
        for x in f.nodes:
            if x.k == 'VarDecl' and x.x.get('arr') and x.n in render(sz):
                return int(x.x.get('arr'))
    if sz.k == 'DeclRefExpr' and sz.dk == 'parm' and depth < 2:
        k = [i for i, (pn, pt) in enumerate(f.params) if pn == sz.n]
        vals = []
        for g in fb.funcs.values():
            for c in g.calls():
                if c.u == f.u and k and k[0] < len(c.args()):
                    vals.append(buffer_size(fb, g, c.args()[k[0]], None, depth + 1))
        if vals and all(v is not None for v in vals):
            return min(vals)
    return None


def truncation(fb, rep):
    """R12.5 / R12.6: what the writers print must arrive in the file in full."""
    rep.rule('R12.5', 'no writer cuts a row / column name: a %s conversion with a precision is applied only to strings whose length is bounded by that precision', floor=2)
    rep.rule('R12.6', 'every formatted record fits the buffer it is printed into: the maximal width of the conversions does not exceed the size passed to spxSnprintf', floor=8)
    wf = writer_functions(fb)
    if len(wf) < 12:
        raise AnalysisBroken('only %d writer functions found' % len(wf))
    n5 = n6 = 0
    for f in wf:
        for c in f.calls():
            if c.short not in ('spxSnprintf', 'snprintf', 'sprintf') or f.in_assert(c):
                continue
            a = c.args()
            if len(a) < 3:
                continue
            fmt = strip(a[2])
            if fmt.k != 'StringLiteral' or fmt.v is None:
                rep.unrec('R12.6', '%s|%s' % (f.short, render(c)[:40]), '%s:%d' % (f.file, c.l), 'format is not a literal')
                continue
            size = buffer_size(fb, f, a[1], a[0])
            width = 0
            unbounded = None
            ai = 3
            key = '%s|%s' % (f.short, fmt.v[:30].replace('|', '/'))
            wh = '%s:%d' % (f.file, c.l)
            for m in CONV.finditer(fmt.v):
                flags, w, prec, ln, cv = m.groups()
                if cv == '%':
                    width += 1
                    continue
                arg = a[ai] if ai < len(a) else None
                ai += 1
                mw = int(w) if w else 0
                if cv == 's':
                    if prec:
                        n5 += 1
                        b = string_bound(fb, f, arg) if arg is not None else None
                        rep.check(b is not None and b <= int(prec), 'R12.5', key + '|%%.%ss(%s)' % (prec, render(arg)[:20] if arg is not None else ''), wh,
                                  'the string is at most %s characters long' % b,
                                  'the conversion %%%s%s.%ss cuts %s to %s characters although it can be longer (a name): different names become equal in the file, or two fields are glued together' % (flags, w, prec, render(arg)[:30] if arg is not None else '?', prec))
                        width += max(mw, int(prec))
                    else:
                        b = string_bound(fb, f, arg) if arg is not None else None
                        if b is None:
                            unbounded = 'a string of unbounded length (%s)' % (render(arg)[:20] if arg is not None else '?')
                        else:
                            width += max(mw, b)
                elif cv in 'dioux' or cv in 'X':
                    width += max(mw, 20 if ln in ('l', 'll', 'z') else 11)
                elif cv in 'eEgG':
                    width += max(mw, (int(prec) if prec else 6) + 9)
                elif cv in 'fF':
                    k = magnitude_bound(f, c, arg) if arg is not None else None
                    if k is None:
                        unbounded = 'a %%.%sf conversion of %s, which needs up to 1 + 309 + 1 + %s characters' % (prec or '6', render(arg)[:20] if arg is not None else '?', prec or '6')
                    else:
                        width += max(mw, 1 + k + 1 + (int(prec) if prec else 6))
                else:
                    width += max(mw, 20)
            lit = CONV.sub('', fmt.v)
            width += len(lit)
            n6 += 1
            if size is None:
                rep.unrec('R12.6', key, wh, 'buffer size %s not understood' % render(a[1]))
            elif unbounded:
                rep.bad('R12.6', key, wh, 'the record is printed into %d bytes but contains %s: what does not fit is cut off silently and the file holds a different value' % (size, unbounded))
            else:
                rep.check(width < size, 'R12.6', key, wh, 'at most %d characters into %d bytes' % (width, size),
                          'the record can be %d characters long but is printed into %d bytes: the rest is cut off silently' % (width, size))
    if n5 < 2 or n6 < 8:
        raise AnalysisBroken('R12.5/6: only %d name conversions with a precision and %d formatted records found in the writers' % (n5, n6))


def totality(fb, rep):
    """R12.7: a writer is total over the kinds of rows and columns an LP can hold: the case split on the finiteness of the two sides
    (bounds) has no arm that throws or aborts."""
    rep.rule('R12.7', 'the writers handle every row / bound kind: no arm of a split on the finiteness of lhs/rhs (lower/upper) ends in a throw', floor=6)
    wf = writer_functions(fb)
    k = 0
    for f in wf:
        for n in f.nodes:
            if n.k != 'IfStmt':
                continue
            c = render(n.kid('cond'))
            if not re.search(r'infinity', c) or f.in_assert(n):
                continue
            # only the outermost if of a chain
            if n.parent is not None and n.parent.k == 'IfStmt' and n.parent.kid('else') is not None and n.parent.kid('else').i == n.i:
                continue
            # walk the else-if chain
            arms = []
            cur = n
            while cur is not None and cur.k == 'IfStmt':
                arms.append((render(cur.kid('cond')), cur.kid('then')))
                e = cur.kid('else')
                if e is not None and e.k != 'IfStmt':
                    arms.append(('else', e))
                cur = e if (e is not None and e.k == 'IfStmt') else None
            k += 1
            thr = [(ct, a) for ct, a in arms if a is not None and any(x.k == 'CXXThrowExpr' for x in a.walk())]
            rep.check(not thr, 'R12.7', '%s|split(%s)' % (f.short, c[:40]), '%s:%d' % (f.file, n.l), '%d arms, none throws' % len(arms),
                      'the arm `%s` of the split on finite / infinite sides throws: an LP that holds such a row or bound (a free row) cannot be written' % (thr[0][0][:50] if thr else ''))
    if k < 6:
        raise AnalysisBroken('R12.7: only %d splits on infinity found in the writers' % k)


def digit_kept(fb, rep):
    """R12.8: the number parsers strip padding zeros with `s.erase(P, min(.., s.size() - C))`.  At least one digit must survive, i.e. at
    most size - P - 1 characters may be erased from position P on: C >= P + 1.  (With C = P a literal whose digits are all zero loses
    every digit and is no number any more.)"""
    rep.rule('R12.8', 'stripping padding zeros from a numeric literal always leaves one digit: erase(P, min(.., size() - C)) has C >= P + 1', floor=2)
    from c13 import const_int
    k = 0
    for f in fb.funcs.values():
        if f.short not in ('ratFromString', 'readStringRational') or not f.name.startswith('soplex::'):
            continue
        for n in f.nodes:
            if n.k != 'CXXMemberCallExpr' or n.short != 'erase' or len(n.args()) != 2:
                continue
            P = const_int(n.args()[0])
            cnt = strip(n.args()[1])
            # the count argument: a min(...) whose one operand is <obj>.size() - C
            C = None
            for x in cnt.walk():
                if x.k == 'BinaryOperator' and x.o == '-' and render(strip(x.kids[0])).endswith('.size()') and render(strip(x.kids[0])).startswith(render(n.obj())):
                    C = const_int(x.kids[1])
            if P is None or C is None:
                continue
            k += 1
            rep.check(C >= P + 1, 'R12.8', '%s|erase(%d, .. size() - %d)' % (f.short, P, C), '%s:%d' % (f.file, n.l), 'at most size - %d characters are erased from position %d on' % (C, P),
                      '%s can erase size() - %d characters from position %d on, i.e. everything behind it: a literal whose digits are all zero (-0.0) loses every digit and is rejected as malformed' % (render(n)[:60], C, P))
    if k < 2:
        raise AnalysisBroken('R12.8: the zero-stripping erase calls of the number parser were not found')


def local_lp_tolerances(fb, rep):
    """R12.9: an SPxLPBase without a Tolerances object is inconsistent as soon as it has a column.  A function that builds an LP in a
    default-constructed local (the dual writer, the unscaled copy of writeFile uses a copy constructor and is fine) calls setTolerances
    on it before it is filled."""
    rep.rule('R12.9', 'a default-constructed local LP receives tolerances before rows or columns are put into it', floor=1)
    k = 0
    for f in fb.methods_of(M.CLS):
        for d in f.nodes:
            if d.k != 'VarDecl' or not re.match(r'^(soplex::)?SPxLPBase<.*>$', d.t or ''):
                continue
            if d.c and d.kids[0].k == 'CXXConstructExpr' and d.kids[0].args():
                continue          # copy-constructed: inherits the tolerances
            fills = [n for n in f.nodes if n.is_call() and any(strip(a).k == 'DeclRefExpr' and strip(a).u == d.u for a in n.args()) and n.short in ('buildDualProblem',)]
            fills += [n for n in f.nodes if n.k == 'CXXMemberCallExpr' and n.obj() is not None and strip(n.obj()).k == 'DeclRefExpr' and strip(n.obj()).u == d.u and re.match(r'^(add|read|load)', n.short or '')]
            if not fills:
                continue
            k += 1
            st = [n for n in f.nodes if n.k == 'CXXMemberCallExpr' and n.short == 'setTolerances' and n.obj() is not None and strip(n.obj()).k == 'DeclRefExpr' and strip(n.obj()).u == d.u and n.i < min(x.i for x in fills)]
            rep.check(bool(st), 'R12.9', '%s|%s' % (f.short, d.n), '%s:%d' % (f.file, d.l), 'setTolerances before %s' % fills[0].short,
                      '%s fills the default-constructed LP %s (%s) without giving it tolerances first: SPxLPBase::isConsistent fails as soon as the LP has a column, the writer aborts' % (f.short, d.n, fills[0].short))
    if k < 1:
        raise AnalysisBroken('R12.9: no locally built LP found')
