"""C05 — basis-inverse and basis-multiply queries agree with the user's basis matrix (scaling / plumbing clauses)."""
import re
from engine import render, strip, Graph, Assume, must
from facts import AnalysisBroken, CALL_KINDS
import modifiers as M

EXPLANATION = (
    "Decides structural necessary conditions of C05 in getBasisInverseRowReal / ColReal / TimesVecReal, multBasis, multBasisTranspose: "
    "R05.1 no discarded scaling - the result of every spxLdexp / spxFrexp call is consumed (a call in statement position computes a "
    "scaled value and throws it away); R05.2 basis-space exponent pairing - a basis member is a structural column (scaled by c_j) or a "
    "slack (scaled by 1/r_i), so wherever both arms of a split on the kind of basis member apply a scale exponent, the column arm uses "
    "getColScaleExp and the slack arm getRowScaleExp with opposite signs; R05.3 index domains - inside a split on "
    "baseId(E).isSPxColId() the exponent is looked up at number(baseId(E)) for the same E (never at the basis position itself), inside a "
    "split on a negative basis index the row arm decodes the index (-idx-1) before using it; R05.4 null discipline - the scaler object is "
    "dereferenced only where a test of the _scaler pointer itself governs the access (`_solver.isScaled()` does not imply a scaler "
    "object: a persistently scaled LP stays scaled after the scaler parameter is switched off); R05.5 sparsity output - where index/count "
    "outputs are filled, setup() of the solution vector precedes the read of its size and the loop over inds is bounded by *ninds. NOT "
    "decided: that the solves return columns/rows of the inverse, tolerances, the row-representation algebra beyond sign/kind consistency.")

C = M.CLS
FUNCS = ('getBasisInverseRowReal', 'getBasisInverseColReal', 'getBasisInverseTimesVecReal', 'multBasis', 'multBasisTranspose')


def exp_sites(f):
    return [n for n in f.nodes if n.k == 'CXXMemberCallExpr' and n.short in ('getRowScaleExp', 'getColScaleExp')]


def signed_kind(f, n):
    """('row'|'col', sign) of a get*ScaleExp call, sign from an enclosing unary minus"""
    sign = 1
    p = n.parent
    while p is not None and p.k in ('ImplicitCastExpr', 'ParenExpr', 'UnaryOperator'):
        if p.k == 'UnaryOperator' and p.o == '-':
            sign = -sign
        p = p.parent
    return ('row' if n.short == 'getRowScaleExp' else 'col'), sign


def run(fb, rep, tier):
    rep.extra['explanation'] = EXPLANATION
    fs = [fb.one(C + '::' + nm) for nm in FUNCS]

    # ------------------------------------------------------------------ R05.1
    rep.rule('R05.1', 'the result of every spxLdexp / spxFrexp / scaled-value computation is consumed', floor=15)
    scope = fs + [f for f in fb.methods_of(C) if f.short.startswith('_unscale') or f.short.startswith('getBasis')]
    seen = set()
    k = 0
    for f in scope:
        if f.u in seen:
            continue
        seen.add(f.u)
        ordn = 0
        for n in f.nodes:
            if n.k == 'CallExpr' and n.short in ('spxLdexp', 'spxFrexp', 'ldexp', 'frexp'):
                ordn += 1
                k += 1
                p = n.parent
                while p is not None and p.k in ('ImplicitCastExpr', 'ParenExpr', 'ExprWithCleanups'):
                    p = p.parent
                discarded = p is None or p.k in ('CompoundStmt', 'ForStmt', 'IfStmt', 'WhileStmt', 'CaseStmt', 'DefaultStmt') and not (p.k in ('ForStmt', 'IfStmt', 'WhileStmt') and any(x.i == n.i for x in (p.kid('cond').walk() if p.kid('cond') is not None else [])))
                rep.check(not discarded, 'R05.1', '%s|%s#%d' % (f.short, n.short, ordn), '%s:%d' % (f.file, n.l), 'result used (%s)' % (p.k if p is not None else ''),
                          '`%s;` computes a scaled value and discards it: the value stays unscaled' % render(n)[:70])
    if k < 15:
        raise AnalysisBroken('only %d spxLdexp sites found in the basis queries' % k)

    # ------------------------------------------------------------------ R05.2 / R05.3
    rep.rule('R05.2', 'split on the kind of basis member: column arm uses getColScaleExp, slack arm getRowScaleExp, with opposite signs', floor=9)
    rep.rule('R05.3', 'exponent looked up at number(baseId(E)) for the E of the split / at the decoded row index', floor=12)
    for f in fs:
        ordn = 0
        for st in f.nodes:
            if st.k != 'IfStmt' or st.kid('else') is None:
                continue
            c = render(st.kid('cond'))
            m = re.match(r'^_solver\.basis\(\)\.baseId\((.*)\)\.isSPxColId\(\)$', c)
            neg = re.match(r'^\((\w+) < 0\)$', c)
            rowid = re.match(r'^(\w+)\.isSPxRowId\(\)$', c)
            if not (m or neg):
                continue
            th = [n for n in st.kid('then').walk() if n.k == 'CXXMemberCallExpr' and n.short in ('getRowScaleExp', 'getColScaleExp')]
            el = [n for n in st.kid('else').walk() if n.k == 'CXXMemberCallExpr' and n.short in ('getRowScaleExp', 'getColScaleExp')]
            # only the direct arms (not nested splits)
            if not th or not el:
                continue
            ordn += 1
            col_arm, row_arm = (th, el) if m else (el, th)
            key = '%s|split#%d(%s)' % (f.short, ordn, c[:50])
            wh = '%s:%d' % (f.file, st.l)
            ck = [signed_kind(f, n) for n in col_arm]
            rk = [signed_kind(f, n) for n in row_arm]
            kinds_ok = all(k == 'col' for k, _ in ck) and all(k == 'row' for k, _ in rk)
            signs_ok = len(set(s for _, s in ck)) == 1 and len(set(s for _, s in rk)) == 1 and ck[0][1] == -rk[0][1]
            if not kinds_ok:
                rep.bad('R05.2', key, wh, 'the column arm uses %s and the slack arm %s: a structural column is scaled by its column factor, a slack by the inverse row factor' % ([n.short for n in col_arm], [n.short for n in row_arm]))
            else:
                rep.check(signs_ok, 'R05.2', key, wh, 'column %+d / slack %+d' % (ck[0][1], rk[0][1]),
                          'column arm applies %s%s and slack arm %s%s: the two exponents must have opposite signs (c_j for a column, 1/r_i for a slack)' % ('+' if ck[0][1] > 0 else '-', col_arm[0].short, '+' if rk[0][1] > 0 else '-', row_arm[0].short))
            # index domains
            for n in col_arm + row_arm:
                a = strip(n.args()[0])
                at = render(a)
                k3 = '%s|split#%d|%s(%s)' % (f.short, ordn, n.short, at[:40])
                w3 = '%s:%d' % (f.file, n.l)
                if m:
                    E = m.group(1)
                    want = '_solver.number(_solver.basis().baseId(%s))' % E
                    src = at
                    if a.k == 'DeclRefExpr' and a.dk == 'local':
                        d = nearest_def(f, a.n, n)
                        src = render(d) if d is not None else at
                    rep.check(src == want, 'R05.3', k3, w3, 'looked up at %s' % want, 'the exponent is looked up at %s; the basis member tested is baseId(%s), whose row/column number is %s' % (src, E, want))
                else:
                    v = neg.group(1)
                    if n in row_arm:
                        # decoded before use
                        dec = [x for x in st.kid('then').walk() if x.k == 'BinaryOperator' and x.o == '=' and render(x.kids[0]) == v and re.sub(r'[() ]', '', render(x.kids[1])) in ('-%s-1' % v, '-1-%s' % v) and (x.l, x.i) < (n.l, n.i)]
                        rep.check(at == v and bool(dec), 'R05.3', k3, w3, '%s decoded (-%s-1) before the lookup' % (v, v), 'the slack arm looks the exponent up at %s without decoding the negative basis index first' % at)
                    else:
                        rep.check(at == v, 'R05.3', k3, w3, 'column index %s' % v, 'the column arm looks the exponent up at %s instead of the column index %s' % (at, v))

    # ------------------------------------------------------------------ R05.4
    rep.rule('R05.4', 'the scaler object is dereferenced only under a test of the _scaler pointer itself', floor=10)
    for f in sorted(fb.methods_of(C), key=lambda f: (f.file, f.line)):
        ds = [n for n in f.nodes if n.k == 'CXXMemberCallExpr' and n.obj() is not None and render(n.obj()) == '_scaler' and not f.in_assert(n)]
        if not ds:
            continue
        unguarded = []
        for n in ds:
            ok = False
            for a in f.ancestors(n):
                if a.k == 'IfStmt' and any(x.i == n.i for x in a.kid('then').walk()):
                    ct = render(a.kid('cond'))
                    if re.search(r'(^|[ (!])_scaler( != nullptr)?($|[ )&])', ct) and '!_scaler' not in ct and '_scaler == nullptr' not in ct:
                        ok = True
                if a.k == 'ConditionalOperator' and re.search(r'_scaler', render(a.kid('cond'))):
                    ok = True
            # a function that is only entered with a scaler (its callers test the pointer) is accepted via the call sites
            if not ok:
                unguarded.append(n)
        key = '%s(%s)' % (f.short, ','.join(M.short_t(t) for _, t in f.params))
        if not unguarded:
            rep.ok('R05.4', key, f.where(), '%d dereferences, all under a test of _scaler' % len(ds))
            continue
        # callers all guard?
        callers = [(h, c) for h in fb.methods_of(C) for c in h.calls() if c.u == f.u]
        cg = bool(callers) and all(any(a.k == 'IfStmt' and re.search(r'_scaler', render(a.kid('cond'))) for a in h.ancestors(c)) or
                                    any(a.k == 'IfStmt' and re.search(r'isScaled\(\)|_isRealLPScaled', render(a.kid('cond'))) for a in h.ancestors(c)) and h.short.startswith('_') for h, c in callers)
        if f.short.startswith('_') and cg:
            rep.ok('R05.4', key, f.where(), 'internal helper; every call site is governed by the scaling state of the solve that just ran', nontrivial=False)
        else:
            n = unguarded[0]
            conds = [render(a.kid('cond'))[:50] for a in f.ancestors(n) if a.k == 'IfStmt'][:2]
            rep.bad('R05.4', key, '%s:%d' % (f.file, n.l), '_scaler->%s is reached under %s only: after setIntParam(SCALER, SCALER_OFF) on a persistently scaled LP the LP is still scaled but _scaler is null' % (n.short, conds))

    # ------------------------------------------------------------------ R05.5
    rep.rule('R05.5', 'sparse outputs: setup() precedes size(); the loop that fills inds is bounded by *ninds', floor=2)
    for f in fs[:2]:
        for lp in [n for n in f.nodes if n.k == 'ForStmt']:
            body = lp.kid('body')
            if body is None or not any(x.k == 'BinaryOperator' and x.o == '=' and render(x.kids[0]).startswith('inds[') for x in body.walk()):
                continue
            c = render(lp.kid('cond'))
            rep.check('< *ninds' in c, 'R05.5', '%s|inds-loop' % f.short, '%s:%d' % (f.file, lp.l), 'loop bounded by *ninds', 'the loop that fills inds is bounded by %s' % c)
            nin = [x for x in f.nodes if x.k == 'BinaryOperator' and x.o == '=' and render(x.kids[0]) == '*ninds' and 'size()' in render(x.kids[1]) and (x.l, x.i) < (lp.l, lp.i)]
            su = [x for x in f.nodes if x.k == 'CXXMemberCallExpr' and x.short == 'setup' and nin and (x.l, x.i) < (nin[-1].l, nin[-1].i) and x.l >= nin[-1].l - 3]
            rep.check(bool(nin) and bool(su), 'R05.5', '%s|setup-before-size' % f.short, '%s:%d' % (f.file, lp.l), 'x.setup() immediately before *ninds = x.size()', 'the size of the solution vector is read without a preceding setup()')


def nearest_def(f, name, at):
    best = None
    for n in f.nodes:
        if (n.l, n.i) >= (at.l, at.i):
            continue
        if n.k == 'VarDecl' and n.n == name and n.c:
            if best is None or (n.l, n.i) > (best[0].l, best[0].i):
                best = (n, n.kids[0])
        if n.k == 'BinaryOperator' and n.o == '=' and render(n.kids[0]) == name:
            if best is None or (n.l, n.i) > (best[0].l, best[0].i):
                best = (n, n.kids[1])
    return best[1] if best else None
