"""C05 — basis-inverse and basis-multiply queries agree with the user's basis matrix (scaling / plumbing clauses)."""
import re
from engine import render, strip, Graph, Assume, must
from facts import AnalysisBroken, CALL_KINDS
import modifiers as M

EXPLANATION = (
    "Decides structural necessary conditions of C05 in getBasisInverseRowReal / ColReal / TimesVecReal, multBasis, multBasisTranspose: "
    "R05.1 no discarded scaling - the result of every spxLdexp / spxFrexp call is consumed (a call in statement position computes a "
    "scaled value and throws it away); R05.2 basis-space exponent pairing - a basis member is a structural column (scaled by c_j) or a "
    "slack (scaled by 1/r_i), so wherever both arms of a split on the kind of basis member apply a scale exponent, the column arm uses "
    "getColScaleExp and the slack arm getRowScaleExp with opposite signs; R05.3 index domains - inside a split on "
    "baseId(E).isSPxColId() the exponent is looked up at number(baseId(E)) for the same E (never at the basis position itself), inside a "
    "split on a negative basis index the row arm decodes the index (-idx-1) before using it; R05.4 null discipline - the scaler object is "
    "dereferenced only where a test of the _scaler pointer itself governs the access (`_solver.isScaled()` does not imply a scaler "
    "object: a persistently scaled LP stays scaled after the scaler parameter is switched off); R05.5 sparsity output - where index/count "
    "outputs are filled, setup() of the solution vector precedes the read of its size and the loop over inds is bounded by *ninds; R05.6 "
    "sum semantics - in multBasis / multBasisTranspose (row representation) every contribution of a basis column accumulates or writes a "
    "position unique to the iteration, and nowhere in the library is a sparse vector filled by bulk appends in a loop and then densified "
    "by assignment; R05.7 the scaled and unscaled variant of an operation are exclusive alternatives; R05.8 index domains by provenance - "
    "a row exponent is looked up at an index whose domain is the rows (loop bound, vector dimension, contract of the parameter), a "
    "column exponent at a column index; R05.9 homogeneity - a raw caller-supplied value is never added to / subtracted from a product "
    "with an internal (scaled) LP vector on a path where scaling is being undone. NOT "
    "decided: that the solves return columns/rows of the inverse, tolerances, the row-representation algebra beyond sign/kind consistency.")

C = M.CLS
FUNCS = ('getBasisInverseRowReal', 'getBasisInverseColReal', 'getBasisInverseTimesVecReal', 'multBasis', 'multBasisTranspose')


def exp_sites(f):
    return [n for n in f.nodes if n.k == 'CXXMemberCallExpr' and n.short in ('getRowScaleExp', 'getColScaleExp')]


def signed_kind(f, n):
    """('row'|'col', sign) of a get*ScaleExp call, sign from an enclosing unary minus"""
    sign = 1
    p = n.parent
    while p is not None and p.k in ('ImplicitCastExpr', 'ParenExpr', 'UnaryOperator'):
        if p.k == 'UnaryOperator' and p.o == '-':
            sign = -sign
        p = p.parent
    return ('row' if n.short == 'getRowScaleExp' else 'col'), sign


def resolve_exp(f, e, depth=0):
    """('row'|'col', sign) of an exponent expression: +-get*ScaleExp(..), or a local variable defined by one"""
    e = strip(e)
    if e is None or depth > 4:
        return None
    if e.k == 'UnaryOperator' and e.o == '-':
        r = resolve_exp(f, e.kids[0], depth + 1)
        return (r[0], -r[1]) if r else None
    if e.k == 'CXXMemberCallExpr' and e.short in ('getRowScaleExp', 'getColScaleExp'):
        return ('row' if e.short == 'getRowScaleExp' else 'col', 1)
    if e.k == 'DeclRefExpr' and e.dk == 'local':
        d = nearest_def(f, e.n, e)
        return resolve_exp(f, d, depth + 1) if d is not None else None
    return None


def net_kind(f, arm):
    ld = [n for n in arm.walk() if n.k == 'CallExpr' and n.short == 'spxLdexp' and len(n.args()) == 2]
    if not ld:
        return None
    r = resolve_exp(f, ld[-1].args()[1])
    return [r] if r else None


def run(fb, rep, tier):
    rep.extra['explanation'] = EXPLANATION
    fs = [fb.one(C + '::' + nm) for nm in FUNCS]

    # ------------------------------------------------------------------ R05.1
    rep.rule('R05.1', 'the result of every spxLdexp / spxFrexp / scaled-value computation is consumed', floor=15)
    scope = fs + [f for f in fb.methods_of(C) if f.short.startswith('_unscale') or f.short.startswith('getBasis')]
    seen = set()
    k = 0
    for f in scope:
        if f.u in seen:
            continue
        seen.add(f.u)
        ordn = 0
        for n in f.nodes:
            if n.k == 'CallExpr' and n.short in ('spxLdexp', 'spxFrexp', 'ldexp', 'frexp'):
                ordn += 1
                k += 1
                p = n.parent
                while p is not None and p.k in ('ImplicitCastExpr', 'ParenExpr', 'ExprWithCleanups'):
                    p = p.parent
                discarded = p is None or p.k in ('CompoundStmt', 'ForStmt', 'IfStmt', 'WhileStmt', 'CaseStmt', 'DefaultStmt') and not (p.k in ('ForStmt', 'IfStmt', 'WhileStmt') and any(x.i == n.i for x in (p.kid('cond').walk() if p.kid('cond') is not None else [])))
                rep.check(not discarded, 'R05.1', '%s|%s#%d' % (f.short, n.short, ordn), '%s:%d' % (f.file, n.l), 'result used (%s)' % (p.k if p is not None else ''),
                          '`%s;` computes a scaled value and discards it: the value stays unscaled' % render(n)[:70])
    if k < 15:
        raise AnalysisBroken('only %d spxLdexp sites found in the basis queries' % k)

    # ------------------------------------------------------------------ R05.2 / R05.3
    rep.rule('R05.2', 'split on the kind of basis member: column arm uses getColScaleExp, slack arm getRowScaleExp, with opposite signs', floor=8)
    rep.rule('R05.3', 'exponent looked up at number(baseId(E)) for the E of the split / at the decoded row index', floor=12)
    for f in fs:
        ordn = 0
        for st in f.nodes:
            if st.k != 'IfStmt' or st.kid('else') is None:
                continue
            c = render(st.kid('cond'))
            m = re.match(r'^_solver\.basis\(\)\.baseId\((.*)\)\.isSPxColId\(\)$', c)
            neg = re.match(r'^\((\w+) < 0\)$', c)
            rowid = re.match(r'^(\w+)\.isSPxRowId\(\)$', c)
            if not (m or neg):
                continue
            th = [n for n in st.kid('then').walk() if n.k == 'CXXMemberCallExpr' and n.short in ('getRowScaleExp', 'getColScaleExp')]
            el = [n for n in st.kid('else').walk() if n.k == 'CXXMemberCallExpr' and n.short in ('getRowScaleExp', 'getColScaleExp')]
            # only the direct arms (not nested splits)
            if not th or not el:
                continue
            ordn += 1
            col_arm, row_arm = (th, el) if m else (el, th)
            key = '%s|split#%d(%s)' % (f.short, ordn, c[:50])
            wh = '%s:%d' % (f.file, st.l)
            # the net exponent applied to the result of an arm: the exponent argument of the last spxLdexp in the arm when it
            # has one (an arm may scale its right-hand side up first and the result back afterwards), otherwise the lookup itself
            ck = net_kind(f, st.kid('then') if m else st.kid('else')) or [signed_kind(f, n) for n in col_arm]
            rk = net_kind(f, st.kid('else') if m else st.kid('then')) or [signed_kind(f, n) for n in row_arm]
            kinds_ok = all(k == 'col' for k, _ in ck) and all(k == 'row' for k, _ in rk)
            signs_ok = len(set(s for _, s in ck)) == 1 and len(set(s for _, s in rk)) == 1 and ck[0][1] == -rk[0][1]
            if not kinds_ok:
                rep.bad('R05.2', key, wh, 'the column arm uses %s and the slack arm %s: a structural column is scaled by its column factor, a slack by the inverse row factor' % ([n.short for n in col_arm], [n.short for n in row_arm]))
            else:
                rep.check(signs_ok, 'R05.2', key, wh, 'column %+d / slack %+d' % (ck[0][1], rk[0][1]),
                          'column arm applies %s%s and slack arm %s%s: the two exponents must have opposite signs (c_j for a column, 1/r_i for a slack)' % ('+' if ck[0][1] > 0 else '-', col_arm[0].short, '+' if rk[0][1] > 0 else '-', row_arm[0].short))
            # index domains
            for n in col_arm + row_arm:
                a = strip(n.args()[0])
                at = render(a)
                k3 = '%s|split#%d|%s(%s)' % (f.short, ordn, n.short, at[:40])
                w3 = '%s:%d' % (f.file, n.l)
                if m:
                    E = m.group(1)
                    want = '_solver.number(_solver.basis().baseId(%s))' % E
                    src = at
                    if a.k == 'DeclRefExpr' and a.dk == 'local':
                        d = nearest_def(f, a.n, n)
                        src = render(d) if d is not None else at
                    rep.check(src == want, 'R05.3', k3, w3, 'looked up at %s' % want, 'the exponent is looked up at %s; the basis member tested is baseId(%s), whose row/column number is %s' % (src, E, want))
                else:
                    v = neg.group(1)
                    if n in row_arm:
                        # decoded before use
                        dec = [x for x in st.kid('then').walk() if x.k == 'BinaryOperator' and x.o == '=' and render(x.kids[0]) == v and re.sub(r'[() ]', '', render(x.kids[1])) in ('-%s-1' % v, '-1-%s' % v) and (x.l, x.i) < (n.l, n.i)]
                        rep.check(at == v and bool(dec), 'R05.3', k3, w3, '%s decoded (-%s-1) before the lookup' % (v, v), 'the slack arm looks the exponent up at %s without decoding the negative basis index first' % at)
                    else:
                        rep.check(at == v, 'R05.3', k3, w3, 'column index %s' % v, 'the column arm looks the exponent up at %s instead of the column index %s' % (at, v))

    # ------------------------------------------------------------------ R05.4
    rep.rule('R05.4', 'the scaler object is dereferenced only under a test of the _scaler pointer itself, or of the scaled state of the LP where the selection of the scaler cannot change while the LP is scaled', floor=10)
    # invariant "the LP in the solver is scaled => _scaler is the (non-null) scaler that scaled it": it holds if every function outside the
    # constructors that assigns _scaler first hands a scaled LP back unscaled (an if on _solver.isScaled() whose branch calls
    # unscaleLPandReloadBasis() / unscaleLP(), on every path to the assignment).  F28: it did not, setIntParam(SCALER, ..) just re-targeted.
    inv_ok, inv_sites = True, 0
    for g in fb.methods_of(C):
        if not g.nodes or g.mk in ('ctor', 'copyctor') or g.short == 'SoPlexBase':
            continue
        asg = [n for n in g.nodes if n.k == 'BinaryOperator' and n.o == '=' and render(strip(n.kids[0])).replace('this->', '') == '_scaler']
        if not asg:
            continue
        inv_sites += len(asg)
        uns = [a for a in g.nodes if a.k == 'IfStmt' and a.kid('cond') is not None and a.kid('then') is not None and re.search(r'_solver\.isScaled\(\)', render(a.kid('cond')))
               and any(x.k == 'CXXMemberCallExpr' and x.short in ('unscaleLPandReloadBasis', 'unscaleLP') for x in a.kid('then').walk())]
        from engine import case_arm_nodes
        arms = [set(x.i for x in case_arm_nodes(g, cs)) for cs in g.nodes if cs.k == 'CaseStmt']
        for n in asg:
            anc = list(g.ancestors(n))
            # (1) the arm of the parameter switch that re-targets the pointer also hands a scaled LP back unscaled (before the setter returns:
            #     no query can run in between; the unscaling itself goes through the scaler attached to the LP, not through _scaler)
            ok_ = any(any(u.i in a_ and n.i in a_ for a_ in arms) for u in uns)
            # (2) the pointer is re-derived from the stored parameter: the same selection as before
            ok_ = ok_ or any(a.k == 'SwitchStmt' and a.kid('cond') is not None and re.search(r'intParam\((SoPlexBase<\w+>::)?SCALER\)', render(a.kid('cond'))) for a in anc)
            # (3) dropped only when the LP is not scaled
            ok_ = ok_ or any(a.k == 'IfStmt' and a.kid('cond') is not None and re.search(r'!\(?(this->)?_isRealLPScaled|!\(?_solver\.isScaled\(\)', render(a.kid('cond')))
                             and any(x.i == n.i for x in a.kid('then').walk()) for a in anc)
            inv_ok = inv_ok and ok_
    if inv_sites == 0:
        raise AnalysisBroken('R05.4: no assignment to _scaler found outside the constructors')
    for f in sorted(fb.methods_of(C), key=lambda f: (f.file, f.line)):
        ds = [n for n in f.nodes if n.k == 'CXXMemberCallExpr' and n.obj() is not None and render(n.obj()) == '_scaler' and not f.in_assert(n)]
        if not ds:
            continue
        unguarded = []
        for n in ds:
            ok = False
            for a in f.ancestors(n):
                if a.k == 'IfStmt' and any(x.i == n.i for x in a.kid('then').walk()):
                    ct = render(a.kid('cond'))
                    if re.search(r'(^|[ (!])_scaler( != nullptr)?($|[ )&])', ct) and '!_scaler' not in ct and '_scaler == nullptr' not in ct:
                        ok = True
                if a.k == 'ConditionalOperator' and re.search(r'_scaler', render(a.kid('cond'))):
                    ok = True
                if inv_ok and a.k == 'IfStmt' and any(x.i == n.i for x in a.kid('then').walk()):
                    ct = render(a.kid('cond'))
                    # a bool local that stands for the scaled state (`const bool adaptScaling = unscale && _solver.isScaled();`)
                    m_ = re.fullmatch(r'\(?(\w+)\)?', ct)
                    if m_:
                        for v_ in f.nodes:
                            if v_.k == 'VarDecl' and str(v_.n).split('::')[-1] == m_.group(1) and v_.t in ('bool', 'const bool') and v_.c:
                                ct = render(v_.kids[0])
                    # _realLP->isScaled(): these queries return early unless the real LP is the one loaded in the solver (_realLP == &_solver)
                    if re.search(r'(_solver\.|_realLP->)isScaled\(\)', ct) and not re.search(r'!\(?(_solver\.|_realLP->)isScaled', ct) and '||' not in ct:
                        ok = True
            # a function that is only entered with a scaler (its callers test the pointer) is accepted via the call sites
            if not ok:
                unguarded.append(n)
        key = '%s(%s)' % (f.short, ','.join(M.short_t(t) for _, t in f.params))
        if not unguarded:
            rep.ok('R05.4', key, f.where(), '%d dereferences, all under a test of _scaler' % len(ds))
            continue
        # callers all guard?
        callers = [(h, c) for h in fb.methods_of(C) for c in h.calls() if c.u == f.u]
        cg = bool(callers) and all(any(a.k == 'IfStmt' and re.search(r'_scaler', render(a.kid('cond'))) for a in h.ancestors(c)) or
                                    any(a.k == 'IfStmt' and re.search(r'isScaled\(\)|_isRealLPScaled', render(a.kid('cond'))) for a in h.ancestors(c)) and h.short.startswith('_') for h, c in callers)
        if f.short.startswith('_') and cg:
            rep.ok('R05.4', key, f.where(), 'internal helper; every call site is governed by the scaling state of the solve that just ran', nontrivial=False)
        else:
            n = unguarded[0]
            conds = [render(a.kid('cond'))[:50] for a in f.ancestors(n) if a.k == 'IfStmt'][:2]
            rep.bad('R05.4', key, '%s:%d' % (f.file, n.l), '_scaler->%s is reached under %s only: after setIntParam(SCALER, SCALER_OFF) on a persistently scaled LP the LP is still scaled but _scaler is null' % (n.short, conds))

    # ------------------------------------------------------------------ R05.5
    rep.rule('R05.5', 'sparse outputs: setup() precedes size(); the loop that fills inds is bounded by *ninds', floor=2)
    for f in fs[:2]:
        for lp in [n for n in f.nodes if n.k == 'ForStmt']:
            body = lp.kid('body')
            if body is None or not any(x.k == 'BinaryOperator' and x.o == '=' and render(x.kids[0]).startswith('inds[') for x in body.walk()):
                continue
            c = render(lp.kid('cond'))
            rep.check('< *ninds' in c, 'R05.5', '%s|inds-loop' % f.short, '%s:%d' % (f.file, lp.l), 'loop bounded by *ninds', 'the loop that fills inds is bounded by %s' % c)
            nin = [x for x in f.nodes if x.k == 'BinaryOperator' and x.o == '=' and render(x.kids[0]) == '*ninds' and 'size()' in render(x.kids[1]) and (x.l, x.i) < (lp.l, lp.i)]
            su = [x for x in f.nodes if x.k == 'CXXMemberCallExpr' and x.short == 'setup' and nin and (x.l, x.i) < (nin[-1].l, nin[-1].i) and x.l >= nin[-1].l - 3]
            rep.check(bool(nin) and bool(su), 'R05.5', '%s|setup-before-size' % f.short, '%s:%d' % (f.file, lp.l), 'x.setup() immediately before *ninds = x.size()', 'the size of the solution vector is read without a preceding setup()')

    # ------------------------------------------------------------------ R05.6
    # B*x and x^T*B are sums over basis columns: every contribution inside the loop over basis positions must accumulate
    # (dense `y[k] += ..`, y.multAdd(a, v)) or write a position that is unique per iteration (y.add(i, dot) with the loop variable);
    # appending sparse vectors (DSVectorBase::add(SVectorBase) does not merge equal indices) and densifying by assignment
    # (VectorBase = SVectorBase keeps the last entry per index) does not compute a sum
    rep.rule('R05.6', 'products with the basis matrix are accumulated, never collected by appending sparse vectors and densifying by assignment', floor=7)

    def bulk_appends(f):
        out = []
        for n in f.nodes:
            if n.k == 'CXXMemberCallExpr' and n.short == 'add' and n.obj() is not None and 'DSVectorBase' in (n.obj().t or '') and len(n.args()) == 1 \
                    and re.search(r'SVectorBase|DSVector|UnitVector', n.args()[0].t or ''):
                loops = [a for a in f.ancestors(n) if a.k in ('ForStmt', 'WhileStmt', 'DoStmt')]
                if loops:
                    out.append((n, loops[0]))
        return out

    def densified(f, name):
        for n in f.nodes:
            if n.k == 'CXXOperatorCallExpr' and n.o == '=' and len(n.args()) == 2 and render(strip(n.args()[1])) == name and 'VectorBase' in (n.args()[0].t or '') and 'SVectorBase' not in (n.args()[0].t or ''):
                return n
            if n.k == 'CXXOperatorCallExpr' and n.o == '[]' and n.args() and render(strip(n.args()[0])) == name:
                return n
        return None
    ctl = 0
    hits = 0
    for f in fb.funcs.values():
        for n, lp in bulk_appends(f):
            tgt = render(n.obj())
            d = densified(f, tgt)
            if f.name.startswith('verif_ctl::'):
                ctl += 1 if d is not None else 0
                continue
            if not f.name.startswith('soplex::') or d is None:
                continue
            hits += 1
            rep.bad('R05.6', '%s|%s' % (f.short, render(n)[:40]), '%s:%d' % (f.file, n.l), '%s appends a sparse vector to %s inside a loop (equal indices are not merged) and %s is then read per index / assigned to a dense vector at line %d (the last entry per index wins): the result is not the sum of the contributions' % (render(n)[:50], tgt, tgt, d.l))
    if ctl < 1:
        raise AnalysisBroken('R05.6 positive control (units/controls.cpp sums_columns_by_append) did not fire')
    rep.ok('R05.6', 'control|sums_columns_by_append', 'units/controls.cpp', 'positive control fires', nontrivial=False)
    rep.ok('R05.6', 'scan|all-functions', 'src', '%d functions scanned, %d append-then-densify sites' % (len(fb.funcs), hits), nontrivial=False)
    for f in (fb.one(C + '::multBasis'), fb.one(C + '::multBasisTranspose')):
        # the ROW-representation loop: the for statement whose body reads bind[i]
        loops = [n for n in f.nodes if n.k == 'ForStmt' and n.kid('body') is not None and any(render(x).startswith('bind[') for x in n.kid('body').walk() if x.k == 'ArraySubscriptExpr')]
        if len(loops) != 1:
            raise AnalysisBroken('%s: the loop over the complementary column basis (bind[i]) was not found' % f.short)
        lp = loops[0]
        iv = None
        for x in (lp.kid('init').walk() if lp.kid('init') is not None else []):
            if x.k == 'VarDecl':
                iv = x.n
        k = 0
        for n in lp.kid('body').walk():
            kind = None
            if n.k == 'CompoundAssignOperator' and n.o == '+=':
                kind = 'dense +='
            elif n.k == 'CXXMemberCallExpr' and n.short == 'multAdd':
                kind = 'multAdd'
            elif n.k == 'CXXMemberCallExpr' and n.short == 'add' and n.obj() is not None and 'VectorBase' in (n.obj().t or ''):
                a = n.args()
                if len(a) == 2 and render(strip(a[0])) == iv:
                    kind = 'add(%s, value): one entry per basis position' % iv
                elif len(a) == 2:
                    kind = None
                    k += 1
                    rep.bad('R05.6', '%s|contribution#%d' % (f.short, k), '%s:%d' % (f.file, n.l), '%s writes position %s, which is not the loop variable %s: positions may repeat and entries are not merged' % (render(n)[:50], render(a[0]), iv))
                    continue
                else:
                    k += 1        # bulk append: reported by the scan above
                    continue
            elif n.k == 'BinaryOperator' and n.o == '=' and n.kids[0].k in ('ArraySubscriptExpr', 'CXXOperatorCallExpr') and not render(n.kids[0]).startswith(('bind', 'index')) and n.kids[0].t in ('double', 'R'):
                k += 1
                rep.bad('R05.6', '%s|contribution#%d' % (f.short, k), '%s:%d' % (f.file, n.l), '%s overwrites an entry of the result inside the loop over basis columns instead of adding to it' % render(n)[:50])
                continue
            if kind:
                k += 1
                rep.ok('R05.6', '%s|contribution#%d' % (f.short, k), '%s:%d' % (f.file, n.l), '%s (%s)' % (render(n)[:50], kind))
        if k < 3:
            raise AnalysisBroken('%s: only %d contributions found in the loop over the complementary column basis' % (f.short, k))

    # ------------------------------------------------------------------ R05.7
    # the unscaled and the scaled variant of one contribution are alternatives: an `if(unscale && ..)` without else must not be
    # followed by the same operation on the same target (both would be applied)
    rep.rule('R05.7', 'scaled and unscaled variants of one operation are exclusive: no if(unscale ..) without else followed by the same call on the same target', floor=10)
    n_if = 0
    for f in fs:
        for n in f.nodes:
            if n.k != 'IfStmt' or 'unscale' not in render(n.kid('cond')):
                continue
            n_if += 1
            key = '%s|if(%s)@%d' % (f.short, render(n.kid('cond'))[:30], n_if)
            if n.kid('else') is not None:
                rep.ok('R05.7', key, '%s:%d' % (f.file, n.l), 'if / else')
                continue
            par = n.parent
            sibs = par.kids if par is not None else []
            nxt = None
            for j, x in enumerate(sibs):
                if x.i == n.i and j + 1 < len(sibs):
                    nxt = sibs[j + 1]
            thencalls = set((x.short, render(x.obj())) for x in n.kid('then').walk() if x.k == 'CXXMemberCallExpr' and x.obj() is not None)
            dup = None
            if nxt is not None:
                top = strip(nxt)
                while top is not None and top.k in ('ExprWithCleanups',) and top.kids:
                    top = strip(top.kids[0])
                if top is not None and top.k == 'CXXMemberCallExpr' and top.obj() is not None and (top.short, render(top.obj())) in thencalls and top.short in ('add', 'multAdd'):
                    dup = top
            rep.check(dup is None, 'R05.7', key, '%s:%d' % (f.file, n.l), 'no else needed: the following statement does not repeat the operation',
                      'the branch under (%s) and the unconditional statement after it both apply %s to %s: with unscale the contribution is counted twice' % (render(n.kid('cond'))[:40], dup.short if dup else '', render(dup.obj()) if dup else ''))
    if n_if < 10:
        raise AnalysisBroken('only %d if(unscale..) statements found in the basis queries' % n_if)

    # ------------------------------------------------------------------ R05.8
    # index domain of an exponent lookup: a row exponent is looked up at a row index, a column exponent at a column index.  The
    # provenance of the index expression decides: a loop variable is judged by its bound (numRows-like / numCols-like); number(id)
    # and decoded basis indices are judged by R05.3; the position parameter c of getBasisInverseColReal is a row index by contract
    rep.rule('R05.8', 'a row exponent is looked up at an index whose domain is the rows, a column exponent at one whose domain is the columns', floor=20)

    def bound_space(f, e, depth=0):
        """'row' / 'col' / None for a loop bound expression"""
        e = strip(e)
        if e is None or depth > 3:
            return None
        t = render(e)
        if re.search(r'\bnumRows(Real)?\(\)|\bnRows\(\)', t):
            return 'row'
        if re.search(r'\bnumCols(Real)?\(\)|\bnCols\(\)', t):
            return 'col'
        if e.k == 'DeclRefExpr' and e.dk == 'local':
            d = nearest_def(f, e.n, e)
            return bound_space(f, d, depth + 1) if d is not None else None
        if e.k == 'CXXMemberCallExpr' and e.short in ('dim', 'size') and e.obj() is not None:
            o = strip(e.obj())
            if o.k == 'DeclRefExpr':
                for x in f.nodes:
                    if x.k == 'VarDecl' and x.u == o.u:
                        return bound_space(f, x.kids[0].args()[0] if x.c and x.kids[0].k == 'CXXConstructExpr' and x.kids[0].args() else None, depth + 1)
        return None

    def loop_space(f, var_u, at):
        for a in f.ancestors(at):
            if a.k == 'ForStmt' and a.kid('init') is not None and any(x.k == 'VarDecl' and x.u == var_u for x in a.kid('init').walk()):
                c = strip(a.kid('cond'))
                if c is not None and c.k == 'BinaryOperator' and c.o in ('<', '!='):
                    return bound_space(f, c.kids[1]), render(c)
        return None, None

    def index_space(f, a, at, depth=0):
        """(space, how) of an index expression; space None = left to R05.3 / unknown"""
        a = strip(a)
        t = render(a)
        if a.k == 'DeclRefExpr' and a.dk == 'parm':
            return 'param', 'position parameter %s' % t
        if a.k == 'DeclRefExpr' and a.dk == 'local':
            sp, c = loop_space(f, a.u, at)
            if c is not None:
                return sp, 'loop variable bounded by %s' % c
            d = nearest_def(f, a.n, at)
            if d is not None and depth < 3:
                return index_space(f, d, d, depth + 1)
            return None, 'no definition found'
        if re.match(r'^_solver\.number\(', t):
            return 'by-id', 'number(id): decided by the governing id-kind test (R05.3)'
        if re.match(r'^\(?-\w+ - 1\)?$', t):
            return 'by-id', 'decoded negative basis index (R05.3)'
        if a.k == 'CXXMemberCallExpr' and a.short == 'index' and a.obj() is not None:
            o = strip(a.obj())
            for x in f.nodes:
                if x.k == 'VarDecl' and o.k == 'DeclRefExpr' and x.u == o.u and x.c and x.kids[0].k == 'CXXConstructExpr' and x.kids[0].args():
                    return bound_space(f, x.kids[0].args()[0]), 'index of a nonzero of %s, which has dimension %s' % (render(o), render(x.kids[0].args()[0]))
        if a.k == 'ArraySubscriptExpr' and render(a).startswith('bind['):
            return 'by-id', 'basis index (R05.3)'
        return None, 'unrecognised index expression %s' % t[:40]
    for f in fs:
        ordn = 0
        for n in exp_sites(f):
            ordn += 1
            want = 'row' if n.short == 'getRowScaleExp' else 'col'
            sp, how = index_space(f, n.args()[0], n)
            key = '%s|%s#%d(%s)' % (f.short, n.short, ordn, render(n.args()[0])[:30])
            wh = '%s:%d' % (f.file, n.l)
            if sp == 'by-id':
                rep.ok('R05.8', key, wh, how, nontrivial=False)
            elif sp == 'param':
                rep.check(want == 'row' and f.short == 'getBasisInverseColReal', 'R05.8', key, wh, how + ': the c-th column of the inverse belongs to row c',
                          '%s is looked up at the %s, which is a position in the basis, not a %s index' % (n.short, how, want))
            elif sp is None:
                rep.unrec('R05.8', key, wh, how)
            else:
                rep.check(sp == want, 'R05.8', key, wh, how, '%s is looked up at a %s whose domain is the %ss: the index is not a %s index (out of range or the wrong factor whenever the two counts differ)' % (n.short, how, sp, want))

    # ------------------------------------------------------------------ R05.10
    # the dense result array of a query (coef) is addressed by row numbers / loop indices over the basis; the query's own argument (the
    # position r or c that was asked for) is never an address in the result
    rep.rule('R05.10', 'the dense result array of a basis query is never subscripted by the query\'s own position argument', floor=8)
    k10 = 0
    for f in fs:
        outs = set(pn for pn, pt in f.params if pt.endswith('*') and not pt.startswith('const ') and pt.replace(' ', '') in ('double*',))
        posp = set(pn for pn, pt in f.params if pt == 'int')
        for n in f.nodes:
            if n.k != 'ArraySubscriptExpr':
                continue
            b, ix = strip(n.kids[0]), strip(n.kids[1])
            if b.k == 'DeclRefExpr' and b.dk == 'parm' and b.n in outs:
                k10 += 1
                bad = ix.k == 'DeclRefExpr' and ix.dk == 'parm' and ix.n in posp
                rep.check(not bad, 'R05.10', '%s|%s[%s]#%d' % (f.short, b.n, render(ix)[:20], k10), '%s:%d' % (f.file, n.l), 'index %s' % render(ix)[:30],
                          '%s[%s]: %s is the position that was asked for, not an address in the result vector (rows are addressed by their number, which differs from the basis position in general)'
                          % (b.n, ix.n, ix.n))
    if k10 < 8:
        raise AnalysisBroken('R05.10: only %d subscripts of the result arrays found' % k10)

    # ------------------------------------------------------------------ R05.11
    # the ids of the basic variables (_solver.basis().baseId(i)) are valid only while the basis matrix is set up; after an in-place modification
    # of the LP they are rebuilt - in another order - by the next solve with the basis.  Every read of baseId in SoPlexBase is therefore either
    # preceded on every path by a call that sets the matrix up (solve, coSolve, multBaseWith, multWithBase, factorize on the basis) or guarded by
    # isMatrixSetup().  (F70: getBasisInd read the stale ids.)
    rep.rule('R05.11', 'every read of the basis ids is preceded by a solve / multiply with the basis (which sets the matrix up) or guarded by isMatrixSetup()', floor=12)
    SETUP = ('solve', 'coSolve', 'multBaseWith', 'multWithBase', 'factorize', 'solve4update', 'solveRight', 'solveLeft', 'setupMatrix')

    def sets_up(n):
        return n.k == 'CXXMemberCallExpr' and n.short in SETUP and n.obj() is not None and 'basis()' in render(n.obj())
    k11 = 0
    for f in sorted(fb.funcs.values(), key=lambda g: (g.file, g.line)):
        if not f.name.startswith(C + '::') or not f.file.endswith('/soplex.hpp') or not f.nodes:
            continue
        reads = [n for n in f.nodes if n.k == 'CXXMemberCallExpr' and n.short == 'baseId' and n.obj() is not None and 'basis()' in render(n.obj()) and not f.in_assert(n)]
        if not reads:
            continue
        g = Graph(f)
        for n in reads:
            k11 += 1
            key = '%s|baseId(%s)#%d' % (f.short, render(n.args()[0])[:20] if n.args() else '', k11)
            wh = '%s:%d' % (f.file, n.l)
            guarded = any(a.k == 'IfStmt' and 'isMatrixSetup()' in render(a.kid('cond')) and not render(a.kid('cond')).strip('()').startswith('!')
                          and a.kid('then') is not None and any(x.i == n.i for x in a.kid('then').walk()) for a in f.ancestors(n))
            if guarded:
                rep.ok('R05.11', key, wh, 'inside if(isMatrixSetup())')
                continue
            try:
                tb = g.block_of(n)
                ok, path = g.must_pass(sets_up, to=tb)
            except Exception as e:
                rep.unrec('R05.11', key, wh, 'cannot place the read in the CFG (%s)' % e)
                continue
            rep.check(ok, 'R05.11', key, wh, 'a solve / multiply with the basis precedes the read on every path',
                      'the basis ids are read on a path on which nothing has set the basis matrix up: after removeRow / addRow / removeCol / addCol on the loaded LP they are stale, and the '
                      'next basis query rebuilds them in another order (rows first, then columns)')
    if k11 < 12:
        raise AnalysisBroken('R05.11: only %d reads of baseId found in SoPlexBase' % k11)

    # ------------------------------------------------------------------ R05.9
    # homogeneity: with a scaled LP the internal row / column vectors live in the scaled space; a sum or difference of such a product
    # and a raw element of a caller-supplied vector is only meaningful when no scaling is being undone (the element must be scaled first)
    rep.rule('R05.9', 'no sum/difference of a raw caller-supplied value and a product with an internal (scaled) LP vector is reachable while scaling is being undone', floor=2)
    scaled = Assume(atoms={'unscale': True, '_solver.isScaled()': True, '_realLP->isScaled()': True, 'adaptScaling': True})
    n9 = 0
    for f in fs:
        ptr_params = set(pn for pn, pt in f.params if pt.endswith('*'))
        user_vecs = set(ptr_params)
        for x in f.nodes:
            if x.k == 'VarDecl' and x.c and x.kids[0].k == 'CXXConstructExpr' and len(x.kids[0].args()) == 2 and render(strip(x.kids[0].args()[1])) in ptr_params:
                user_vecs.add(x.n)
        g = None
        for n in f.nodes:
            if n.k != 'BinaryOperator' or n.o not in ('+', '-') or f.in_assert(n):
                continue
            sides = [strip(n.kids[0]), strip(n.kids[1])]
            internal = [s_ for s_ in sides if any(x.is_call() and x.short in ('rowVectorRealInternal', 'rowVector', 'colVector', 'colVectorRealInternal') for x in s_.walk())]
            if not internal:
                continue
            other = [s_ for s_ in sides if s_ is not internal[0]][0]
            raw = other.k in ('ArraySubscriptExpr', 'CXXOperatorCallExpr') and render(strip(other.kids[0] if other.k == 'ArraySubscriptExpr' else other.args()[0])) in user_vecs
            n9 += 1
            key = '%s|%s' % (f.short, render(n)[:50])
            wh = '%s:%d' % (f.file, n.l)
            if not raw:
                rep.ok('R05.9', key, wh, 'the caller-supplied operand is scaled first (%s)' % render(other)[:40])
                continue
            if g is None:
                g = Graph(f, scaled)
            b = g.block_of(n)
            reach = b is not None and b in g.reach(g.entry)
            rep.check(not reach, 'R05.9', key, wh, 'only reachable when no scaling is undone',
                      '%s combines the raw caller value %s with a product of an internal LP vector, and is reachable with unscale && isScaled(): the two operands live in different spaces (the value must be multiplied by 2^rowexp first)' % (render(n)[:60], render(other)[:20]))
    if n9 < 1:
        raise AnalysisBroken('R05.9: only %d sums of a value and an internal-vector product found' % n9)


def nearest_def(f, name, at):
    best = None
    for n in f.nodes:
        if (n.l, n.i) >= (at.l, at.i):
            continue
        if n.k == 'VarDecl' and n.n == name and n.c:
            if best is None or (n.l, n.i) > (best[0].l, best[0].i):
                best = (n, n.kids[0])
        if n.k == 'BinaryOperator' and n.o == '=' and render(n.kids[0]) == name:
            if best is None or (n.l, n.i) > (best[0].l, best[0].i):
                best = (n, n.kids[1])
    return best[1] if best else None
