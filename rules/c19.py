"""C19 — containers and sparse vectors (two ownership clauses only)."""
import re
from engine import render, strip, Graph, must
from facts import AnalysisBroken, CALL_KINDS
import modifiers as M

EXPLANATION = (
    "Only two ownership clauses of C19 are decided: R19.1 rule of three - every container / vector class of the anchor list that "
    "releases a raw-pointer member in its destructor (directly or through a member function the destructor calls) has user-provided or "
    "deleted copy construction and copy assignment, and a user-provided copy operation never copies that pointer verbatim from its "
    "source; R19.2 re-base after reallocation - the arena reallocators return the address shift; at every call site the shift flows into "
    "the re-basing code (list.move(delta), setMem(.., mem + delta)), or the discard is justified structurally: the caller is the arena's "
    "own class, rebuilds the contents afterwards (operator=), clears every dependent container in the same function (clear()), or keeps "
    "offsets instead of pointers (NameSet); R19.3 removal by permutation in LPRowSetBase / LPColSetBase moves the parallel arrays for all old indices (the loop "
    "bound is the count before the removal); R19.4 no do-while loop is controlled by a countdown that can be zero at entry (positive control); "
    "R19.5 remove(nums, n) is never implemented by removing one (renumbering) element at a time; R19.6 in SVSetBase the amount inserted in "
    "place after ensureMem(E) is bounded by E; R19.7 no loop condition pre-decrements its counter and no counting loop is bounded by a "
    "local that is still 0 (positive controls); R19.8 add / append members never clear the receiver. The abstract-data-type behaviour itself - key stability, dense numbering, permutation "
    "results, hash-table deletion, vector arithmetic, sorting - is NOT decided: it quantifies over operation sequences and run-time "
    "contents; the two seeded changes for C19 (hash-table slot marking, insertion sort bound) are of that kind and are not caught.")

ANCHORS = re.compile(r'^soplex::(DataSet|ClassSet|SVSetBase|LPRowSetBase|LPColSetBase|IdxSet|DIdxSet|NameSet|DataHashTable|DataArray|ClassArray|Array|IdList|IsList|SVectorBase|DSVectorBase|SSVectorBase|VectorBase|UnitVectorBase)\b')


def released_fields(fb, cls):
    """pointer members that the destructor releases (delete / spx_free), directly or through own methods it calls"""
    out = set()
    ds = [f for f in fb.methods_of(cls) if f.mk == 'dtor']
    seen = set()
    work = list(ds)
    depth = {f.u: 0 for f in work}
    while work:
        f = work.pop()
        if f.u in seen:
            continue
        seen.add(f.u)
        for n in f.nodes:
            if n.k == 'CXXDeleteExpr' or (n.k == 'CallExpr' and n.short == 'spx_free'):
                for x in n.walk():
                    if x.k == 'MemberExpr' and x.dk == 'field' and (x.obj() is None or x.obj().k == 'CXXThisExpr'):
                        out.add(x.short)
            if n.k == 'CXXMemberCallExpr' and n.obj() is not None and n.obj().k == 'CXXThisExpr' and depth[f.u] < 2:
                g = fb.funcs.get(n.u)
                if g is not None and g.cls == cls and g.u not in seen:
                    depth[g.u] = depth[f.u] + 1
                    work.append(g)
    return out


def run(fb, rep, tier):
    rep.extra['explanation'] = EXPLANATION
    rep.rule('R19.1', 'classes that release a raw-pointer member in their destructor have user-provided / deleted copy operations that do not copy the pointer verbatim', floor=10)
    n_own = 0
    for name, c in sorted(fb.classes.items()):
        if not ANCHORS.match(name) or '::' in name[len('soplex::'):].split('<')[0]:
            continue
        ptrs = [f for f in c['fields'] if f['tk'] == 'ptr']
        if not ptrs:
            continue
        rel = released_fields(fb, name) & set(f['n'] for f in ptrs)
        short = name.replace('soplex::', '')
        if not rel:
            rep.ok('R19.1', short + '|no-owned-pointer', c['file'], 'pointer members %s are not released by the destructor (non-owning)' % [f['n'] for f in ptrs], nontrivial=False)
            continue
        n_own += 1
        for op, state in (('copy constructor', c['copyctor']), ('copy assignment', c['copyassign'])):
            mk = 'copyctor' if op == 'copy constructor' else 'copyassign'
            deleted = any(m['mk'] == mk and m.get('deleted') for m in c['methods'])
            userprov = any(m['mk'] == mk and m.get('userprov') for m in c['methods'])
            rep.check(deleted or userprov, 'R19.1', '%s|%s' % (short, op.replace(' ', '-')), c['file'], 'user-provided' if userprov else 'deleted',
                      '%s owns %s (released by its destructor) but its %s is %s: a copy shares the memory and both objects release it' % (short, sorted(rel), op, state))
            for f in [g for g in fb.methods_of(name) if g.mk == mk and not g.implicit]:
                rhs = f.params[0][0] if f.params else 'rhs'
                verb = []
                for n in f.nodes:
                    if n.k == 'BinaryOperator' and n.o == '=':
                        l = strip(n.kids[0])
                        if l.k == 'MemberExpr' and l.short in rel and render(n.kids[1]) in ('%s.%s' % (rhs, l.short), '%s->%s' % (rhs, l.short)):
                            verb.append(n)
                for fld, e, w in f.inits:
                    if fld.split('::')[-1] in rel and e is not None and render(e) in ('%s.%s' % (rhs, fld.split('::')[-1]),):
                        verb.append(e)
                rep.check(not verb, 'R19.1', '%s|%s|no-verbatim-pointer' % (short, op.replace(' ', '-')), f.where(), 'owned pointers are not copied verbatim',
                          'the %s copies the owning pointer %s verbatim from its source' % (op, render(verb[0])[:50] if verb else ''))
    if n_own < 5:
        raise AnalysisBroken('only %d owning container classes found' % n_own)

    # ------------------------------------------------------------------ R19.2
    rep.rule('R19.2', 'the address shift returned by an arena reallocator is used to re-base interior pointers, or its discard is structurally justified', floor=8)
    shifters = set(f.u for f in fb.funcs.values() if f.short == 'reMax' and f.ret in ('long', 'ptrdiff_t', 'std::ptrdiff_t') and f.name.startswith('soplex::'))
    if len(shifters) < 3:
        raise AnalysisBroken('arena reallocators returning the address shift not found')
    sites = 0
    for f in sorted(fb.funcs.values(), key=lambda f: (f.file, f.line)):
        for c in f.calls():
            if c.u not in shifters:
                continue
            sites += 1
            p = c.parent
            while p is not None and p.k in ('ImplicitCastExpr', 'ParenExpr'):
                p = p.parent
            key = '%s|%s' % (re.sub(r'soplex::', '', f.name)[:70], render(c)[:40])
            wh = '%s:%d' % (f.file, c.l)
            consumed = p is not None and (p.k == 'VarDecl' or p.is_call() or (p.k == 'BinaryOperator' and p.o == '=') or p.k == 'ReturnStmt')
            if consumed:
                # a local that receives the shift must reach the re-basing code
                if p.k == 'VarDecl':
                    uses = [x for x in f.nodes if x.k == 'DeclRefExpr' and x.u == p.u and x.i != p.i]
                    reb = [x for x in uses if any(a.is_call() and a.short in ('setMem', 'move') for a in f.ancestors(x)) or any(a.k == 'BinaryOperator' and a.o in ('+', '+=') for a in f.ancestors(x))]
                    rep.check(bool(reb), 'R19.2', key, wh, 'the shift %s reaches the re-basing code' % p.n, 'the shift is stored in %s but never applied to the interior pointers (setMem / move): they keep pointing into the released block' % p.n)
                else:
                    rep.ok('R19.2', key, wh, 'the shift is passed on (%s)' % render(p)[:50])
                continue
            # discarded: structural justifications
            own_cls = (f.cls or '').split('<')[0]
            callee_cls = (c.n or '').rsplit('::', 1)[0].split('<')[0]
            why = None
            if own_cls == callee_cls:
                why = 'call inside the arena\'s own class'
            elif f.mk == 'copyassign':
                why = 'contents are rebuilt from the right-hand side afterwards'
            elif f.short == 'clear' and all(any(x.k == 'CXXMemberCallExpr' and x.short == 'clear' and x.obj() is not None and render(x.obj()) == m for x in f.nodes) for m in ('set', 'list')):
                why = 'set and list are cleared in the same function'
            elif f.cls == 'soplex::NameSet' and 'DataSet<int>' in (c.n or ''):
                why = 'NameSet keeps offsets into its name memory, not pointers into the key set'
            rep.check(why is not None, 'R19.2', key, wh, 'discard justified: %s' % why,
                      'the address shift returned by %s is discarded in %s, which keeps interior pointers into that arena: after a reallocation they dangle' % (render(c)[:40], f.short))
    if sites < 8:
        raise AnalysisBroken('only %d call sites of arena reallocators found' % sites)


    # ------------------------------------------------------------------ R19.3
    # removal by permutation in the sets that keep parallel arrays next to the vectors (LPRowSetBase: sides, objective, exponents;
    # LPColSetBase: bounds, objective, exponents): the loop that moves the array entries along perm[] must run over the element count
    # BEFORE the vectors were removed - survivors come from old indices up to that count
    rep.rule('R19.3', 'parallel arrays are moved along the permutation for all old indices: the loop bound is num() taken before the base-class removal', floor=4)
    k3 = 0
    for cls in ('soplex::LPRowSetBase<double>', 'soplex::LPColSetBase<double>'):
        for f in fb.methods_of(cls):
            if f.short != 'remove' or not f.nodes:
                continue
            base = [n for n in f.nodes if n.k == 'CXXMemberCallExpr' and n.short == 'remove' and 'SVSetBase' in (n.n or '')]
            loops = [n for n in f.nodes if n.k == 'ForStmt' and n.kid('body') is not None and any(x.k in ('BinaryOperator', 'CXXOperatorCallExpr') and x.o == '=' and 'perm[' in render(x)[:40] for x in n.kid('body').walk())]
            if not base or not loops:
                continue
            k3 += 1
            lp = loops[0]
            c = strip(lp.kid('cond'))
            bound = strip(c.kids[1]) if c is not None and c.k == 'BinaryOperator' and c.o in ('<', '!=') else None
            key = '%s::remove(%s)' % (cls.replace('soplex::', '').replace('<double>', ''), ','.join(t for _, t in f.params))
            wh = '%s:%d' % (f.file, lp.l)
            ok = False
            why = 'loop bound not understood'
            if bound is not None and bound.k == 'DeclRefExpr' and bound.dk == 'local':
                defs = [n for n in f.nodes if (n.k == 'VarDecl' and n.u == bound.u and n.c and 'num()' in render(n.kids[0])) or (n.k == 'BinaryOperator' and n.o == '=' and render(n.kids[0]) == bound.n and 'num()' in render(n.kids[1]))]
                if defs:
                    ok = all(d.i < base[0].i and d.l <= base[0].l for d in defs)
                    why = '%s = num() is evaluated after %s' % (bound.n, render(base[0])[:40])
            elif bound is not None and 'num()' in render(bound):
                ok = False
                why = 'the bound num() is evaluated after the removal'
            rep.check(ok, 'R19.3', key, wh, 'the bound is the count before the removal', '%s: survivors with an old index at or above the new count (those moved into the holes) keep their vector but not their sides / bounds / objective / exponent' % why)
    if k3 < 4:
        raise AnalysisBroken('R19.3: only %d permutation removals with parallel arrays found' % k3)


    # ------------------------------------------------------------------ R19.4
    # a do-while whose condition is a countdown (while(--c) / while(c > 0) with c decremented in the body) executes its body once even
    # when there is nothing to do; with a count of zero the body then works with the index -1 (or wraps around).  Required: the count is
    # positive at entry by a dominating test, or the loop is a while loop.  Expected count on the library: 0; positive control.
    rep.rule('R19.4', 'no do-while loop is controlled by a countdown that can be zero at entry (the body would run once with count -1)', floor=2)
    ctl4 = 0
    n_do = 0
    for f in fb.funcs.values():
        isctl = f.name.startswith('verif_ctl::')
        if not (f.name.startswith('soplex::') or isctl):
            continue
        for n in f.nodes:
            if n.k != 'DoStmt':
                continue
            n_do += 1
            c = strip(n.kid('cond'))
            var = None
            if c is not None and c.k == 'UnaryOperator' and c.o in ('--', 'pre--', 'post--') and c.c:
                var = render(strip(c.kids[0]))
            elif c is not None and c.k == 'BinaryOperator' and c.o in ('>', '!=') and render(strip(c.kids[1])) == '0':
                v = render(strip(c.kids[0]))
                body = n.kid('body')
                if body is not None and any(x.k == 'UnaryOperator' and x.o in ('--', 'pre--', 'post--') and x.c and render(strip(x.kids[0])) == v for x in body.walk()):
                    var = v
            if var is None:
                continue
            guarded = any(a.k in ('IfStmt', 'WhileStmt') and re.search(r'\b%s\b (>|!=) 0|\b%s\b >= 1' % (re.escape(var), re.escape(var)), render(a.kid('cond'))) for a in f.ancestors(n))
            if isctl:
                ctl4 += 0 if guarded else 1
                continue
            rep.check(guarded, 'R19.4', '%s|do-while(%s)' % (f.name.replace('soplex::', '')[:60], render(c)[:20]), '%s:%d' % (f.file, n.l), 'count tested before the loop',
                      'the do-while loop counts %s down and is entered without a test that it is positive: with a count of zero the body runs once with %s == -1 (an element before the range is overwritten, or the counter wraps around)' % (var, var))
    if ctl4 < 1:
        raise AnalysisBroken('R19.4 positive control (units/controls.cpp countdown_do_while) did not fire')
    rep.ok('R19.4', 'control|countdown_do_while', 'units/controls.cpp', 'positive control fires', nontrivial=False)
    rep.ok('R19.4', 'scan|do-while loops', 'src', '%d do-while loops scanned' % n_do, nontrivial=False)
    if n_do < 15:
        raise AnalysisBroken('R19.4: only %d do-while loops found' % n_do)

    # ------------------------------------------------------------------ R19.5
    # removal of several elements given by number: the numbers refer to the numbering before the call, and every single removal
    # renumbers (the last element moves into the hole) - so the list version must not call the single-number remove in a loop
    rep.rule('R19.5', 'remove(nums, n) never removes the elements one by one with the renumbering single-element remove', floor=5)
    k5 = 0
    for f in sorted(fb.funcs.values(), key=lambda g: g.name):
        if f.short != 'remove' or not f.name.startswith('soplex::') or not f.nodes or len(f.params) < 2:
            continue
        if not (f.params[0][1].replace('const ', '').strip() in ('int *', 'int []') and f.params[1][1] == 'int'):
            continue
        if 'DataKey' in f.params[0][1]:
            continue
        k5 += 1
        arr = f.params[0][0]
        seq = []
        for n in f.nodes:
            if n.is_call() and n.short == 'remove' and len(n.args()) == 1 and re.match(r'^%s\[' % re.escape(arr), render(strip(n.args()[0]))) and any(a.k in ('ForStmt', 'WhileStmt', 'DoStmt') for a in f.ancestors(n)):
                seq.append(n)
        rep.check(not seq, 'R19.5', '%s(%s)' % (f.name.replace('soplex::', '')[:60], ','.join(t for _, t in f.params)), f.where(), 'removal through a permutation / status array',
                  '%s removes %s[i] one at a time: after the first removal the remaining numbers refer to a different numbering (wrong elements are removed)' % (f.short, arr))
    if k5 < 5:
        raise AnalysisBroken('R19.5: only %d remove(nums, n) overloads found' % k5)

    # ------------------------------------------------------------------ R19.6
    # SVSetBase grows its arena "in place" (insert / reSize under the belief that the data pointer does not move) after ensureMem(E):
    # the amount A consumed must be bounded by E.  ensureMem may pack the memory, which lowers every vector's max() to its size(), so an
    # amount that reads max() after the call is only bounded by an E computed from the size.
    rep.rule('R19.6', 'SVSetBase: the amount inserted in place after ensureMem(E) is bounded by E (equal and free of vector state, or X - max() against X - size)', floor=3)
    k6 = 0
    for f in sorted(fb.methods_of('soplex::SVSetBase<double>'), key=lambda g: (g.name, g.line)):
        if not f.nodes:
            continue
        ens = [n for n in f.nodes if n.k == 'CXXMemberCallExpr' and n.short == 'ensureMem' and n.args()]
        uses = []
        for n in f.nodes:
            if n.k == 'CXXMemberCallExpr' and n.short == 'insert' and len(n.args()) == 2 and render(strip(n.args()[0])) == 'memSize()':
                uses.append((n, strip(n.args()[1])))
            if n.k == 'CXXMemberCallExpr' and n.short == 'reSize' and len(n.args()) == 1 and render(strip(n.args()[0])).startswith('(memSize() + '):
                uses.append((n, strip(strip(n.args()[0]).kids[1])))
        seen_amt = set()
        for n, amt in uses:
            prev = [e for e in ens if e.i < n.i]
            at = render(amt)
            if (f.u, at) in seen_amt:
                continue           # the #ifndef NDEBUG twin of the same statement
            seen_amt.add((f.u, at))
            k6 += 1
            key = '%s|in-place growth by %s' % (f.short, at[:30])
            wh = '%s:%d' % (f.file, n.l)
            if not prev:
                rep.bad('R19.6', key, wh, 'the arena grows in place by %s without a preceding ensureMem' % at)
                continue
            # nearest preceding ensureMem whose branch contains the use
            e = prev[-1]
            et = render(strip(e.args()[0]))
            ok = False
            why = ''
            if et == at and 'max()' not in at and 'size()' not in at:
                ok = True
                why = 'same amount %s, free of vector state' % at
            else:
                m1 = re.match(r'^\((\w+) - (\w+)\)$', et)
                m2 = re.match(r'^\((\w+) - (\w+)->max\(\)\)$', at)
                if m1 and m2 and m1.group(1) == m2.group(1):
                    s_ = m1.group(2)
                    init = [x for x in f.nodes if x.k == 'VarDecl' and x.n == s_ and x.c and render(strip(x.kids[0])) == '%s->size()' % m2.group(2)]
                    if init:
                        ok = True
                        why = 'reserved %s, consumed %s with %s = %s->size() <= max()' % (et, at, s_, m2.group(2))
            rep.check(ok, 'R19.6', key, wh, why, 'ensureMem(%s) is followed by an in-place growth by %s, which is evaluated after ensureMem may have packed the memory (max() drops to size()): more is inserted than was reserved, the arena reallocates and every vector keeps pointing into the released block' % (et, at))
    if k6 < 3:
        raise AnalysisBroken('R19.6: only %d in-place growth sites found in SVSetBase' % k6)


    # ------------------------------------------------------------------ R19.7
    # two loop shapes that silently skip work: (a) a for/while condition that is a PRE-decrement of its counter (`--n`) never handles the
    # element 0 and underflows when the count is zero (the idiom of the code base is the post-decrement `n--`); (b) a counting loop
    # `i < v` whose bound v is a local that is still the literal 0 when the loop starts never executes.  Expected count: 0; controls.
    rep.rule('R19.7', 'no loop condition pre-decrements its counter, no counting loop is bounded by a local that is still 0', floor=3)
    ctl7 = set()
    n_loops = 0
    for f in fb.funcs.values():
        isctl = f.name.startswith('verif_ctl::')
        if not (f.name.startswith('soplex::') or isctl):
            continue
        for n in f.nodes:
            if n.k not in ('ForStmt', 'WhileStmt') or n.kid('cond') is None:
                continue
            n_loops += 1
            c = strip(n.kid('cond'))
            if c.k == 'UnaryOperator' and c.o in ('--', 'pre--') and c.c:
                if isctl:
                    ctl7.add('predec')
                else:
                    rep.bad('R19.7', '%s|loop(--%s)' % (f.name.replace('soplex::', '')[:60], render(strip(c.kids[0]))), '%s:%d' % (f.file, n.l), 'the loop condition pre-decrements %s: the body never runs for the value 0 (the first / last element is skipped) and a count of zero underflows' % render(strip(c.kids[0])))
            if n.k == 'ForStmt' and c.k == 'BinaryOperator' and c.o == '<' and strip(c.kids[1]).k == 'DeclRefExpr' and strip(c.kids[1]).dk == 'local':
                v = strip(c.kids[1])
                d = [x for x in f.nodes if x.k == 'VarDecl' and x.u == v.u]
                if d and d[0].c and render(d[0].kids[0]) == '0':
                    inside = set(y.i for y in n.walk())
                    w = [x for x in f.nodes if d[0].i < x.i < n.i and x.i not in inside and ((x.k in ('BinaryOperator', 'CompoundAssignOperator') and x.o in ('=', '+=', '-=') and render(x.kids[0]) == v.n)
                                                                         or (x.k == 'UnaryOperator' and x.c and render(x.kids[0]) == v.n and x.o in ('++', 'post++', 'pre++', '&')))]
                    if not w:
                        if isctl:
                            ctl7.add('zero')
                        else:
                            rep.bad('R19.7', '%s|loop(i < %s)' % (f.name.replace('soplex::', '')[:60], v.n), '%s:%d' % (f.file, n.l), 'the loop is bounded by %s, which is 0 when the loop starts (it is only changed inside the loop): the body never executes' % v.n)
    # (the third shape - a descending loop that stops before 0 - is the generic shape rule S4, reported under the property that owns the function)
    if ctl7 != {'predec', 'zero'}:
        raise AnalysisBroken('R19.7 positive controls did not fire (%s)' % sorted(ctl7))
    rep.ok('R19.7', 'control|predecrement_condition', 'units/controls.cpp', 'positive control fires', nontrivial=False)
    rep.ok('R19.7', 'control|zero_bound_loop', 'units/controls.cpp', 'positive control fires', nontrivial=False)
    rep.ok('R19.7', 'scan|for/while loops', 'src', '%d loops scanned' % n_loops, nontrivial=False)

    # ------------------------------------------------------------------ R19.8
    # a member function named add / append extends the container: it does not clear the receiver (that is what operator= / assign do)
    rep.rule('R19.8', 'add / append members of the container classes never clear the receiver', floor=30)
    k8 = 0
    ctl8 = 0
    for f in fb.funcs.values():
        isctl = f.name.startswith('verif_ctl::')
        if f.short not in ('add', 'append', 'add2', 'addIdx') or not f.nodes or not f.cls:
            continue
        if not isctl and not ANCHORS.match(f.cls):
            continue
        clears = [n for n in f.nodes if n.k == 'CXXMemberCallExpr' and n.short == 'clear' and (n.obj() is None or n.obj().k == 'CXXThisExpr' or render(n.obj()) in ('this', '(*this)'))]
        if isctl:
            ctl8 += 1 if clears else 0
            continue
        k8 += 1
        rep.check(not clears, 'R19.8', '%s(%s)' % (f.name.replace('soplex::', '')[:70], ','.join(t for _, t in f.params)[:40]), f.where(), 'does not clear',
                  '%s is an append operation but calls clear() on its own object first: what was stored before is lost' % f.short)
    if ctl8 < 1:
        raise AnalysisBroken('R19.8 positive control (AppendCtl::add) did not fire')
    if k8 < 30:
        raise AnalysisBroken('R19.8: only %d add/append members found' % k8)


    # ------------------------------------------------------------------ R19.9
    # the arithmetic member operators of the vector classes (operator+=, -=, *=, /=) update their elements with the operator they are named after,
    # or delegate to the element type's operator of the same name; operator-= may also add the negated argument.  Positive control.
    rep.rule('R19.9', 'operator+= / -= / *= / /= of the vector classes update their elements with that same operator', floor=12)
    k9 = 0
    ctl9 = 0
    for f in sorted(fb.funcs.values(), key=lambda g: (g.file, g.line, g.name)):
        isctl = f.name.startswith('verif_ctl::')
        m = re.search(r'operator([-+*/])=$', f.short or '')
        if not m or not f.nodes or not f.cls or not (isctl or f.name.startswith('soplex::')):
            continue
        want = m.group(1) + '='
        upd = []
        for n in f.nodes:
            if n.k == 'CompoundAssignOperator' and n.o in ('+=', '-=', '*=', '/='):
                upd.append((n, n.o, False))
            elif n.is_call() and n.short and re.search(r'^operator[-+*/]=$', n.short) and n.k == 'CXXOperatorCallExpr':
                a = n.args()
                neg = len(a) >= 2 and strip(a[-1]).k in ('UnaryOperator', 'CXXOperatorCallExpr') and (strip(a[-1]).o in ('-', 'pre-') or (strip(a[-1]).short or '') == 'operator-')
                upd.append((n, n.short[len('operator'):], neg))
        if not upd:
            continue
        wrong = [(n, o) for n, o, neg in upd if o != want and not (want == '-=' and o == '+=' and neg)]
        if isctl:
            ctl9 += 1 if wrong else 0
            continue
        k9 += 1
        rep.check(not wrong, 'R19.9', '%s(%s)' % (f.name.replace('soplex::', '')[:70], ','.join(t for _, t in f.params)[:40]), f.where(), '%d element updates by %s' % (len(upd), want),
                  '%s updates its elements with `%s` (line %d): the result is the other operation\'s' % (f.short, wrong[0][1] if wrong else '', wrong[0][0].l if wrong else 0))
    if ctl9 < 1:
        raise AnalysisBroken('R19.9 positive control (MinusCtl::operator-=) did not fire')
    rep.ok('R19.9', 'control|MinusCtl::operator-=', 'units/controls.cpp', 'positive control fires', nontrivial=False)


    # ------------------------------------------------------------------ R19.10
    # DataSet / ClassSet keep two maps that are inverse to each other: thekey[n] is the key of the element with number n, and
    # theitem[key.idx].info is the number of the element with that key.  Whenever a key is stored at number X (added, or moved there by a
    # removal), the very next statement stores X as the number of that key's item.
    rep.rule('R19.10', 'DataSet / ClassSet: storing a key at number X is followed by storing X as the number of that key\'s item', floor=6)
    k10 = 0
    for f in sorted(fb.funcs.values(), key=lambda g: (g.file, g.line, g.name)):
        if not f.cls or not re.match(r'soplex::(DataSet|ClassSet)<', f.cls) or not f.nodes or f.mk in ('copyassign', 'copyctor') or f.short == 'operator=':
            continue
        for n in f.nodes:
            if not (n.k in ('BinaryOperator', 'CXXOperatorCallExpr') and (n.o == '=' or (n.short or '') == 'operator=')):
                continue
            ks = n.kids if n.k == 'BinaryOperator' else n.args()
            if len(ks) != 2:
                continue
            lhs = strip(ks[0])
            if lhs.k != 'ArraySubscriptExpr' or render(strip(lhs.kids[0])) not in ('thekey', 'this->thekey'):
                continue
            X = render(strip(lhs.kids[1]))
            V = render(strip(ks[1]))
            par = f.parent_of(n)
            while par is not None and par.k not in ('CompoundStmt',):
                n_up = par
                par = f.parent_of(par)
                if par is not None and par.k == 'CompoundStmt':
                    n = n_up
            k10 += 1
            key = '%s|thekey[%s] = %s' % (f.name.replace('soplex::', '')[:60], X, V[:30])
            if par is None:
                rep.unrec('R19.10', key, '%s:%d' % (f.file, lhs.l), 'the assignment is not a statement of a block')
                continue
            sibs = par.kids
            idx = [i for i, x in enumerate(sibs) if x.i == n.i]
            nxt = sibs[idx[0] + 1] if idx and idx[0] + 1 < len(sibs) else None
            ok = False
            why = 'no statement follows'
            if nxt is not None:
                t = strip(nxt)
                tk = t.kids if t.k == 'BinaryOperator' else (t.args() if t.k == 'CXXOperatorCallExpr' else [])
                if len(tk) == 2 and render(strip(tk[0])).endswith('.info') and 'theitem[' in render(strip(tk[0])):
                    target = render(strip(tk[0]))
                    val = render(strip(tk[1]))
                    src = V if V.startswith('thekey[') else None
                    okkey = ('theitem[%s.idx]' % V in target) or ('theitem[thekey[%s].idx]' % X in target) or (src is not None and 'theitem[%s.idx]' % src in target)
                    ok = okkey and val == X
                    why = 'the next statement is `%s = %s`' % (target[:50], val[:30])
                else:
                    why = 'the next statement is `%s`' % render(t)[:60]
            rep.check(ok, 'R19.10', key, '%s:%d' % (f.file, lhs.l), 'followed by theitem[..].info = %s' % X,
                      'the key is stored at number %s but %s: key -> number and number -> key are no longer inverse, number(key) returns the wrong element' % (X, why))
    if k10 < 6:
        raise AnalysisBroken('R19.10: only %d key stores found in DataSet / ClassSet' % k10)
