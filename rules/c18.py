"""C18 — distinct solver objects in different threads: no shared mutable state inside the library."""
import re
from engine import render, strip
from facts import AnalysisBroken, CALL_KINDS
import facts
import modifiers as M

EXPLANATION = (
    "Decides the structural clause 'no mutable state is shared between solver objects': R18.1 every variable with static storage "
    "duration that a library unit defines or instantiates (seen in the LLVM IR of every library .cpp, i.e. including statics inside "
    "Boost/fmt/zstr headers that SoPlex's calls instantiate) is constant, thread_local, a guard variable, or written only by its own "
    "dynamic initialiser (__cxx_global_var_init*, _GLOBAL__sub_I_*, the guarded block of the function that owns a local static); "
    "uses that pass the address on are followed through returned addresses one call level and judged by the callee's constness; "
    "R18.2 no call to a non-reentrant C library function (strtok, rand, localtime, ...) or to a process-wide GMP/MPFR configuration "
    "function in any library function; R18.3 the parameter tables Settings::boolParam/intParam/realParam are written only by their "
    "constructors. Positive controls (a written global, strtok, rand) must fire on every run. NOT decided: races inside GMP / MPFR / "
    "zlib, and equality of results between threaded and sequential runs.")

NONREENTRANT = {'strtok', 'rand', 'srand', 'random', 'srandom', 'drand48', 'lrand48', 'localtime', 'gmtime', 'asctime', 'ctime', 'strerror', 'setlocale',
                'getenv', 'putenv', 'setenv', 'tmpnam', 'readdir', 'mpfr_set_default_prec', 'mpfr_set_default_rounding_mode', 'mp_set_memory_functions',
                '__gmp_set_memory_functions', 'mpfr_set_emin', 'mpfr_set_emax', 'signal'}
# getenv is only a problem together with setenv/putenv; it is listed so that a new use is looked at once

INIT_FN = re.compile(r'^(__cxx_global_var_init(\.\d+)?|_GLOBAL__sub_I_.*|__cxx_global_array_dtor(\.\d+)?)$')
HARMLESS_CALLEES = {'__cxa_atexit', '__cxa_guard_acquire', '__cxa_guard_release', '__cxa_guard_abort', 'strlen', 'memcmp', 'strcmp', 'strncmp', '__cxa_thread_atexit'}


def split_params(dem):
    """parameter type list of a demangled function signature"""
    i = dem.rfind(')')
    if i < 0:
        return []
    depth = 0
    j = i
    while j >= 0:
        if dem[j] == ')':
            depth += 1
        elif dem[j] == '(':
            depth -= 1
            if depth == 0:
                break
        j -= 1
    inner = dem[j + 1:i]
    out, cur, d = [], '', 0
    for ch in inner:
        if ch in '<(':
            d += 1
        elif ch in '>)':
            d -= 1
        if ch == ',' and d == 0:
            out.append(cur.strip())
            cur = ''
        else:
            cur += ch
    if cur.strip():
        out.append(cur.strip())
    return out


def demangle(name):
    import subprocess
    if not hasattr(demangle, 'cache'):
        demangle.cache = {}
    if name not in demangle.cache:
        r = subprocess.run(['c++filt', name], capture_output=True, text=True)
        demangle.cache[name] = r.stdout.strip() or name
    return demangle.cache[name]


def fn_name(dem):
    """qualified function name of a demangled signature (template arguments kept, parameter list dropped)"""
    d = dem
    for suf in (' const', ' volatile', ' &', ' &&'):
        if d.endswith(suf):
            d = d[:-len(suf)]
    if not d.endswith(')'):
        return d
    depth = 0
    j = len(d) - 1
    while j >= 0:
        if d[j] == ')':
            depth += 1
        elif d[j] == '(':
            depth -= 1
            if depth == 0:
                break
        j -= 1
    return d[:j] if j > 0 else d


def callee_readonly(callee, argno):
    """does passing an object's address as argument #argno allow the callee to write the object?"""
    if callee in HARMLESS_CALLEES:
        return True
    if callee.startswith('_ZNK'):
        # const member function: `this` (arg 0) is const; other args judged by their declared type
        if argno == 0:
            return True
    dem = demangle(callee)
    ps = split_params(dem)
    member = callee.startswith('_ZN') and '::' in dem.split('(')[0]
    k = argno - 1 if member and not is_static_like(dem) else argno
    if argno == 0 and member:
        return callee.startswith('_ZNK')
    if 0 <= k < len(ps):
        p = ps[k]
        return p.endswith('const&') or p.endswith('const*') or 'const&' in p or (not p.endswith('&') and not p.endswith('*'))
    return False


def is_static_like(dem):
    return False


def run(fb, rep, tier):
    rep.extra['explanation'] = EXPLANATION
    rep.extra['assumptions'] = ['standard stream objects (std::cout/cerr) are race-free by specification and are only declared, not defined, in these units',
                                'a const member function / a parameter of type const& or const* does not write the object (mutable members are not modelled)']
    mods = facts.ir_globals()
    rep.rule('R18.1', 'every global defined/instantiated by a library unit is const, thread_local, a guard, or written only by its own dynamic initialiser', floor=8)
    rep.rule('R18.3', 'the static parameter tables are written only by their constructors during dynamic initialisation', floor=3)
    seen = {}
    nfun = 0
    for m in mods:
        nfun += m['functions']
        unit = m['file'].split('/')[-1].replace('.bc', '')
        for g in m['globals']:
            e = seen.setdefault(g['name'], {'g': g, 'units': [], 'uses': []})
            e['units'].append(unit)
            for u in g['uses']:
                e['uses'].append(dict(u, unit=unit))
    ctl_fired = False
    for name, e in sorted(seen.items()):
        g = e['g']
        dem = g['demangled']
        short = dem.split('(')[0] if not dem.startswith('guard variable') else dem
        key = dem[:150]
        if g['guard'] or dem.startswith('guard variable'):
            continue
        if g['tls']:
            rep.ok('R18.1', key, 'units: %s' % sorted(set(e['units'])), 'thread_local', nontrivial=False)
            continue
        # owner of a function-local static
        owner = None
        mm = re.match(r'^_ZZ(.*)E\d*[_a-zA-Z]', name)
        local_static = name.startswith('_ZZ')
        writes = []
        for u in e['uses']:
            fn = u['fn']
            init = bool(INIT_FN.match(fn)) or (local_static and fn_name(demangle(fn)) in dem)
            if u['k'] in ('store', 'atomic-store', 'atomic-rmw', 'address-stored') or u['k'].startswith('other:'):
                if not init:
                    writes.append(u)
            elif u['k'] == 'passed':
                if init:
                    continue
                if not callee_readonly(u['callee'], u['arg']):
                    writes.append(u)
        rule = 'R18.3' if 'Settings::' in dem and dem.endswith('Param') else 'R18.1'
        is_ctl = 'verif_ctl::' in dem
        if writes:
            w = writes[0]
            wfn = fn_name(demangle(w['fn']))
            detail = 'written after static initialisation by %s (%s%s, line %s)%s' % (wfn, w['k'], (' to ' + fn_name(demangle(w.get('callee', '')))) if w.get('callee') else '', w['line'],
                                                                                     '; %d writing uses in %s' % (len(writes), sorted(set(fn_name(demangle(x['fn'])) for x in writes))[:4]))
            if is_ctl:
                ctl_fired = True
                rep.ok('R18.1', 'control|' + key, 'units/controls.cpp', 'positive control fires: ' + detail[:120], nontrivial=False)
            else:
                # who in SoPlex reaches the writer (from the AST facts): callers of the writing function by short name
                wshort = wfn.split('::')[-1].split('<')[0]
                callers = sorted(set(f.name.replace('soplex::', '') for f in fb.funcs.values() if f.name.startswith('soplex::') and any(c.short == wshort and len(c.args()) >= 1 for c in f.calls())))
                if callers:
                    detail += '; reached from ' + ', '.join(callers[:6])
                rep.bad(rule, key, '%s:%s' % (g.get('file') or sorted(set(e['units']))[0], g.get('line')), detail)
        else:
            rep.ok(rule, key, 'units: %s' % sorted(set(e['units']))[:3], 'written only by its dynamic initialiser; %d uses (%s)' % (len(e['uses']), sorted(set(u['k'] for u in e['uses']))))
    if not ctl_fired:
        raise AnalysisBroken('R18.1 positive control (verif_ctl::g_counter written by bumps_global) did not fire')
    rep.extra['ir'] = {'modules': len(mods), 'functions': nfun, 'globals_listed': len(seen)}

    # ------------------------------------------------------------------ R18.1b (AST: covers every template instantiated by U-inst)
    rep.rule('R18.1b', 'function-local statics in library code are const and initialised from constants only (a value fixed by the first caller is state shared between solver objects)', floor=5)
    ctl2 = set()
    seen_sl = set()
    for f in fb.funcs.values():
        for n in f.nodes:
            if n.k != 'VarDecl' or not n.x.get('st'):
                continue
            isctl = f.name.startswith('verif_ctl::')
            is_const = n.t.startswith('const ') or ' const' in n.t.split('[')[0]
            dyn = []
            for x in n.walk():
                if x.i == n.i:
                    continue
                if x.k == 'CXXThisExpr' or (x.k == 'DeclRefExpr' and x.dk in ('parm', 'local')) or (x.k == 'MemberExpr' and x.dk == 'field'):
                    dyn.append(x)
            key = '%s|static %s' % (re.sub(r'<.*', '', f.name.replace('soplex::', '')) + '::' + f.short if False else f.name.replace('soplex::', '')[:80], n.n)
            if key in seen_sl:
                continue
            seen_sl.add(key)
            wh = '%s:%d' % (f.file, n.l)
            if isctl:
                if not is_const or dyn:
                    ctl2.add(f.short)
                continue
            if not is_const:
                rep.bad('R18.1b', key, wh, 'mutable function-local static `%s %s`: one object shared by all solver objects and threads' % (n.t[:40], n.n))
            elif dyn:
                rep.bad('R18.1b', key, wh, 'static `%s` is initialised from %s: its value is fixed by whichever solver object calls first and then used by all others' % (n.n, render(dyn[0])[:40]))
            else:
                rep.ok('R18.1b', key, wh, 'const, constant initialiser')
    if not {'static_buffer_writer', 'static_from_argument'} <= ctl2:
        raise AnalysisBroken('R18.1b positive controls did not fire (%s)' % sorted(ctl2))
    rep.ok('R18.1b', 'control|static_buffer_writer,static_from_argument', 'units/controls.cpp', 'positive controls fire', nontrivial=False)

    # ------------------------------------------------------------------ R18.2
    rep.rule('R18.2', 'no call to a non-reentrant / process-wide-state C library function in library code', floor=1)
    hits = {}
    ctl = set()
    ncalls = 0
    for f in fb.funcs.values():
        for c in f.nodes:
            if c.k == 'CallExpr' and c.n:
                ncalls += 1
                nm = c.n.replace('std::', '')
                if nm in NONREENTRANT:
                    if f.name.startswith('verif_ctl::'):
                        ctl.add(nm)
                    else:
                        hits.setdefault((f, nm), c)
    if not {'strtok', 'rand'} <= ctl:
        raise AnalysisBroken('R18.2 positive controls did not fire (%s)' % sorted(ctl))
    rep.ok('R18.2', 'control|strtok,rand', 'units/controls.cpp', 'positive controls fire', nontrivial=False)
    for (f, nm), c in sorted(hits.items(), key=lambda x: (x[0][0].name, x[0][1])):
        if nm == 'getenv':
            rep.ok('R18.2', '%s|%s' % (f.name, nm), '%s:%d' % (f.file, c.l), 'getenv without any setenv/putenv in the library', nontrivial=False)
            continue
        rep.bad('R18.2', '%s|%s' % (f.name.replace('soplex::', ''), nm), '%s:%d' % (f.file, c.l), '%s() keeps process-wide state: concurrent use from two solver objects interferes' % nm)
    rep.ok('R18.2', 'scan|all-calls', 'src', '%d call sites in %d functions scanned, %d hits' % (ncalls, len(fb.funcs), len(hits)), nontrivial=False)
