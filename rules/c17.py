"""C17 — determinism; copies are equal and independent (copy / initialisation / source clauses)."""
import re
from engine import render, strip
from facts import AnalysisBroken, CALL_KINDS
import modifiers as M

EXPLANATION = (
    "Decides structural necessary conditions of C17: R17.1 observed-state copy completeness - every data member that a public "
    "observer of SoPlexBase (const methods and get*/has*/is*/num*/status/objValue/basis* queries) reads, directly or through const "
    "callees up to depth 3, in any class on the copy path (classes whose user-provided operator= is reachable from "
    "SoPlexBase::operator=), is written by that class's operator= (directly, through a base-class operator=, or through a member "
    "function it calls); R17.2 no aliasing - no pointer / shared_ptr member is assigned from the source's pointer unless it is "
    "re-bound to an own object on every path or points to immutable data; R17.3 constructor parity - every member that the default "
    "constructor path assigns (in a body, through helpers up to depth 4) is also assigned on the copy-construction path (copy "
    "constructor + operator=), so no member a fresh object has initialised is left indeterminate or defaulted in a copy; R17.4 "
    "nondeterminism sources - no rand/srand/random_device/time-seeded generator, no RNG engine other than soplex::Random, no iteration "
    "over unordered containers, no ordering/hashing of pointer values in library code (positive controls fire on every run); R17.5 "
    "source-guarded copy - an if inside a copy operation whose branch copies member P from the source never tests the destination's own "
    "P; R17.6 back-pointers - a raw non-owning pointer member that a copy operation on the copy path copies verbatim is re-bound to the "
    "copy's own object later in that function, after the call in a calling function on the copy path, or by its load(owner) member; "
    "R17.7 parameter state - every component member that SoPlexBase's parameter setters set (the second home of a parameter) is copied "
    "by that component's operator= or re-applied after the copy; R17.8 a member copy guarded by a _has<Name> flag copies the member "
    "_<name>. NOT "
    "decided: bit-identical results of two runs, which depends on the arithmetic performed.")

C = M.CLS
OBS = re.compile(r'^(get|has|is|num|status|objValue|basis|lhs|rhs|lower|upper|obj|maxObj|col|row|intParam|boolParam|realParam|randomSeed|settings|tolerances|min|max|coef|dlcm|dmax|total)')


def assigned_fields(fb, f, depth=4, seen=None):
    """names of members of f's own class that f assigns in its body or through member functions / base operator= it calls"""
    seen = seen if seen is not None else set()
    out = set()
    if f.u in seen:
        return out
    seen.add(f.u)
    for n in f.nodes:
        if (n.k in ('BinaryOperator', 'CompoundAssignOperator') and n.o == '=') or (n.k == 'CXXOperatorCallExpr' and n.o == '='):
            l = strip(n.kids[0] if n.k != 'CXXOperatorCallExpr' else n.args()[0])
            root = l
            while root is not None:
                if root.k == 'MemberExpr' and root.dk == 'field' and (root.obj() is None or root.obj().k == 'CXXThisExpr'):
                    out.add(root.short)
                    break
                if root.k in ('ArraySubscriptExpr', 'UnaryOperator', 'MemberExpr') and root.c:
                    root = strip(root.kids[0])
                elif root.k == 'CXXOperatorCallExpr' and root.o in ('[]', '*') and root.args():
                    root = strip(root.args()[0])
                else:
                    break
        callee = None
        if n.k == 'CXXMemberCallExpr' and n.obj() is not None and n.obj().k == 'CXXThisExpr':
            callee = fb.funcs.get(n.u)
        if n.k == 'CXXOperatorCallExpr' and n.o == '=' and render(n.args()[0]) in ('*this', '(*this)'):
            callee = fb.funcs.get(n.u)
        if callee is not None and depth > 0 and (callee.cls == f.cls or callee.mk == 'copyassign'):
            out |= assigned_fields(fb, callee, depth - 1, seen)
    return out


def governing_labels(f, n):
    """enumerators of the outermost-switch case label(s) that govern statement n (the arm's statements are siblings of the CaseStmt)"""
    out = set()
    chain = [n] + list(f.ancestors(n))
    for i, a in enumerate(chain):
        par = a.parent
        if a.k == 'CaseStmt':
            c = a
            while c is not None and c.k == 'CaseStmt':
                for x in c.kids[0].walk():
                    if x.k == 'DeclRefExpr' and x.dk == 'enum':
                        out.add(x.short)
                c = c.parent if (c.parent is not None and c.parent.k == 'CaseStmt') else None
        if par is not None and par.k == 'CompoundStmt' and par.parent is not None and par.parent.k == 'SwitchStmt':
            ks = par.kids
            idx = [k.i for k in ks].index(a.i)
            for k in reversed(ks[:idx + 1]):
                c = k
                found = False
                while c is not None and c.k == 'CaseStmt':
                    found = True
                    for x in c.kids[0].walk():
                        if x.k == 'DeclRefExpr' and x.dk == 'enum':
                            out.add(x.short)
                    c = c.kids[-1] if c.kids and c.kids[-1].k == 'CaseStmt' else None
                if found or k.k == 'DefaultStmt':
                    break
    return out


def touched_fields(fb, f, depth=3, seen=None):
    """members that a copy operation writes *or* re-initialises through a non-const call on them (x.reSize(), x = ..., x.clear())"""
    seen = seen if seen is not None else set()
    out = set(assigned_fields(fb, f, depth))
    if f.u in seen:
        return out
    seen.add(f.u)
    for n in f.nodes:
        if n.k == 'CXXMemberCallExpr':
            o = n.obj()
            if o is not None:
                for x in o.walk():
                    if x.k == 'MemberExpr' and x.dk == 'field' and x.obj() is not None and x.obj().k == 'CXXThisExpr':
                        out.add(x.short)
        if n.k == 'CXXMemberCallExpr' and n.obj() is not None and n.obj().k == 'CXXThisExpr' and depth > 0:
            g = fb.funcs.get(n.u)
            if g is not None and g.cls == f.cls:
                out |= touched_fields(fb, g, depth - 1, seen)
        # base-class operator=(rhs) called as a qualified member call
        if n.k == 'CXXMemberCallExpr' and n.short == 'operator=' and depth > 0:
            g = fb.funcs.get(n.u)
            if g is not None:
                out |= touched_fields(fb, g, depth - 1, seen)
    for fld, e, w in f.inits:
        out.add(fld.split('::')[-1])
    return out


def run(fb, rep, tier):
    _run(fb, rep, tier)
    tolerance_siblings(fb, rep)
    guard_is_resource(fb, rep)
    reseed(fb, rep)


def _run(fb, rep, tier):
    rep.extra['explanation'] = EXPLANATION
    rep.extra['assumptions'] = ['a member that no public observer reads is not required to be copied (scratch space, statistics)',
                                'observer read sets are computed through const callees up to depth 3']
    # ------------------------------------------------------------------ copy path
    opeq = [f for f in fb.methods_of(C) if f.mk == 'copyassign' and not f.implicit]
    if len(opeq) != 1:
        raise AnalysisBroken('SoPlexBase::operator= not found')
    opeq = opeq[0]
    # classes whose user-provided operator= is reachable from SoPlexBase::operator=
    path = {}
    work = [opeq]
    while work:
        f = work.pop()
        if f.u in path:
            continue
        path[f.u] = f
        for n in f.nodes:
            if n.is_call() and n.u:
                g = fb.funcs.get(n.u)
                if g is not None and g.mk == 'copyassign' and not g.implicit and g.name.startswith('soplex::'):
                    work.append(g)
    ops = {f.cls: f for f in path.values()}
    rep.extra['copy_path_classes'] = sorted(c.replace('soplex::', '') for c in ops)
    if len(ops) < 6:
        raise AnalysisBroken('copy path has only %d classes with a user-provided operator=' % len(ops))

    # ------------------------------------------------------------------ R17.1
    rep.rule('R17.1', 'every member read by a public observer of SoPlexBase is written by the operator= of its class on the copy path', floor=25)
    observers = [f for f in fb.methods_of(C) if f.acc == 'public' and (f.const or OBS.match(f.short)) and f.mk is None
                 and not re.match(r'^(set|change|add|remove|clear|read|load|optimize|write|save|parse|print|reset|sync|compute|mult)', f.short)]
    if len(observers) < 100:
        raise AnalysisBroken('only %d public observers found' % len(observers))
    reads = {}

    def visit(f, root, depth, seen):
        if f.u in seen:
            return
        seen.add(f.u)
        for n in f.nodes:
            if f.in_assert(n):
                continue
            if n.k == 'MemberExpr' and n.dk == 'field':
                cls = n.n.rsplit('::', 1)[0]
                reads.setdefault((cls, n.short), set()).add(root.short)
            if n.is_call() and n.u and depth > 0:
                g = fb.funcs.get(n.u)
                if g is not None and g.const and g.name.startswith('soplex::'):
                    visit(g, root, depth - 1, seen)
    for o in observers:
        visit(o, o, 3, set())
    rep.helper_evals += len(observers)
    CONTAINERS = re.compile(r'^soplex::(DataArray|Array|ClassArray|SVectorBase|DSVectorBase|SSVectorBase|VectorBase|SVSetBase|LPRowSetBase|LPColSetBase|DataSet|ClassSet|IdxSet|DIdxSet|NameSet|DataHashTable|UnitVectorBase|IsList|IdList)\b')
    for K, f in sorted(ops.items()):
        if K not in fb.classes:
            continue
        if CONTAINERS.match(K):
            rep.not_decided.append('R17.1: %s is a generic container; its copy semantics are an ADT matter (C19)' % K.replace('soplex::', ''))
            continue
        # copied = written by the operator itself (or a base-class operator=); a write somewhere in a helper it calls only
        # counts for pointer members, which are re-bound rather than copied (the helper may just reset the member)
        direct = touched_fields(fb, f, depth=0)
        for n in f.nodes:
            if n.k == 'CXXMemberCallExpr' and n.short == 'operator=':
                g = fb.funcs.get(n.u)
                if g is not None:
                    direct |= touched_fields(fb, g, depth=0)
        trans = touched_fields(fb, f)
        ptrs = set(x['n'] for x in fb.classes[K]['fields'] if x['tk'] == 'ptr')
        w = direct | (trans & ptrs)
        for fld in fb.classes[K]['fields']:
            if (K, fld['n']) not in reads:
                continue
            key = '%s::operator=|%s' % (K.replace('soplex::', ''), fld['n'])
            rep.check(fld['n'] in w, 'R17.1', key, f.where(), 'copied / re-derived (read by %s)' % sorted(reads[(K, fld['n'])])[:3],
                      'member %s is read by the public observers %s but operator= neither copies nor re-derives it: the copy reports a different value than its source' % (fld['n'], sorted(reads[(K, fld['n'])])[:4]))

    # ------------------------------------------------------------------ R17.2
    rep.rule('R17.2', 'no aliasing between a copy and its source: SoPlexBase pointer/shared_ptr members are not taken from the source; every copied component that holds a Tolerances pointer is re-bound to the copy\'s own object', floor=25)
    f = opeq
    K = C
    ftypes = {x['n']: x for x in fb.classes[K]['fields']}
    rhs = f.params[0][0]
    for n in f.nodes:
        if not ((n.k == 'BinaryOperator' and n.o == '=') or (n.k == 'CXXOperatorCallExpr' and n.o == '=')):
            continue
        l = strip(n.kids[0] if n.k == 'BinaryOperator' else n.args()[0])
        r = strip(n.kids[1] if n.k == 'BinaryOperator' else n.args()[1])
        if l.k != 'MemberExpr' or l.dk != 'field' or not (l.obj() is None or l.obj().k == 'CXXThisExpr'):
            continue
        fd = ftypes.get(l.short)
        if fd is None or not (fd['tk'] == 'ptr' or 'shared_ptr' in fd['t']):
            continue
        rt = render(r)
        from_src = rt in ('%s.%s' % (rhs, l.short), '%s->%s' % (rhs, l.short))
        key = 'SoPlexBase::operator=|%s' % l.short
        if not from_src:
            rep.ok('R17.2', key + '|' + rt[:30], '%s:%d' % (f.file, n.l), '%s = %s (own object)' % (l.short, rt[:60]), nontrivial=False)
        elif l.short == 'spxout':
            rep.ok('R17.2', key, '%s:%d' % (f.file, n.l), 'message handler: owned by the caller, shared by design', nontrivial=False)
        else:
            rep.bad('R17.2', key, '%s:%d' % (f.file, n.l), '%s = %s: the copy and its source share one %s object; changing or destroying one affects the other' % (l.short, rt, fd['t'].replace('soplex::', '')))
    # components copied from the source carry the source's Tolerances pointer (their operator= copies it): each must be re-bound
    has_tol = set(c['name'] for c in fb.classes.values() if any(x['n'] == '_tolerances' for x in c['fields']))

    def holds_tolerances(t):
        t = t.replace('const ', '')
        seen = set()
        work = [t]
        while work:
            k = work.pop()
            if k in seen:
                continue
            seen.add(k)
            if k in has_tol:
                return True
            c = fb.classes.get(k)
            if c is not None:
                work += [b.replace('const ', '') for b in c['bases']]
        return False
    copied = []
    for n in f.nodes:
        if n.k == 'CXXOperatorCallExpr' and n.o == '=':
            l = strip(n.args()[0])
            r = strip(n.args()[1])
            if l.k == 'MemberExpr' and l.dk == 'field' and render(r) == '%s.%s' % (rhs, l.short) and l.short in ftypes and holds_tolerances(ftypes[l.short]['t']):
                copied.append((l.short, n))
    if len(copied) < 15:
        raise AnalysisBroken('only %d components with a Tolerances pointer are copied in SoPlexBase::operator= (>= 15 confirmed)' % len(copied))
    rebound = {}
    for n in f.nodes:
        if n.k == 'CXXMemberCallExpr' and n.short == 'setTolerances' and n.obj() is not None:
            rebound.setdefault(render(n.obj()), []).append(n)
    for name, n in copied:
        rb = [x for x in rebound.get(name, []) if x.i > n.i and '_tolerances' in render(x.args()[0])]
        cls = ftypes[name]['t'].replace('soplex::', '')
        # pricers and starters get their tolerances from the solver when they are loaded into it (setPricer / setStarter)
        loaded_later = bool(re.match(r'^(SPx\w+PR|SPx\w+ST)<', cls))
        if rb:
            rep.ok('R17.2', 'SoPlexBase::operator=|rebinds|%s' % name, '%s:%d' % (f.file, rb[0].l), '%s.setTolerances(_tolerances) after the copy' % name)
        elif loaded_later:
            rep.ok('R17.2', 'SoPlexBase::operator=|rebinds|%s' % name, '%s:%d' % (f.file, n.l), 'unloaded component: receives the solver\'s tolerances when it is loaded (setPricer/setStarter)', nontrivial=False)
        else:
            rep.bad('R17.2', 'SoPlexBase::operator=|rebinds|%s' % name, '%s:%d' % (f.file, n.l), '%s is copied from the source (its %s::operator= copies the Tolerances pointer) and never re-bound with setTolerances(_tolerances): it keeps following the tolerances of the source' % (name, cls))
    # the LPs created by copy construction
    for n in f.nodes:
        if n.k == 'CXXNewExpr' and ('SPxLPBase' in n.x.get('at', '')):
            tgt = None
            for a in f.ancestors(n):
                if a.k == 'BinaryOperator' and a.o == '=':
                    tgt = render(a.kids[0])
                    break
            rb = [x for x in rebound.get(tgt, []) if x.i > n.i and '_tolerances' in render(x.args()[0])] if tgt else []
            rep.check(bool(rb), 'R17.2', 'SoPlexBase::operator=|rebinds|%s' % tgt, '%s:%d' % (f.file, n.l), '%s->setTolerances(_tolerances)' % tgt,
                      'the LP copy %s keeps the Tolerances pointer of the source LP' % tgt)
    # the solver forwards new tolerances to the components it has loaded (clones of the source's components after operator=)
    S = 'soplex::SPxSolverBase<double>'
    st = fb.one(S + '::setTolerances')
    for fd in fb.classes[S]['fields']:
        pointee = fd['t'].replace(' *', '').replace('const ', '')
        polymorphic = pointee in fb.classes and any(m['n'] == 'clone' for m in fb.classes[pointee]['methods'])
        if fd['tk'] == 'ptr' and holds_tolerances(pointee) and polymorphic:
            fw = [x for x in st.nodes if x.k == 'CXXMemberCallExpr' and x.short == 'setTolerances' and x.obj() is not None and render(x.obj()) == fd['n']]
            rep.check(bool(fw), 'R17.2', 'SPxSolverBase::setTolerances|forwards|%s' % fd['n'], st.where(), 'forwards to ' + fd['n'],
                      'SPxSolverBase::setTolerances does not reach %s: after operator= the clone keeps the Tolerances object of the source' % fd['n'])
    # owning raw pointers must not be copied verbatim
    for K2, f2 in sorted(ops.items()):
        if K2 not in fb.classes:
            continue
        dt = [g for g in fb.methods_of(K2) if g.mk == 'dtor']
        owned = set()
        for g in dt:
            for x in g.nodes:
                if x.k == 'CXXDeleteExpr' or (x.k == 'CallExpr' and x.short == 'spx_free'):
                    for y in x.walk():
                        if y.k == 'MemberExpr' and y.dk == 'field':
                            owned.add(y.short)
        rhs2 = f2.params[0][0]
        for x in f2.nodes:
            if x.k == 'BinaryOperator' and x.o == '=':
                l = strip(x.kids[0])
                if l.k == 'MemberExpr' and l.dk == 'field' and l.short in owned and render(x.kids[1]) in ('%s.%s' % (rhs2, l.short),):
                    rep.bad('R17.2', '%s::operator=|owning-pointer|%s' % (K2.replace('soplex::', ''), l.short), '%s:%d' % (f2.file, x.l), 'the owning pointer %s (released by the destructor) is copied verbatim: double release' % l.short)
        for o in sorted(owned):
            rep.ok('R17.2', '%s::operator=|owning-pointer-scan|%s' % (K2.replace('soplex::', ''), o), f2.where(), 'owning pointer not copied verbatim', nontrivial=False)

    # ------------------------------------------------------------------ R17.3
    # copy constructors reachable from the copy operations of SoPlexBase (through clone() and new X(*rhs...))
    reach_cc = set()
    seenf = set()
    work = [opeq] + [g for g in fb.methods_of(C) if g.mk == 'copyctor']
    depth = {w.u: 0 for w in work}
    while work:
        g = work.pop()
        if g.u in seenf:
            continue
        seenf.add(g.u)
        if g.mk == 'copyctor':
            reach_cc.add(g.u)
        if depth[g.u] >= 6:
            continue
        for n in g.nodes:
            if n.is_call() and n.u:
                for h in fb.resolve(n):
                    if h.name.startswith('soplex::') and h.u not in seenf and (h.mk in ('copyctor', 'copyassign') or h.short == 'clone'):
                        depth[h.u] = depth[g.u] + 1
                        work.append(h)
    rep.rule('R17.3', 'constructor parity: every member the default-constructor path assigns is also assigned on the copy-construction path', floor=40)
    for K in sorted(ops):
        dcs = [f for f in fb.methods_of(K) if f.mk == 'defctor' and not f.implicit]
        ccs = [f for f in fb.methods_of(K) if f.mk == 'copyctor' and not f.implicit]
        if not dcs or not ccs:
            continue
        if ccs[0].u not in reach_cc:
            rep.not_decided.append('R17.3: copy constructor of %s is not reachable from SoPlexBase copy operations' % K.replace('soplex::', ''))
            continue
        own = set(x['n'] for x in fb.classes[K]['fields'])
        wd = assigned_fields(fb, dcs[0]) & own
        wc = assigned_fields(fb, ccs[0]) | set(i[0].split('::')[-1] for i in ccs[0].inits if i[2])
        if CONTAINERS.match(K):
            continue
        # a copy constructor that is never instantiated by the build cannot be judged (SPxSolverBase: does not compile)
        for fld in sorted(wd):
            key = '%s|copy-ctor-path|%s' % (K.replace('soplex::', ''), fld)
            rep.check(fld in wc, 'R17.3', key, ccs[0].where(), 'assigned on both construction paths',
                      'the default constructor assigns %s but the copy constructor / operator= never does: a copy-constructed object holds an indeterminate or default value there' % fld)

    # ------------------------------------------------------------------ R17.5
    # a copy operation decides what to copy from the state of its *source*: an if whose branch copies a member from the source must not
    # test that same member of the destination (it is about to be overwritten and, in a fresh object, is always empty / null)
    rep.rule('R17.5', 'a copy operation never decides what to copy from the destination\'s own (about to be overwritten) member', floor=6)
    copyfuncs = []
    for K in sorted(ops):
        for g in fb.methods_of(K):
            if g.implicit or not g.params:
                continue
            pt = g.params[0][1].replace('soplex::', '')
            kk = K.replace('soplex::', '').split('<')[0]
            if g.mk in ('copyctor', 'copyassign') or (re.match(r'^const %s(<.*>)? &$' % re.escape(kk), pt) and len(g.params) == 1 and g.short in ('assign', 'copy', 'copyFrom', 'set')):
                copyfuncs.append(g)
    n_if = 0
    for g in copyfuncs:
        src = g.params[0][0]
        if not src:
            continue

        def dst_path(e):
            t = render(strip(e))
            t = re.sub(r'^\(?\*?this\)?(->|\.)', '', t)
            return re.sub(r'^this->', '', t).replace('this->', '')
        for n in g.nodes:
            if n.k != 'IfStmt' or g.in_assert(n):
                continue
            copies = []       # (destination path, node) for `P = src.P` / memcpy(P, src.P, ..) inside a branch
            for br in ('then', 'else'):
                b = n.kid(br)
                if b is None:
                    continue
                for x in b.walk():
                    l = r = None
                    if x.k == 'BinaryOperator' and x.o == '=':
                        l, r = x.kids[0], x.kids[1]
                    elif x.k == 'CXXOperatorCallExpr' and x.o == '=' and len(x.args()) == 2:
                        l, r = x.args()
                    elif x.k == 'CallExpr' and x.short in ('memcpy', 'memmove') and len(x.args()) >= 2:
                        l, r = x.args()[0], x.args()[1]
                    if l is None:
                        continue
                    lp, rp = dst_path(l), render(strip(r))
                    if rp in ('%s.%s' % (src, lp), '%s->%s' % (src, lp)):
                        copies.append((lp, x))
            if not copies:
                continue
            n_if += 1
            ct = render(n.kid('cond'))
            # paths the condition reads through the destination: the same text without the source prefix
            stale = []
            for lp, x in copies:
                pat = r'(?<![\w.>])(this->)?%s(?![\w])' % re.escape(lp)
                for m in re.finditer(pat, ct):
                    pre = ct[:m.start()]
                    if not re.search(r'(\b%s(\.|->))$' % re.escape(src), pre):
                        stale.append(lp)
            key = '%s|if(%s)' % (g.name.replace('soplex::', '')[:60], ct[:40])
            rep.check(not stale, 'R17.5', key, '%s:%d' % (g.file, n.l), 'the guard of the copy of %s reads the source' % sorted(set(c[0] for c in copies))[:3],
                      'the condition (%s) reads the destination\'s own %s, which the guarded branch then overwrites from %s: in a fresh or stale destination the test says nothing about the source and the wrong branch is taken' % (ct[:60], sorted(set(stale)), src))
    if n_if < 4:
        raise AnalysisBroken('R17.5: only %d guarded member copies found in copy operations' % n_if)

    # ------------------------------------------------------------------ R17.6
    # non-owning raw pointers into a sibling component: a user-provided operator= on the copy path that copies one verbatim leaves the copy
    # pointing into the *source* solver unless some function on the copy path re-binds that member
    rep.rule('R17.6', 'a raw back-pointer member copied verbatim by an operator= on the copy path is re-bound to the copy\'s own component somewhere on the copy path', floor=4)
    # functions reachable from SoPlexBase::operator= (all calls, virtual calls resolved to every overrider), depth <= 7
    reach = {}
    work = [(opeq, 0)] + [(g, 0) for g in fb.methods_of(C) if g.mk == 'copyctor']
    while work:
        g, d = work.pop()
        if g.u in reach and reach[g.u] <= d:
            continue
        reach[g.u] = d
        if d >= 7:
            continue
        for n in g.nodes:
            if n.is_call() and n.u:
                for h in fb.resolve(n):
                    if h.name.startswith('soplex::'):
                        work.append((h, d + 1))
    writers = {}          # qualified field -> functions that assign it (through any object expression)
    for g in fb.funcs.values():
        for n in g.nodes:
            if n.k == 'BinaryOperator' and n.o == '=':
                l = strip(n.kids[0])
                if l.k == 'MemberExpr' and l.dk == 'field':
                    writers.setdefault(l.n, []).append((g, n))
    n_back = 0
    cands = []            # (class, function, field short, qualified field, node, source name)
    cpfuncs = dict((f2.u, f2) for f2 in ops.values())
    for u in reach_cc:
        cpfuncs[u] = fb.funcs[u]
    for f2 in sorted(cpfuncs.values(), key=lambda g: g.name):
        K2 = f2.cls
        if K2 not in fb.classes or CONTAINERS.match(K2) or not f2.params or f2.implicit:
            continue
        rhs2 = f2.params[0][0]
        ptrf = {x['n']: x for x in fb.classes[K2]['fields'] if x['tk'] == 'ptr'}
        for x in f2.nodes:
            if not (x.k == 'BinaryOperator' and x.o == '='):
                continue
            l = strip(x.kids[0])
            if l.k == 'MemberExpr' and l.dk == 'field' and l.short in ptrf and render(x.kids[1]) in ('%s.%s' % (rhs2, l.short),):
                cands.append((K2, f2, l.short, l.n, x, rhs2, ptrf[l.short]))
        for fld, e, w in f2.inits:
            sh = fld.split('::')[-1]
            if sh in ptrf and e is not None and render(e) == '%s.%s' % (rhs2, sh):
                cands.append((K2, f2, sh, fld, e, rhs2, ptrf[sh]))
    for K2, f2, sh, qn, x, rhs2, fd in cands:
        n_back += 1
        key = '%s::%s|back-pointer|%s' % (K2.replace('soplex::', ''), 'operator=' if f2.mk == 'copyassign' else 'copy-ctor', sh)
        wh = '%s:%d' % (f2.file, x.l)
        if sh == 'spxout':
            rep.ok('R17.6', key, wh, 'message handler: owned by the caller, shared by design', nontrivial=False)
            continue
        if fd['t'].replace('soplex::', '') == 'const char *':
            rep.ok('R17.6', key, wh, 'const char*: name string with static storage duration', nontrivial=False)
            continue
        if sh == '_tolerances' or 'shared_ptr' in fd['t']:
            continue      # R17.2
        # re-bound: a non-null assignment to the same member that is not itself a verbatim copy, either later in the copying function
        # itself, or - in a function on the copy path that calls the copying function - after that call (directly or inside a callee
        # up to depth 2)
        def rebinding(g, n):
            rt = render(n.kids[1])
            if re.search(r'\b\w+(\.|->)%s$' % re.escape(sh), rt) and g.mk in ('copyassign', 'copyctor'):
                return False
            return rt.strip('()') not in ('nullptr', '0', 'NULL', '__null')
        wr = [(g, n) for (g, n) in writers.get(qn, []) if rebinding(g, n)]
        # a pointer that no function of the program ever sets to anything but nullptr (apart from copying it) is always null: copying it
        # verbatim aliases nothing (SPxLPBase<Rational>::lp_scaler - there is no scaler for the rational LP)
        nonnull = [(g, n) for (g, n) in writers.get(qn, []) if g.mk not in ('copyassign', 'copyctor') and render(n.kids[1]).strip('()') not in ('nullptr', '0', 'NULL', '__null')]
        inits_nonnull = [1 for g in fb.funcs.values() for fld_, e_, w_ in (g.inits or []) if fld_ == qn and g.mk != 'copyctor' and e_ is not None and render(e_).strip('()') not in ('nullptr', '0', 'NULL', '__null')]
        if not nonnull and not inits_nonnull and writers.get(qn):
            rep.ok('R17.6', key, wh, 'always null: every writer of %s outside the copy operations assigns nullptr' % sh)
            continue
        reb = [(g, n) for (g, n) in wr if g.u == f2.u and n.i > x.i]
        if not reb:
            wfun = {}
            for g, n in wr:
                wfun.setdefault(g.u, (g, n))
            for gu in reach:
                g = fb.funcs[gu]
                calls = [c for c in g.nodes if c.is_call() and c.u == f2.u]
                if not calls:
                    continue
                first = min(c.i for c in calls)
                for n in g.nodes:
                    if n.i <= first:
                        continue
                    if n.k == 'BinaryOperator' and n.o == '=' and strip(n.kids[0]).k == 'MemberExpr' and strip(n.kids[0]).n == qn and rebinding(g, n):
                        reb.append((g, n))
                    elif n.is_call() and n.u:
                        # a callee that assigns the member from one of its own PARAMETERS re-binds it only if the call hands it the
                        # copy itself (`x->load(this)`); found through a second level of calls it proves nothing about the object handed in
                        def from_param(hh):
                            return render(wfun[hh.u][1].kids[1]).strip('()') in [pp[0] for pp in hh.params]
                        for h in fb.resolve(n):
                            if h.u in wfun:
                                if not from_param(h) or any(render(strip(a_)).strip('()') == 'this' for a_ in n.args()):
                                    reb.append((h, wfun[h.u][1]))
                            else:
                                for m in h.nodes:
                                    if m.is_call() and m.u in wfun and not from_param(fb.funcs[m.u]):
                                        reb.append((fb.funcs[m.u], wfun[m.u][1]))
                if reb:
                    break
        if not reb:
            # the copying function is called deep below the root of the copy path (SoPlexBase::operator= -> operator= of a derived scaler ->
            # SPxScaler::operator=): a re-binding that the ROOT performs after the first call that transitively reaches the copying function
            # counts (directly, or inside a callee up to depth 2) - e.g. SPxScaler::rebind() called for every scaler at the end of operator=
            def reaches(h, depth, seen):
                if h.u == f2.u:
                    return True
                if depth <= 0 or h.u in seen:
                    return False
                seen.add(h.u)
                return any(reaches(h2, depth - 1, seen) for c2 in h.nodes if c2.is_call() and c2.u for h2 in fb.resolve(c2) if h2.name.startswith('soplex::'))
            firsts = [c for c in opeq.nodes if c.is_call() and c.u and any(reaches(h, 4, set()) for h in fb.resolve(c) if h.name.startswith('soplex::'))]
            if firsts:
                first = min(c.i for c in firsts)
                wfun = {}
                for g, n in wr:
                    wfun.setdefault(g.u, (g, n))
                for n in opeq.nodes:
                    if n.i <= first or not (n.is_call() and n.u):
                        continue
                    # only a function that the root calls DIRECTLY counts here: deeper callees that happen to assign the member from one of
                    # their parameters (SPxBasisBase::load(lp): theLP = lp) say nothing about which object they are handed
                    for h in fb.resolve(n):
                        if h.u in wfun and h.mk not in ('copyassign', 'copyctor'):
                            reb.append((h, wfun[h.u][1]))
                    if reb:
                        break
        if not reb:
            # installable component (pricer, ratio tester, starter): the pointer is bound by the owner through a load(owner) member that
            # assigns it from its parameter; the copy path installs the cloned components through it (class-level argument)
            # (only for the component base classes: anything reachable from operator= - since F28's repair also SPxBasisBase::load() behind
            # unscaleLPandReloadBasis() - would otherwise pass as "bound through load(owner)")
            for g, n in wr:
                if re.search(r'::SPx(Pricer|RatioTester|Starter)<', K2) and g.u in reach and g.cls == K2 and render(n.kids[1]).strip('()') in [pp[0] for pp in g.params]:
                    reb.append((g, n))
                    break
        if reb:
            g, n = reb[0]
            rep.ok('R17.6', key, wh, 're-bound on the copy path by %s (%s:%d: %s)' % (g.short, g.file.split('/')[-1], n.l, render(n)[:50]))
        else:
            ws = sorted(set(g.short for g, n in writers.get(qn, []) if g.mk not in ('copyassign', 'copyctor')))
            rep.bad('R17.6', key, wh, '%s = %s.%s: the copy keeps pointing at an object of the source solver (%s); no function reachable from SoPlexBase::operator= re-binds it (it is only set by %s), so using the copy after the source has changed or been destroyed reads foreign / freed memory'
                    % (sh, rhs2, sh, fd['t'].replace('soplex::', ''), ws or 'its copy operations'))
    if n_back < 4:
        raise AnalysisBroken('R17.6: only %d verbatim pointer copies found on the copy path' % n_back)

    # ------------------------------------------------------------------ R17.7
    # parameters are stored twice: in Settings and, through SoPlexBase::set{Int,Real,Bool}Param, in a member of the component that uses
    # them (_solver.basis().setMaxUpdates(v), _slufactor.setUtype(..), _scaler->setIntParam(v), ...).  The Settings are copied, so the
    # component's member must travel with the copy too: written by the component's operator= (directly, by a base operator= or by a copy
    # helper that receives the source), or re-applied by SoPlexBase::operator= through the setter of that parameter.
    rep.rule('R17.7', 'every component member that a parameter setter of SoPlexBase sets is copied by that component\'s operator= (or the parameter is re-applied after the copy)', floor=18)

    def copied_fields(K, depth=0):
        opsK = [g for g in fb.methods_of(K) if g.mk == 'copyassign']
        if not opsK or opsK[0].implicit or depth > 3:
            return None            # implicit member-wise assignment copies everything
        f_ = opsK[0]
        w_ = set(touched_fields(fb, f_, depth=0))
        rhs_ = f_.params[0][0] if f_.params else None
        for n_ in f_.nodes:
            if n_.k != 'CXXMemberCallExpr':
                continue
            g_ = fb.funcs.get(n_.u)
            if g_ is None:
                continue
            if n_.short == 'operator=':
                r_ = copied_fields(g_.cls, depth + 1)
                w_ |= r_ if r_ is not None else set(x['n'] for x in fb.classes.get(g_.cls, {'fields': []})['fields'])
            elif n_.obj() is not None and n_.obj().k == 'CXXThisExpr' and any(render(strip(a_)) == rhs_ for a_ in n_.args()):
                w_ |= set(touched_fields(fb, g_, depth=1))
        return w_
    psetters = [g for g in fb.methods_of(C) if g.short in ('setIntParam', 'setRealParam', 'setBoolParam') and g.nodes]
    if len(psetters) != 3:
        raise AnalysisBroken('the three parameter setters of SoPlexBase were not found')
    # parameters that operator= re-applies through their setter after the copy
    reapplied = set()
    for n in opeq.nodes:
        if n.k == 'CXXMemberCallExpr' and n.short in ('setIntParam', 'setRealParam', 'setBoolParam') and n.args():
            a0 = strip(n.args()[0])
            if a0.k == 'DeclRefExpr' and a0.dk == 'enum':
                reapplied.add(a0.short)
    seen7 = set()
    n7 = 0
    for f7 in psetters:
        for n in f7.nodes:
            if n.k != 'CXXMemberCallExpr' or n.obj() is None or n.obj().k == 'CXXThisExpr':
                continue
            o = render(n.obj())
            root = re.sub(r'^[(*&]+', '', o)
            labels = governing_labels(f7, n)
            for g in fb.resolve(n):
                if not g.name.startswith('soplex::') or g.cls == C or g.const or (o, g.name) in seen7:
                    continue
                seen7.add((o, g.name))
                fields_of = {x['n']: x for x in fb.classes.get(g.cls, {'fields': []})['fields']}
                w = set(x for x in assigned_fields(fb, g, depth=2) if x != '_tolerances' and 'Timer' not in fields_of.get(x, {'t': ''})['t'])
                if not w:
                    continue
                key = '%s|%s.%s' % (f7.short, root[:30], g.name.replace('soplex::', '')[:50])
                wh = '%s:%d' % (f7.file, n.l)
                if root.startswith('_boosted'):
                    rep.not_decided.append('R17.7: %s configures %s, which SoPlexBase::operator= does not copy at all (boosted-precision solver)' % (f7.short, root))
                    continue
                n7 += 1
                if labels & reapplied:
                    rep.ok('R17.7', key, wh, 'operator= re-applies %s after the copy' % sorted(labels & reapplied), nontrivial=False)
                    continue
                cf = copied_fields(g.cls)
                if cf is None:
                    rep.ok('R17.7', key, wh, '%s is assigned member-wise (implicit operator=)' % g.cls.replace('soplex::', ''), nontrivial=False)
                    continue
                miss = sorted(w - cf)
                rep.check(not miss, 'R17.7', key, wh, '%s copied by %s::operator=' % (sorted(w), g.cls.replace('soplex::', '')),
                          '%s stores the parameter in %s, but %s::operator= does not copy %s and SoPlexBase::operator= does not re-apply the parameter: the copy reports the source\'s parameter value and works with the value the destination happened to have' % (g.short, sorted(w), g.cls.replace('soplex::', ''), miss))
    if n7 < 18:
        raise AnalysisBroken('R17.7: only %d component setters called by the parameter setters found' % n7)

    # ------------------------------------------------------------------ R17.8
    # guarded member copies name their own flag: `if(_hasX) _x = rhs._x;` copies the vector that the flag announces.  With the flag of
    # another vector the copy reports "has X" and holds an empty X (or keeps a stale one).
    rep.rule('R17.8', 'a member copy guarded by a _has<Name> flag copies the member _<name> (flag and vector belong together)', floor=4)
    k8 = 0
    for g in sorted(fb.funcs.values(), key=lambda h: (h.name, h.sig)):
        if g.mk not in ('copyassign', 'copyctor') and not (g.short == 'operator=' and g.name.startswith('soplex::SolBase<')):
            continue
        if not g.name.startswith('soplex::') or not g.nodes:
            continue
        for n in g.nodes:
            if n.k != 'IfStmt' or n.kid('else') is not None:
                continue
            m = re.match(r'^\(?(?:\w+(?:\.|->))?_has([A-Z]\w*)\)?$', render(n.kid('cond')))
            if not m:
                continue
            want = '_' + m.group(1)[0].lower() + m.group(1)[1:]
            asg = [x for x in n.kid('then').walk() if (x.k == 'BinaryOperator' or x.k == 'CXXOperatorCallExpr') and x.o == '=']
            if len(asg) != 1:
                continue
            l = render(strip(asg[0].kids[0] if asg[0].k == 'BinaryOperator' else asg[0].args()[0]))
            k8 += 1
            rep.check(l == want, 'R17.8', '%s|if(_has%s)|%d' % (g.name.replace('soplex::', '')[:50], m.group(1), k8), '%s:%d' % (g.file, n.l), 'copies %s' % l,
                      'the copy of %s is guarded by _has%s: the flag that is copied says "%s is available" while the vector copied under it is another one' % (l, m.group(1), want))
    if k8 < 4:
        raise AnalysisBroken('R17.8: only %d flag-guarded member copies found' % k8)

    # ------------------------------------------------------------------ R17.4
    rep.rule('R17.4', 'no nondeterminism source in library code: rand/srand/random_device/time seeding, foreign RNG engines, unordered-container iteration', floor=2)
    BAD_CALLS = {'rand', 'srand', 'random', 'srandom', 'drand48', 'time', 'clock', 'gettimeofday', 'getpid'}
    hits = []
    ctl = set()
    for f in fb.funcs.values():
        isctl = f.name.startswith('verif_ctl::')
        for n in f.nodes:
            if n.k == 'CallExpr' and n.n and n.n.replace('std::', '') in ('rand', 'srand', 'random', 'srandom', 'drand48'):
                (ctl if isctl else hits).append(('call ' + n.short, f, n)) if not isctl else ctl.add('rand')
            if n.k == 'VarDecl' and re.search(r'std::(random_device|mt19937|minstd_rand|default_random_engine|mersenne_twister)', n.t):
                hits.append(('rng engine ' + n.t, f, n)) if not isctl else None
            if n.k == 'CXXForRangeStmt':
                rng = [x for x in n.walk() if x.k == 'VarDecl' and 'unordered_' in x.t]
                if rng:
                    if isctl:
                        ctl.add('unordered')
                    else:
                        hits.append(('iteration over ' + rng[0].t[:60], f, n))
            if n.k == 'CXXMemberCallExpr' and n.short in ('begin', 'cbegin') and n.obj() is not None and 'unordered_' in n.obj().t:
                if isctl:
                    ctl.add('unordered')
                else:
                    hits.append(('iteration over ' + n.obj().t[:60], f, n))
    if not {'rand', 'unordered'} <= ctl:
        raise AnalysisBroken('R17.4 positive controls did not fire (%s)' % sorted(ctl))
    rep.ok('R17.4', 'control|rand,unordered-iteration', 'units/controls.cpp', 'positive controls fire', nontrivial=False)
    for what, f, n in hits:
        rep.bad('R17.4', '%s|%s' % (f.name.replace('soplex::', ''), what), '%s:%d' % (f.file, n.l), '%s makes results depend on something other than LP, parameters and seed' % what)
    rep.ok('R17.4', 'scan|all-functions', 'src', '%d functions scanned, %d hits' % (len(fb.funcs), len(hits)), nontrivial=False)
    # soplex::Random is seeded only from setSeed / its constructor default
    rnd = fb.classes.get('soplex::Random')
    if rnd is None:
        raise AnalysisBroken('class soplex::Random not found')
    for f in fb.methods_of('soplex::Random'):
        bad = [n for n in f.nodes if n.k == 'CallExpr' and n.short in ('time', 'clock', 'getpid', 'rand')]
        rep.check(not bad, 'R17.4', 'Random::%s|pure' % f.short, f.where(), 'depends only on its own state', 'soplex::Random::%s reads %s' % (f.short, bad[0].short if bad else ''))


def tolerance_siblings(fb, rep):
    """R17.9: the semi-sparse work vectors of a class carry a Tolerances pointer that their assignment operator consults.  Where a class hands
    tolerances to one of its SSVectorBase / UpdateVector members, it hands them to all of them in the same function: a member that is left
    out aborts (assertions) or silently uses epsilon 0 when the object is copied.  (F74: SPxSteepPR::setType forgot workVec.)"""
    rep.rule('R17.9', 'a function that passes tolerances to one semi-sparse member vector of its class passes them to all of them', floor=4)
    k = 0
    for cn, c in sorted(fb.classes.items()):
        if not cn.startswith('soplex::') or 'Rational' in cn or 'number<' in cn:
            continue
        members = [fl['n'] for fl in c['fields'] if re.search(r'\b(SSVectorBase|UpdateVector)<', fl['t']) and not fl['t'].rstrip().endswith(('*', '&'))]
        if len(members) < 1:
            continue
        for f in sorted(fb.methods_of(cn), key=lambda g: g.line):
            got = set()
            for n in f.nodes:
                if n.k == 'CXXMemberCallExpr' and n.short == 'setTolerances' and n.obj() is not None:
                    o = strip(n.obj())
                    if o.k == 'MemberExpr' and o.short in members:
                        got.add(o.short)
            if not got:
                continue
            k += 1
            missing = sorted(set(members) - got)
            rep.check(not missing, 'R17.9', '%s::%s' % (cn.replace('soplex::', ''), f.short), f.where(), 'all of %s' % sorted(got),
                      '%s passes tolerances to %s but not to %s: assigning an object whose %s is not set up asks the destination vector for its epsilon (abort with assertions, epsilon 0 without)'
                      % (f.short, sorted(got), missing, missing[0] if missing else ''))
    if k < 4:
        raise AnalysisBroken('R17.9: only %d functions passing tolerances to member vectors found' % k)


GUARD_ACCEPTED = {
    'SLUFactorRational::assign|(old.l.rval.dim() != 0)':
        'in the rational LU the value vector and the index arrays are kept in step: setupRowVals() re-dimensions l.rval to mem + 1 (never 0) where it '
        'allocates the arrays, clear() re-dimensions it to 0 where it frees them',
}


def guard_is_resource(fb, rep):
    """R17.10: where a copy operation copies raw arrays of the source under a condition (memcpy from old.X inside an if), the condition tests those
    arrays themselves (old.X != nullptr / old.X) - not another member that is usually, but not always, in step with them.  (F73:
    SLUFactor::assign tested old.l.rval.empty() while the arrays can exist with an empty value vector and be freed with a non-empty one.)"""
    rep.rule('R17.10', 'a copy operation that copies raw source arrays under a condition tests those arrays in the condition', floor=1)
    k = 0
    for f in sorted(fb.funcs.values(), key=lambda g: (g.file, g.line)):
        if not f.name.startswith('soplex::') or not f.nodes or not (f.mk in ('copyassign', 'copyctor') or f.short in ('assign',)):
            continue
        src = f.params[0][0] if f.params else None
        if not src:
            continue
        for n in f.nodes:
            if n.k != 'IfStmt' or n.kid('then') is None:
                continue
            cp = [x for x in n.kid('then').walk() if x.k == 'CallExpr' and x.short == 'memcpy' and len(x.args()) >= 2 and render(strip(x.args()[1])).startswith(src + '.')]
            if not cp:
                continue
            # only the innermost governing if
            if any(a.k == 'IfStmt' and a.i != n.i and any(x.i == cp[0].i for x in a.walk()) and any(y.i == a.i for y in n.kid('then').walk()) for a in f.ancestors(cp[0])):
                continue
            cond = render(n.kid('cond'))
            if not re.search(r'\b%s\.' % re.escape(src), cond):
                continue          # a self-assignment test or a size test of the destination: nothing of the source's state is consulted
            k += 1
            arrays = sorted(set(render(strip(x.args()[1])) for x in cp))
            tested = [a for a in arrays if a in cond]
            acc = GUARD_ACCEPTED.get('%s|%s' % (f.name.replace('soplex::', ''), cond))
            if acc and not tested:
                rep.ok('R17.10', '%s|if(%s)' % (f.name.replace('soplex::', '')[:60], cond[:40]), '%s:%d' % (f.file, n.l), 'accepted: ' + acc)
                continue
            rep.check(bool(tested), 'R17.10', '%s|if(%s)' % (f.name.replace('soplex::', '')[:60], cond[:40]), '%s:%d' % (f.file, n.l), 'the condition tests %s' % tested,
                      'the arrays %s are copied under the condition `%s`, which does not look at any of them: when the two disagree the copy reads a null pointer or loses data' % (arrays[:3], cond[:60]))
    if k < 1:
        raise AnalysisBroken('R17.10: no conditional raw-array copy found in the copy operations')


def reseed(fb, rep):
    """R17.11: "solving the same unmodified object again after clearing its basis" repeats the first solve only if every piece of state the
    pivoting path depends on is back at its initial value.  One such piece is visible in the shape of the code: the solver's random number
    generator (SPxSolverBase::random), from which every perturbation / shift draws.  It is advanced by each draw and re-seeded only by
    setRandomSeed(); unless clearBasis() or the start of a from-scratch solve re-seeds it, the second solve sees other random numbers."""
    from engine import transitive_calls
    rep.rule('R17.11', 'the random number generator the simplex draws from is re-seeded where a from-scratch solve starts (clearBasis / optimize)', floor=1)
    draws = 0
    for f in fb.funcs.values():
        if f.cls and f.cls.startswith('soplex::SPxSolverBase<double>'):
            draws += sum(1 for n in f.nodes if n.k == 'CXXMemberCallExpr' and n.short == 'next' and n.obj() is not None and render(strip(n.obj())).endswith('random'))
    if draws < 10:
        raise AnalysisBroken('R17.11: only %d draws from SPxSolverBase::random found' % draws)

    def seeds(c):
        return c.k == 'CXXMemberCallExpr' and c.short == 'setSeed' and c.obj() is not None and 'random' in render(c.obj())
    for nm in ('clearBasis', 'optimize'):
        fs = [f for f in fb.find(C + '::' + nm) if f.nodes]
        if not fs:
            raise AnalysisBroken('R17.11: %s not found' % nm)
    cb = [f for f in fb.find(C + '::clearBasis') if f.nodes][0]
    op = [f for f in fb.find(C + '::optimize') if f.nodes][0]
    ok = transitive_calls(fb, cb, seeds, depth=5) or transitive_calls(fb, op, seeds, depth=5)
    rep.check(ok, 'R17.11', 'clearBasis|random-not-reseeded', cb.where(), 're-seeded on the from-scratch path',
              'the simplex draws from SPxSolverBase::random at %d places (perturbation, shifting) and neither clearBasis() nor optimize() ever re-seeds it: '
              'a second solve of the same object after clearBasis() runs with other random numbers than the first' % draws)
