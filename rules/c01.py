"""C01 — OPTIMAL is backed by a certificate in the user's problem space (plumbing clauses only)."""
import re
from engine import render, strip, Graph, Assume, must, reachable_events
from facts import AnalysisBroken, CALL_KINDS
import modifiers as M

EXPLANATION = (
    "Decides plumbing clauses only (what the simplex core computed is the thing handed to the user, in the user's space): R01.1 "
    "solution-vector kind agreement - at every call site in SoPlexBase of a producer / transformer / consumer of a solution vector "
    "(getPrimalSol, getSlacks, getDualSol, getRedCostSol, getPrimalray, getDualfarkas, unscale*, unsimplify, unsimplified*) the vector "
    "handed over is of the callee's kind (primal, slack, dual, reduced cost, primal ray, Farkas), and the public getters return the stored "
    "vector of their own kind; R01.2 store-path obligations in _storeSolutionReal: internal scaling is undone before the simplifier "
    "unsimplifies, an active simplifier always unsimplifies and all four vectors are then taken from it (or the LP is re-solved), "
    "persistent scaling is undone before the function returns, and _unscaleSolutionReal undoes all four vectors and both rays; R01.3 "
    "status provenance - inside SPxSolverBase::solve OPTIMAL is assigned only under `priced && maxinfeas + shift() <= tolerance` with no "
    "remaining shift (the documented 'termination despite violations' escape is listed as an accepted idiom, not as evidence), and the "
    "OPTIMAL arm of _evaluateSolutionReal verifies the stored solution whenever a transformation was active; R01.4 the objective value of "
    "an LP solved by presolve alone is computed from the user-space objective and offset. NOT decided: feasibility within tolerance, dual "
    "sign conditions, stationarity, 'every LP with a finite optimum is solved' - the numerical substance of the property.")

C = M.CLS
KIND_RE = [(r'_primalRay\b', 'primalray'), (r'_dualFarkas\b', 'farkas'), (r'_primal\b', 'primal'), (r'_slacks\b', 'slack'), (r'_dual\b', 'dual'), (r'_redCost\b', 'redcost')]
CALLEE_KIND = {'getPrimalSol': ['primal'], 'getSlacks': ['slack'], 'getDualSol': ['dual'], 'getRedCostSol': ['redcost'], 'getPrimalray': ['primalray'], 'getDualfarkas': ['farkas'],
               'unscalePrimal': [None, 'primal'], 'unscaleSlacks': [None, 'slack'], 'unscaleDual': [None, 'dual'], 'unscaleRedCost': [None, 'redcost'],
               'unscalePrimalray': [None, 'primalray'], 'unscaleDualray': [None, 'farkas'], 'unsimplify': ['primal', 'dual', 'slack', 'redcost']}
PRODUCER_KIND = {'unsimplifiedPrimal': 'primal', 'unsimplifiedSlacks': 'slack', 'unsimplifiedDual': 'dual', 'unsimplifiedRedCost': 'redcost'}
GETTER_KIND = {'getPrimal': 'primal', 'getPrimalReal': 'primal', 'getSlacksReal': 'slack', 'getDual': 'dual', 'getDualReal': 'dual', 'getRedCost': 'redcost', 'getRedCostReal': 'redcost',
               'getPrimalRay': 'primalray', 'getPrimalRayReal': 'primalray', 'getDualFarkas': 'farkas', 'getDualFarkasReal': 'farkas',
               'getPrimalRational': 'primal', 'getSlacksRational': 'slack', 'getDualRational': 'dual', 'getRedCostRational': 'redcost', 'getPrimalRayRational': 'primalray', 'getDualFarkasRational': 'farkas'}


def expr_kind(txt):
    for rx, k in KIND_RE:
        if re.search(rx, txt):
            return k
    return None


def kind_sites(fb, rep, rule, families):
    """evaluate vector-kind agreement for the kinds in `families`; returns number of instances"""
    n_inst = 0
    for f in sorted(fb.methods_of(C), key=lambda f: (f.file, f.line)):
        ordn = {}
        for n in f.nodes:
            if n.k == 'CXXMemberCallExpr' and n.short in CALLEE_KIND and not f.in_assert(n):
                kinds = CALLEE_KIND[n.short]
                args = n.args()
                for pos, want in enumerate(kinds):
                    if want is None or pos >= len(args) or want not in families:
                        continue
                    at = render(args[pos])
                    got = expr_kind(at)
                    ordn[n.short] = ordn.get(n.short, 0) + 1
                    key = '%s|%s#%d|arg%d' % (f.short, n.short, ordn[n.short], pos)
                    wh = '%s:%d' % (f.file, n.l)
                    n_inst += 1
                    if got is None:
                        rep.ok(rule, key, wh, '%s(%s): argument carries no kind' % (n.short, at[:40]), nontrivial=False)
                    else:
                        rep.check(got == want, rule, key, wh, '%s receives the %s vector' % (n.short, got),
                                  '%s expects the %s vector but is given %s (a %s vector): the user receives a vector that is not the one its name says' % (n.short, want, at[:50], got))
            if n.k in ('CXXOperatorCallExpr', 'BinaryOperator') and n.o == '=':
                l = render(n.kids[0] if n.k == 'BinaryOperator' else n.args()[0])
                r = n.kids[1] if n.k == 'BinaryOperator' else n.args()[1]
                prod = [x for x in r.walk() if x.k == 'CXXMemberCallExpr' and x.short in PRODUCER_KIND]
                if prod and expr_kind(l) in families:
                    want = PRODUCER_KIND[prod[0].short]
                    got = expr_kind(l)
                    n_inst += 1
                    rep.check(got == want, rule, '%s|%s = %s' % (f.short, l[-20:], prod[0].short), '%s:%d' % (f.file, n.l), '%s receives %s()' % (l, prod[0].short),
                              '%s (the %s vector) is assigned from %s(), which delivers the %s vector' % (l, got, prod[0].short, want))
        # public getters return their own kind
        if f.short in GETTER_KIND and GETTER_KIND[f.short] in families and f.acc == 'public':
            want = GETTER_KIND[f.short]
            srcs = set()
            for n in f.nodes:
                if n.k == 'MemberExpr' and n.dk == 'field' and not f.in_assert(n):
                    k = expr_kind(n.short)
                    if k and re.match(r'^_(primal|slacks|dual|redCost|primalRay|dualFarkas)$', n.short):
                        srcs.add(k)
            key = '%s(%s)|returns-own-kind' % (f.short, ','.join(M.short_t(t) for _, t in f.params)[:40])
            n_inst += 1
            if not srcs:
                rep.ok(rule, key, f.where(), 'delegates', nontrivial=False)
            else:
                rep.check(srcs == {want}, rule, key, f.where(), 'reads the stored %s vector' % want, '%s reads the stored %s vector(s), expected %s' % (f.short, sorted(srcs), want))
    return n_inst


def run(fb, rep, tier):
    _run(fb, rep, tier)
    sense_splits(fb, rep)
    pricing_domains(fb, rep)


def _run(fb, rep, tier):
    rep.extra['explanation'] = EXPLANATION
    rep.rule('R01.1', 'solution-vector kind agreement at every producer / transformer / consumer call site and in the public getters', floor=60)
    n = kind_sites(fb, rep, 'R01.1', ('primal', 'slack', 'dual', 'redcost'))
    if n < 60:
        raise AnalysisBroken('only %d solution-vector sites found' % n)

    # ------------------------------------------------------------------ R01.2
    rep.rule('R01.2', 'store path: unscale before unsimplify; an active simplifier always unsimplifies and all four vectors come from it; persistent scaling undone before return', floor=12)
    st = fb.one(C + '::_storeSolutionReal')
    w = st.where()
    g = Graph(st, None)
    uns = [n for n in st.nodes if n.k == 'CXXMemberCallExpr' and n.short == 'unsimplify' and M.obj_text(n) == '_simplifier']
    if len(uns) != 1:
        rep.unrec('R01.2', '_storeSolutionReal|unsimplify', w, 'expected one unsimplify call, found %d' % len(uns))
    else:
        ub = g.block_of(uns[0])
        A = Assume(atoms={'(_solver.isScaled() && !_isRealLPLoaded)': True, '_solver.isScaled()': True, '_isRealLPLoaded': False, '_simplifier != nullptr': True})
        ga = Graph(st, A)
        ok, path = ga.must_pass(lambda n: M.is_this_call(n, '_unscaleSolutionReal') and render(n.args()[0]) == '_solver', to=ub)
        rep.check(ok, 'R01.2', '_storeSolutionReal|unscale-before-unsimplify', '%s:%d' % (st.file, uns[0].l), 'with internal scaling the vectors are unscaled before unsimplify',
                  'a scaled solution reaches the simplifier\'s unsimplify(): the postsolve formulas work on the unscaled presolved LP')
        A2 = Assume(atoms={'_simplifier != nullptr': True})
        ok, path = Graph(st, A2).must_pass(lambda n: n.i == uns[0].i)
        rep.check(ok, 'R01.2', '_storeSolutionReal|simplifier-unsimplifies', '%s:%d' % (st.file, uns[0].l), 'with a simplifier every path calls unsimplify', 'a path with an active simplifier skips unsimplify(): the presolved vectors are returned')
        for fld, prod in (('_primal', 'unsimplifiedPrimal'), ('_slacks', 'unsimplifiedSlacks'), ('_dual', 'unsimplifiedDual'), ('_redCost', 'unsimplifiedRedCost')):
            def takes(n, fld=fld, prod=prod):
                if n.k in ('CXXOperatorCallExpr', 'BinaryOperator') and n.o == '=':
                    l = render(n.kids[0] if n.k == 'BinaryOperator' else n.args()[0])
                    r = render(n.kids[1] if n.k == 'BinaryOperator' else n.args()[1])
                    return l == '_solReal.' + fld and prod + '()' in r
                return False
            resolve = lambda n: M.is_this_call(n, '_preprocessAndSolveReal')
            ok, path = g.must_pass(lambda n: takes(n) or resolve(n), start=ub)
            rep.check(ok, 'R01.2', '_storeSolutionReal|after-unsimplify|' + fld, '%s:%d' % (st.file, uns[0].l), '_solReal.%s is taken from %s() (or the LP is re-solved)' % (fld, prod),
                      'after unsimplify() a path returns without copying %s() into _solReal.%s: the presolved vector stays' % (prod, fld))
        # order of the arguments of unsimplify is checked by R01.1; the basis comes from the simplifier too
        gb = [n for n in st.nodes if n.k == 'CXXMemberCallExpr' and n.short == 'getBasis' and M.obj_text(n) == '_simplifier' and (n.l, n.i) > (uns[0].l, uns[0].i)]
        rep.check(bool(gb), 'R01.2', '_storeSolutionReal|basis-from-simplifier', w, 'the unsimplified basis overwrites the presolved one', 'the basis of the presolved LP is kept after unsimplify')
    A3 = Assume(atoms={'_isRealLPScaled': True})
    ok, p, _ = must(st, A3, lambda n: M.is_this_call(n, '_unscaleSolutionReal') and render(n.args()[0]) == '*_realLP' and render(n.args()[1]) == 'true')
    # the re-solve path returns early after delegating to a fresh solve
    okr, pr, _ = must(st, A3, lambda n: (M.is_this_call(n, '_unscaleSolutionReal') and render(n.args()[0]) == '*_realLP') or M.is_this_call(n, '_preprocessAndSolveReal'))
    rep.check(okr, 'R01.2', '_storeSolutionReal|persistent-unscale', w, 'with persistent scaling the stored solution is unscaled before the function returns', 'a path returns a solution of the persistently scaled LP', path=pr)
    us = fb.one(C + '::_unscaleSolutionReal')
    for nm, guard in (('unscalePrimal', None), ('unscaleSlacks', None), ('unscaleDual', None), ('unscaleRedCost', None), ('unscalePrimalray', 'hasPrimalRay()'), ('unscaleDualray', 'hasDualFarkas()')):
        A4 = Assume(atoms={('_solReal.%s' % guard): True}) if guard else None
        ok, p, _ = must(us, A4, lambda n, nm=nm: n.k == 'CXXMemberCallExpr' and n.short == nm)
        rep.check(ok, 'R01.2', '_unscaleSolutionReal|' + nm, us.where(), '%s on every path%s' % (nm, (' with %s' % guard) if guard else ''), '%s is not applied%s: that vector stays in scaled space' % (nm, (' when %s' % guard) if guard else ''), path=p)
        for c in [n for n in us.nodes if n.k == 'CXXMemberCallExpr' and n.short == nm]:
            rep.check(render(c.args()[0]) == 'LP', 'R01.2', '_unscaleSolutionReal|%s|lp' % nm, '%s:%d' % (us.file, c.l), 'uses the LP it was given', '%s unscales with %s instead of the LP parameter' % (nm, render(c.args()[0])))

    # ------------------------------------------------------------------ R01.3
    rep.rule('R01.3', 'OPTIMAL is assigned by the simplex loop only under priced && maxinfeas + shift() <= tolerance with no shift left; the OPTIMAL arm verifies a transformed solution', floor=5)
    S = 'soplex::SPxSolverBase<double>'
    solve = fb.one(S + '::solve')
    asg = [n for n in solve.nodes if n.k == 'BinaryOperator' and n.o == '=' and render(n) == '(m_status = OPTIMAL)']
    if len(asg) < 4:
        raise AnalysisBroken('solve(): only %d assignments of OPTIMAL found' % len(asg))
    for k, n in enumerate(asg):
        conds = [(render(a.kid('cond')), any(x.i == n.i for x in a.kid('then').walk())) for a in solve.ancestors(n) if a.k == 'IfStmt']
        pos = [c for c, t in conds if t]
        main = [c for c in pos if re.match(r'^\(priced && \(\(maxinfeas \+ shift\(\)\) <= (entertol|leavetol)\(\)\)\)$', c)]
        noshift = any(c == '(shift() <= epsilon())' for c in pos)
        escape = any('1.0E+9' in c or '1000000000' in c or '1e9' in c.lower() for c in pos) and any('loopCount > 2' in c for c, t in conds)
        key = 'solve|OPTIMAL#%d' % k
        wh = '%s:%d' % (solve.file, n.l)
        if main and noshift:
            rep.ok('R01.3', key, wh, 'under %s and shift() <= epsilon()' % main[0])
        elif escape and noshift:
            rep.ok('R01.3', key, wh, 'documented escape: termination despite violations when the problem ranges reach 1e9 after more than two loops', nontrivial=False)
            rep.accepted_idioms.append('%s: OPTIMAL despite violations when max(boundrange, siderange, objrange) >= 1e9 and loopCount > 2 (reported, not taken as evidence)' % wh)
        else:
            rep.bad('R01.3', key, wh, 'OPTIMAL is assigned under %s: neither `priced && maxinfeas + shift() <= tolerance` with shift() <= epsilon() nor the documented escape' % pos[:3])
    ev = fb.one(C + '::_evaluateSolutionReal')
    opt_store = [n for n in ev.nodes if M.is_this_call(n, '_storeSolutionReal') and render(n.args()[0]) not in ('true', 'false')]
    rep.check(any(render(n.args()[0]) == '(!_isRealLPLoaded || _isRealLPScaled)' for n in opt_store), 'R01.3', '_evaluateSolutionReal|OPTIMAL-verifies', ev.where(), 'an OPTIMAL solution of a transformed LP is verified on the original',
              'the OPTIMAL arm stores the solution without verifying it when presolve / scaling was active (%s)' % [render(n.args()[0]) for n in opt_store])

    # ------------------------------------------------------------------ R01.4
    rep.rule('R01.4', 'objective of a vanished LP: user offset + sum of primal * user-space objective', floor=2)
    sp = fb.one(C + '::_storeSolutionRealFromPresol')
    init = [n for n in sp.nodes if n.k == 'VarDecl' and 'StableSum' in n.t and 'realParam(OBJ_OFFSET)' in render(n)]
    term = [n for n in sp.nodes if n.k == 'CXXOperatorCallExpr' and n.o == '+=' and '_solReal._primal[i]' in render(n)]
    rep.check(bool(init), 'R01.4', '_storeSolutionRealFromPresol|offset', sp.where(), 'sum starts at OBJ_OFFSET', 'the objective of a vanished LP does not start from the objective offset')
    rep.check(bool(term) and all('objReal(i)' in render(n) for n in term), 'R01.4', '_storeSolutionRealFromPresol|user-space-objective', sp.where(), 'primal[i] * objReal(i)',
              'the objective of a vanished LP is summed with %s instead of the user-space coefficient objReal(i): with scaling active the value is off by powers of two' % (render(term[0])[:70] if term else '?'))


def sense_splits(fb, rep):
    """R01.5: minimisation and maximisation differ by signs everywhere a solution vector, a violation or an objective value is produced.
    An if / else (or ?:) that splits on the objective sense and has two identical arms ignores the sense: one of the two senses gets the
    other one's sign (dual multipliers, reduced costs, objective value)."""
    rep.rule('R01.5', 'the two arms of every split on the objective sense differ', floor=20)
    k = 0
    pat = re.compile(r'MINIMIZE|MAXIMIZE|\bmaximizing\b|\bminimizing\b|maxSense')
    for f in sorted(fb.funcs.values(), key=lambda g: (g.file, g.line)):
        if not f.name.startswith('soplex::') or not f.nodes:
            continue
        for x in f.nodes:
            if f.in_assert(x):
                continue
            if x.k == 'IfStmt' and x.kid('else') is not None:
                a, b = x.kid('then'), x.kid('else')
            elif x.k == 'ConditionalOperator' and x.kid('then') is not None and x.kid('else') is not None:
                a, b = x.kid('then'), x.kid('else')
            else:
                continue
            c = render(x.kid('cond'))
            if not pat.search(c) or '&&' in c or '||' in c:
                continue
            k += 1
            same = render(a) == render(b)
            rep.check(not same, 'R01.5', '%s|split(%s)@%d' % (f.name.replace('soplex::', '')[:50], c[:30], k), '%s:%d' % (f.file, x.l), 'arms differ',
                      'both arms of the split on the objective sense (%s) are `%s`: the sense is ignored, so for one of the two senses the value has the wrong sign' % (c[:50], render(a)[:60]))
    if k < 20:
        raise AnalysisBroken('R01.5: only %d splits on the objective sense found' % k)


SOLVER_VECTOR_DOMAIN = {
    # indexed 0 .. dim()-1 : the basis positions / the co-vectors
    'coTest': 'dim', 'fTest': 'dim', 'coId': 'dim', 'fVec': 'dim', 'coPvec': 'dim', 'isInfeasible': 'dim', 'coWeights': 'dim',
    # indexed 0 .. coDim()-1 : the vectors
    'test': 'coDim', 'id': 'coDim', 'pVec': 'coDim', 'isInfeasibleCo': 'coDim', 'weights': 'coDim',
}


def pricing_domains(fb, rep):
    """R01.6: completeness of pricing ("every LP that has a finite optimum is solved to OPTIMAL") needs every candidate to be looked at.
    In the pricers and ratio testers a loop over 0 .. thesolver->dim()-1 may subscript only the solver vectors of that dimension
    (coTest, fTest, coId, ...), a loop over coDim() only test, id, pVec, ... (table confirmed against the declarations in spxsolver.h);
    local pointers / references are resolved to the accessor they were initialised from."""
    rep.rule('R01.6', 'pricers and ratio testers subscript each solver vector inside a loop over that vector\'s own dimension (dim / coDim)', floor=20)
    k = 0
    for f in sorted(fb.funcs.values(), key=lambda g: (g.name, g.sig)):
        if not re.match(r'^soplex::SPx\w+(PR|RT)<double>::', f.name) or not f.nodes:
            continue

        def accessor(e, depth=0):
            e = strip(e)
            if e is None or depth > 3:
                return None
            if e.k == 'CXXMemberCallExpr' and e.short in SOLVER_VECTOR_DOMAIN and e.obj() is not None and re.search(r'thesolver|solver\(\)', render(e.obj())):
                return e.short
            if e.k == 'MemberExpr' and e.short in SOLVER_VECTOR_DOMAIN and re.search(r'thesolver|solver\(\)', render(e)):
                return e.short
            if e.k == 'CXXMemberCallExpr' and e.short in ('get_const_ptr', 'get_ptr') and e.obj() is not None:
                return accessor(e.obj(), depth + 1)
            if e.k == 'DeclRefExpr' and e.dk == 'local':
                d = [x for x in f.nodes if x.k == 'VarDecl' and x.u == e.u and x.c]
                return accessor(d[0].kids[0], depth + 1) if d else None
            return None
        for lp in f.nodes:
            if lp.k != 'ForStmt' or lp.kid('cond') is None or lp.kid('body') is None:
                continue
            init = render(lp.kid('init')) if lp.kid('init') is not None else ''
            cond = render(lp.kid('cond'))
            m = re.search(r'(?:thesolver|solver\(\))->(dim|coDim)\(\)', init + ' ' + cond)
            if not m:
                continue
            dom = m.group(1)
            iv = None
            for x in (lp.kid('init').walk() if lp.kid('init') is not None else []):
                if x.k == 'VarDecl':
                    iv = x.n
            if iv is None:
                mm = re.match(r'^\(?(\w+) =', init)
                iv = mm.group(1) if mm else None
            if iv is None:
                continue
            for x in lp.kid('body').walk():
                name = None
                if x.k in ('CXXOperatorCallExpr', 'ArraySubscriptExpr'):
                    a = x.args() if x.k == 'CXXOperatorCallExpr' else x.kids
                    if len(a) >= 2 and render(strip(a[1])) == iv:
                        name = accessor(a[0])
                elif x.k == 'CXXMemberCallExpr' and x.short in ('id', 'coId') and x.args() and render(strip(x.args()[0])) == iv and x.obj() is not None and re.search(r'thesolver|solver\(\)', render(x.obj())):
                    name = x.short
                if name is None:
                    continue
                k += 1
                want = SOLVER_VECTOR_DOMAIN[name]
                rep.check(want == dom, 'R01.6', '%s|loop over %s|%s[%s]@%d' % (f.name.replace('soplex::', '')[:40], dom, name, iv, x.l), '%s:%d' % (f.file, x.l), '%s is indexed over %s()' % (name, want),
                          'the loop runs over 0..thesolver->%s()-1 but subscripts %s, which has %s() entries: candidates beyond the smaller dimension are never priced (or the vector is read out of range)' % (dom, name, want))
    if k < 20:
        raise AnalysisBroken('R01.6: only %d subscripts of solver vectors in pricer / ratio tester loops found' % k)
