"""C08 — presolve verdicts and postsolve (bookkeeping clauses)."""
import re
from engine import render, strip, Graph, Assume, must, case_arm_nodes
from facts import AnalysisBroken, CALL_KINDS
import modifiers as M

EXPLANATION = (
    "Decides the bookkeeping clauses of C08 in SPxMainSM: R08.1 record before remove - every removeRow / removeCol call of a reduction is "
    "dominated, on the back-edge-free CFG and inside the same innermost loop iteration, by an m_hist.append (or by fixColumn, which always "
    "appends): a row or column that disappears without a post-step can never be restored; R08.2 re-insertion - a post-step that shifts the "
    "entry that took the removed row's (column's) place back to its old index (X[m_old_i] = X[m_i]) does so for all three of slack, dual and "
    "row status (primal, reduced cost and column status) and then assigns all three at the re-inserted index on every non-throwing path; "
    "R08.3 completeness - every PostStep class is concrete, overrides execute and clone, clone() copies its own class; unsimplify() "
    "executes the recorded steps from last to first over the whole history; every Result the simplifier can return is mapped by "
    "_evaluateSolutionReal, verdicts never map to OPTIMAL, and a VANISHED problem is reconstructed from the presolver alone; R08.4 the "
    "objective offset of the reduced LP (simplifier offset + user offset) is installed before the reduced LP is solved; R08.5 the Result of "
    "every reduction call is examined; R08.6 a reduction that tightens a bound with a row-derived value tests lower > upper before it "
    "returns OKAY; R08.7 (sibling agreement over the post-step classes) a branch that makes a variable basic and zeroes its reduced "
    "cost also assigns the dual of the re-inserted row. NOT decided: "
    "that each reduction is valid and each undo formula is right - the substance of the property; basis-count conservation per post-step "
    "(tried as an abstract interpretation, withdrawn: loops with data-dependent trip counts in 3 of 16 classes).")

S = 'soplex::SPxMainSM<double>'
C = M.CLS


def this_call(names):
    return lambda n: n.k == 'CXXMemberCallExpr' and n.short in names and n.obj() is not None and n.obj().k == 'CXXThisExpr'


def innermost_loop(f, n):
    for a in f.ancestors(n):
        if a.k in ('ForStmt', 'WhileStmt', 'DoStmt'):
            return a
    return None


def run(fb, rep, tier):
    _run(fb, rep, tier)
    verdicts_and_bounds(fb, rep)
    objective_sign_tests(fb, rep)
    slack_completeness(fb, rep)
    offset_sense(fb, rep)
    fixed_kept_variable(fb, rep)
    dual_transfer(fb, rep)


def _run(fb, rep, tier):
    rep.extra['explanation'] = EXPLANATION
    rep.rule('R08.1', 'every removeRow/removeCol of a reduction is preceded in its loop iteration by an m_hist.append or fixColumn', floor=20)
    is_append = lambda n: (n.k == 'CXXMemberCallExpr' and n.short == 'append' and n.obj() is not None and 'm_hist' in render(n.obj())) or this_call(('fixColumn',))(n)
    nrm = 0
    for f in sorted(fb.methods_of(S), key=lambda f: f.line):
        rms = [n for n in f.nodes if this_call(('removeRow', 'removeCol'))(n)]
        if not rms:
            continue
        g = Graph(f, None, drop_back_edges=True)
        dom = g.dominators()
        hit = g.blocks_with(is_append)
        ordn = {}
        for n in rms:
            nrm += 1
            b = g.block_of(n)
            lp = innermost_loop(f, n)
            ok = False
            for hb in hit & dom.get(b, set()):
                # an append in that block that precedes the removal and lies in the same innermost loop
                for e in g.blocks[hb].e:
                    x = f.nodes[e]
                    if is_append(x) and (x.l, x.i) < (n.l, n.i):
                        xl = innermost_loop(f, x)
                        # the record is made in the same iteration: its innermost loop is the removal's loop or one that
                        # encloses it (one post-step may cover an inner loop of removals)
                        if lp is None or xl is None and False or (xl is not None and (xl.i == lp.i or any(y.i == lp.i for y in xl.walk()))):
                            ok = True
            ordn[n.short] = ordn.get(n.short, 0) + 1
            rep.check(ok, 'R08.1', '%s|%s#%d' % (f.short, n.short, ordn[n.short]), '%s:%d' % (f.file, n.l), 'a post-step is recorded before %s' % render(n),
                      '%s is not dominated by an m_hist.append in its loop iteration: the %s disappears from the LP without a post-step and can never be restored' % (render(n), 'row' if n.short == 'removeRow' else 'column'))
    if nrm < 20:
        raise AnalysisBroken('only %d removeRow/removeCol calls found in SPxMainSM' % nrm)

    # ------------------------------------------------------------------ R08.2
    rep.rule('R08.2', 'post-steps: complete index shift and definite assignment at the re-inserted row / column', floor=40)
    ps = sorted(c for c in fb.classes if c.startswith(S + '::') and c.endswith('PS'))
    if len(ps) < 16:
        raise AnalysisBroken('only %d PostStep classes found' % len(ps))
    for cls in ps:
        fs = [f for f in fb.methods_of(cls) if f.short == 'execute']
        if len(fs) != 1:
            rep.bad('R08.2', cls.split('::')[-1] + '|execute', fb.classes[cls]['file'], 'no execute() body')
            continue
        f = fs[0]
        short = cls.split('::')[-1]
        writes = {}
        for n in f.nodes:
            if n.k in ('BinaryOperator', 'CXXOperatorCallExpr') and n.o == '=' and not f.in_assert(n):
                l = render(n.kids[0] if n.k == 'BinaryOperator' else n.args()[0])
                r = render(n.kids[1] if n.k == 'BinaryOperator' else n.args()[1])
                m = re.match(r'^(x|y|s|r|rStatus|cStatus)\[(\w+)\]$', l)
                if m:
                    writes.setdefault((m.group(1), m.group(2)), []).append((n, r))
        for vecs, old, new, what in ((('s', 'y', 'rStatus'), 'm_old_i', 'm_i', 'row'), (('x', 'r', 'cStatus'), 'm_old_j', 'm_j', 'column')):
            shifts = {v: [w for w in writes.get((v, old), []) if w[1] == '%s[%s]' % (v, new)] for v in vecs}
            if not any(shifts.values()):
                continue
            miss = [v for v in vecs if not shifts[v]]
            rep.check(not miss, 'R08.2', '%s|%s-shift' % (short, what), f.where(), 'all of %s are shifted from %s to %s' % (vecs, new, old),
                      'the %s that took the removed %s\'s place is moved back for %s but not for %s: its %s stays at the wrong index' % (what, what, [v for v in vecs if shifts[v]], miss, miss))
            if miss:
                continue
            g = Graph(f, None)
            # input assumption: statuses handed to a post-step are defined, so the default: arm of a switch over a status
            # (reached only for UNDEFINED) is not a path that must satisfy the obligation
            dead = set()
            for b in g.blocks.values():
                if b.lab is not None and f.nodes[b.lab].k == 'DefaultStmt':
                    sw = f.nodes[b.lab].parent
                    while sw is not None and sw.k != 'SwitchStmt':
                        sw = sw.parent
                    if sw is not None and re.match(r'^(c|r)Status\[', render(sw.kid('cond'))):
                        dead.add(b.id)
            for b in g.succ:
                g.succ[b] = [x for x in g.succ[b] if x not in dead]
            last_shift = max((w[0] for v in vecs for w in shifts[v]), key=lambda n: (n.l, n.i))
            sb = g.block_of(last_shift)
            for v in vecs:
                def assigns(n, v=v):
                    if n.k in ('BinaryOperator', 'CXXOperatorCallExpr') and n.o == '=':
                        l = render(n.kids[0] if n.k == 'BinaryOperator' else n.args()[0])
                        return l == '%s[%s]' % (v, new) and (n.l, n.i) > (last_shift.l, last_shift.i)
                    return False
                ok, path = g.must_pass(assigns, start=sb)
                if not ok and any(assigns(n) and innermost_loop(f, n) is not None for n in f.nodes):
                    rep.not_decided.append('R08.2: %s: %s[%s] is assigned inside a loop with a data-dependent trip count; definite assignment is not decided path-insensitively' % (short, v, new))
                    continue
                rep.check(ok, 'R08.2', '%s|%s|%s[%s]-assigned' % (short, what, v, new), f.where(), '%s[%s] is assigned on every path after the shift' % (v, new),
                          'after the shift, %s[%s] still holds the moved %s\'s value on a path to the end of execute() (lines %s)' % (v, new, what, g.path_lines(path)[:8] if path else ''))

    # ------------------------------------------------------------------ R08.3
    rep.rule('R08.3', 'PostStep classes are concrete with own execute/clone; unsimplify runs the history backwards; simplifier results are all mapped', floor=50)
    for cls in ps:
        c = fb.classes[cls]
        short = cls.split('::')[-1]
        rep.check(not c['abstract'], 'R08.3', short + '|concrete', c['file'], 'not abstract', '%s is abstract' % short)
        for m in ('execute', 'clone'):
            own = [x for x in c['methods'] if x['n'] == m and x.get('virtual')]
            rep.check(bool(own), 'R08.3', '%s|overrides-%s' % (short, m), c['file'], 'overrides %s' % m, '%s does not override %s()' % (short, m))
        cl = [f for f in fb.methods_of(cls) if f.short == 'clone']
        for f in cl:
            news = [n for n in f.nodes if n.k == 'CXXNewExpr']
            rep.check(len(news) == 1 and news[0].x.get('at', '').endswith('::' + short), 'R08.3', short + '|clone-own-type', f.where(), 'clone() creates a %s' % short,
                      'clone() creates %s' % [n.x.get('at') for n in news])
    un = fb.one(S + '::unsimplify')
    loops = [n for n in un.nodes if n.k == 'ForStmt' and any(x.k == 'CXXMemberCallExpr' and x.short == 'execute' for x in n.walk())]
    if len(loops) != 1:
        rep.unrec('R08.3', 'unsimplify|history-loop', un.where(), 'loop over m_hist not found')
    else:
        lp = loops[0]
        it, ct, inc = render(lp.kid('init')), render(lp.kid('cond')), render(lp.kid('inc'))
        rep.check('(m_hist.size() - 1)' in it and '>= 0' in ct and ('--' in inc), 'R08.3', 'unsimplify|backwards-over-all', '%s:%d' % (un.file, lp.l), 'for(k = size-1; k >= 0; --k)',
                  'the history is not executed from the last step to the first over all steps: init `%s`, cond `%s`, inc `%s`' % (it, ct, inc))
        ex = [x for x in lp.walk() if x.k == 'CXXMemberCallExpr' and x.short == 'execute']
        a = [render(y) for y in ex[0].args()][:6]
        rep.check(a[:6] == ['m_prim', 'm_dual', 'm_slack', 'm_redCost', 'm_cBasisStat', 'm_rBasisStat'], 'R08.3', 'unsimplify|execute-arguments', '%s:%d' % (un.file, ex[0].l), 'execute(x, y, s, r, cStatus, rStatus)',
                  'execute is called with %s, expected (m_prim, m_dual, m_slack, m_redCost, m_cBasisStat, m_rBasisStat)' % a)
    # execute signature order matches: (x, y, s, r, cBasis, rBasis, isOptimal)
    for cls in ps:
        for f in [g for g in fb.methods_of(cls) if g.short == 'execute']:
            names = [p[0] for p in f.params][:6]
            rep.check(all(a == b or a == '' for a, b in zip(names, ['x', 'y', 's', 'r', 'cStatus', 'rStatus'])) and len(names) == 6, 'R08.3', cls.split('::')[-1] + '|execute-signature', f.where(), 'execute(x, y, s, r, cStatus, rStatus, ...)', 'parameter order is %s' % names)
    # result mapping
    ev = fb.one(C + '::_evaluateSolutionReal')
    enum = fb.enums.get('soplex::SPxSimplifier<double>::Result')
    if enum is None:
        raise AnalysisBroken('enum SPxSimplifier::Result not found')
    sw = [n for n in ev.nodes if n.k == 'SwitchStmt' and render(n.kid('cond')) == 'simplificationStatus']
    if len(sw) != 1:
        rep.unrec('R08.3', '_evaluateSolutionReal|switch', ev.where(), 'switch(simplificationStatus) not found')
    else:
        cases = {}
        for c in sw[0].walk():
            if c.k == 'CaseStmt':
                cases[c.v] = c
        # which results can simplify() return?
        simp = fb.one(S + '::simplify')
        returned = set()
        for n in simp.nodes:
            if n.k == 'ReturnStmt' and n.c:
                for x in n.walk():
                    if x.k == 'DeclRefExpr' and x.dk == 'enum' and 'SPxSimplifier' in (x.n or ''):
                        returned.add(x.short)
                    if x.k == 'MemberExpr' and x.short == 'm_result':
                        returned.add('m_result')
        for name, val in enum['items']:
            handled = val in cases
            rep.check(handled, 'R08.3', '_evaluateSolutionReal|handles|' + name, ev.where(), 'case %s' % name, 'simplifier result %s has no case: it falls through to the solver-status switch with a stale status' % name)
        # an UNBOUNDED of the simplifier (improving direction, feasibility unknown) may only become INForUNBD without a solve (F60)
        want = {'INFEASIBLE': 'INFEASIBLE', 'UNBOUNDED': 'INForUNBD', 'DUAL_INFEASIBLE': 'INForUNBD'}
        arm = case_arm_nodes(ev, cases[dict(enum['items'])['INFEASIBLE']]) if dict(enum['items'])['INFEASIBLE'] in cases else []
        for res, st in sorted(want.items()):
            asg = [x for x in arm if x.k == 'BinaryOperator' and x.o == '=' and render(x.kids[0]) == '_status' and render(x.kids[1]) == st]
            good = False
            for x in asg:
                conds = [render(a.kid('cond')) for a in ev.ancestors(x) if a.k == 'IfStmt']
                if res in ('DUAL_INFEASIBLE', 'UNBOUNDED'):
                    good = good or all(('== INFEASIBLE' in c or '== UNBOUNDED' in c or 'ENSURERAY' in c) for c in conds)
                else:
                    good = good or any(c == '(simplificationStatus == %s)' % res for c in conds)
            rep.check(good, 'R08.3', '_evaluateSolutionReal|verdict|' + res, ev.where(), '%s -> %s' % (res, st), 'simplifier verdict %s is not mapped to status %s' % (res, st))
        opt = [x for x in arm if x.k == 'BinaryOperator' and x.o == '=' and render(x.kids[0]) == '_status' and render(x.kids[1]) == 'OPTIMAL']
        rep.check(not opt, 'R08.3', '_evaluateSolutionReal|verdict-never-optimal', ev.where(), 'no verdict arm assigns OPTIMAL', 'a presolve verdict arm assigns OPTIMAL')
        van = case_arm_nodes(ev, cases[dict(enum['items'])['VANISHED']]) if dict(enum['items'])['VANISHED'] in cases else []
        rep.check(any(M.is_this_call(x, '_storeSolutionRealFromPresol') for x in van) and any(x.k == 'BinaryOperator' and render(x) == '(_status = OPTIMAL)' for x in van), 'R08.3', '_evaluateSolutionReal|VANISHED', ev.where(),
                  'VANISHED -> OPTIMAL with the solution reconstructed from the presolver', 'a vanished problem is not reconstructed by _storeSolutionRealFromPresol')

    # ------------------------------------------------------------------ R08.4
    rep.rule('R08.4', 'the objective offset of the reduced LP is simplifier offset + user offset, installed before the reduced LP is solved', floor=2)
    f = fb.one(C + '::_preprocessAndSolveReal')
    offs = [n for n in f.nodes if n.k == 'CXXMemberCallExpr' and n.short == 'changeObjOffset' and M.obj_text(n) == '_solver']
    both = [n for n in offs if 'getObjoffset()' in render(n) and 'realParam(OBJ_OFFSET)' in render(n)]
    rep.check(bool(both), 'R08.4', '_preprocessAndSolveReal|offset-sum', f.where(), render(both[0]) if both else '', 'no changeObjOffset(simplifier offset + OBJ_OFFSET) found: the objective value of a presolved LP is off by the removed part')
    if both:
        g = Graph(f, None)
        sol = [n for n in f.nodes if M.is_this_call(n, '_solveRealLPAndRecordStatistics')]
        okb = all((both[0].l, both[0].i) < (s.l, s.i) for s in sol) and bool(sol)
        A = Assume(atoms={'(simplificationStatus == OKAY)': True, '_simplifier != nullptr': True})
        rep.check(okb, 'R08.4', '_preprocessAndSolveReal|offset-before-solve', '%s:%d' % (f.file, both[0].l), 'offset installed before the solve', 'the offset is installed after the reduced LP has been solved')
    sp = fb.one(C + '::_storeSolutionRealFromPresol')
    init = [n for n in sp.nodes if n.k == 'VarDecl' and 'StableSum' in n.t and 'realParam(OBJ_OFFSET)' in render(n)]
    term = [n for n in sp.nodes if n.k in ('CXXOperatorCallExpr',) and n.o == '+=' and 'objReal(i)' in render(n) and '_primal[i]' in render(n)]
    rep.check(bool(init) and bool(term), 'R08.4', '_storeSolutionRealFromPresol|objective', sp.where(), 'objective = OBJ_OFFSET + sum primal[i] * objReal(i)',
              'the objective of a vanished problem is not OBJ_OFFSET + sum of _solReal._primal[i] * objReal(i) (user-space objective coefficients)')


def verdicts_and_bounds(fb, rep):
    """R08.5 error discipline: every call of a reduction that returns SPxSimplifier::Result has its result examined (stored, compared
    or returned) - an INFEASIBLE / UNBOUNDED verdict must not be dropped.
    R08.6 a reduction that tightens a column bound with a value derived from a row (not a constant, not the column's own other bound,
    not a sum of own bounds) tests lower > upper on that column before it returns OKAY: no later reduction is guaranteed to look again."""
    S = 'soplex::SPxMainSM<double>'
    rep.rule('R08.5', 'the Result of every reduction call inside the simplifier is examined (stored, compared or returned)', floor=10)
    k5 = 0
    for f in fb.methods_of(S):
        for n in f.nodes:
            if not (n.is_call() and n.u in fb.funcs and 'Result' in (fb.funcs[n.u].ret or '') and fb.funcs[n.u].cls == S):
                continue
            k5 += 1
            p_ = n.parent
            while p_ is not None and p_.k in ('ImplicitCastExpr', 'ParenExpr', 'ExprWithCleanups'):
                p_ = p_.parent
            used = p_ is not None and (p_.k in ('VarDecl', 'BinaryOperator', 'ReturnStmt', 'CXXOperatorCallExpr') or (p_.k in ('IfStmt', 'WhileStmt', 'SwitchStmt') and p_.kid('cond') is not None and any(x.i == n.i for x in p_.kid('cond').walk())))
            rep.check(used, 'R08.5', '%s|%s@%d' % (f.short, n.short, k5), '%s:%d' % (f.file, n.l), 'result examined (%s)' % (p_.k if p_ is not None else ''),
                      '%s calls %s and drops its Result: an INFEASIBLE / UNBOUNDED verdict of the reduction is lost and the simplification continues on an inconsistent LP' % (f.short, n.short))
    if k5 < 10:
        raise AnalysisBroken('R08.5: only %d reduction calls found' % k5)

    rep.rule('R08.6', 'a reduction that tightens a column bound with a value derived from a row tests lower > upper on that column before it returns OKAY', floor=6)
    k6 = 0

    def hook(node, txt):
        # x >= -infinity is always true (propagatePseudoobj returns at once)
        if re.match(r'^\(?.* >= \(?(\(double\))?-infinity\)?\)?$', txt) and '&&' not in txt and '||' not in txt:
            return True
        return None
    for f in fb.methods_of(S):
        if not f.nodes or 'Result' not in (f.ret or ''):
            continue
        g = None
        for n in f.nodes:
            if not (n.k == 'CXXMemberCallExpr' and n.short in ('changeLower', 'changeUpper') and n.obj() is not None and render(n.obj()) == 'lp' and len(n.args()) >= 2):
                continue
            col = render(strip(n.args()[0]))
            val = render(strip(n.args()[1]))
            own = re.search(r'lp\.(lower|upper)\(%s\)' % re.escape(col), val) is not None
            const = re.match(r'^\(?(\(double\))?-?(infinity|0|0\.0)\)?$', val) is not None
            if own or const:
                continue
            if g is None:
                g = Graph(f, Assume(hook=hook))
            b = g.block_of(n)
            if b is None or b not in g.reach(g.entry):
                continue
            k6 += 1
            crossing = lambda x, col=col: x.k == 'CallExpr' and x.short in ('GT', 'GTrel', 'LT', 'LTrel') and ('lp.lower(%s)' % col) in render(x) and ('lp.upper(%s)' % col) in render(x)
            ok, path = g.must_pass(crossing, start=b)
            # a test in the same block only counts if it follows the change
            if ok and b in g.blocks_with(crossing) and not any(crossing(x) and x.i > n.i for x in f.nodes if g.block_of(x) == b):
                ok = all(g.must_pass(crossing, start=s_)[0] for s_ in g.succ[b])
            rep.check(ok, 'R08.6', '%s|%s(%s, %s)' % (f.short, n.short, col, val[:20]), '%s:%d' % (f.file, n.l), 'lower > upper is tested before the reduction returns',
                      '%s tightens the bound of x%s to %s (derived from a row) and can return OKAY without testing lower > upper (lines %s): the simplified LP may reach the solver with contradictory bounds' % (f.short, col, val[:30], g.path_lines(path)[:8] if path else ''))
    if k6 < 6:
        raise AnalysisBroken('R08.6: only %d row-derived bound tightenings found' % k6)


def dual_transfer(fb, rep):
    """R08.7 (sibling agreement over all post-step classes): a branch of execute() that turns a variable BASIC and sets its reduced cost
    to zero has taken that reduced cost away from the variable - by r = c - A^T y it must go into the dual of the row the step re-inserts,
    so the same branch assigns y[..].  (RowSingletonPS, ForceConstraintPS, DoubletonEquationPS all do; AggregationPS did not: F58.)"""
    rep.rule('R08.7', 'a post-step branch that makes a variable BASIC and zeroes its reduced cost also assigns the dual of the re-inserted row', floor=8)
    k = 0
    for f in sorted(fb.funcs.values(), key=lambda g: g.name):
        if not re.match(r'^soplex::SPxMainSM<double>::\w+PS::execute$', f.name):
            continue
        cls = f.name.split('::')[-2]
        for n in f.nodes:
            if n.k != 'IfStmt':
                continue
            for arm in ('then', 'else'):
                a = n.kid(arm)
                if a is None or a.k == 'IfStmt':
                    continue
                direct = []
                for x in a.walk():
                    if x.k in ('BinaryOperator', 'CompoundAssignOperator') and x.o in ('=', '+=', '-='):
                        anc = [y for y in f.ancestors(x) if y.k == 'IfStmt']
                        if anc and anc[0].i == n.i:
                            direct.append(x)
                basic = [x for x in direct if re.match(r'^\(?cStatus\[.*\] = BASIC', render(x))]
                rz = [x for x in direct if re.match(r'^\(?r\[.*\] = (\(double\))?0', render(x))]
                if not basic or not rz:
                    continue
                # same variable
                bv = set(re.match(r'^\(?cStatus\[(.*?)\]', render(x)).group(1) for x in basic)
                rv = set(re.match(r'^\(?r\[(.*?)\]', render(x)).group(1) for x in rz)
                if not (bv & rv):
                    continue
                k += 1
                yw = [x for x in direct if re.match(r'^\(?y\[', render(x))]
                rep.check(bool(yw), 'R08.7', '%s::execute|%s branch at %d|%s' % (cls, arm, n.l, sorted(bv & rv)[0]), '%s:%d' % (f.file, n.l), 'dual assigned: %s' % (render(yw[0])[:40] if yw else ''),
                          'the branch makes %s basic and sets r[%s] = 0 but leaves the dual of the re-inserted row as it was computed for the other case: the returned duals violate r = c - A^T y' % (sorted(bv & rv)[0], sorted(bv & rv)[0]))
    if k < 8:
        raise AnalysisBroken('R08.7: only %d basic-and-zero-reduced-cost branches found in the post-steps' % k)


def objective_sign_tests(fb, rep):
    """R08.8: the simplifier reasons about "does this column want to grow or to shrink"; that depends on the optimisation sense, which is why the
    reductions read the objective as maxObj() (the coefficient of the equivalent maximisation problem) and the post-steps through
    `sense == MINIMIZE ? obj : -obj`.  A sign test (comparison with zero, directly or through GT/LT/GE/LE) on a value that was computed from the
    raw coefficient obj() ignores the sense: for one of the two senses an unbounded column is taken for a bounded one and vice versa."""
    rep.rule('R08.8', 'in the simplifier a sign test on an objective coefficient reads it sense-normalised (maxObj() or a sense ternary), never as raw obj()', floor=10)
    SENSE = re.compile(r'MINIMIZE|MAXIMIZE|maxSense|m_thesense')
    k = 0
    ctl = 0
    for f in sorted(fb.funcs.values(), key=lambda g: (g.file, g.line, g.name)):
        isctl = f.name.startswith('verif_ctl::raw_objective_sign_test')
        if not (isctl or (f.file.endswith(('spxmainsm.hpp', 'spxmainsm.h')) and f.name.startswith('soplex::'))) or not f.nodes:
            continue

        def raw(e):
            """does e contain a raw obj() read that is not inside a sense ternary?"""
            for x in e.walk():
                if x.is_call() and x.short == 'obj' and x.k == 'CXXMemberCallExpr':
                    if not any(a.k == 'ConditionalOperator' and a.kid('cond') is not None and SENSE.search(render(a.kid('cond'))) for a in f.ancestors(x)):
                        return True
            return False

        def normalised(e):
            return any(x.is_call() and x.short == 'maxObj' for x in e.walk())

        rawloc, normloc = set(), set()
        for x in f.nodes:
            if x.k == 'VarDecl' and x.c:
                (rawloc if raw(x.kids[0]) else normloc if normalised(x.kids[0]) else set()).add(x.u)
            if x.k == 'BinaryOperator' and x.o == '=' and strip(x.kids[0]).k == 'DeclRefExpr' and strip(x.kids[0]).dk == 'local':
                if raw(x.kids[1]):
                    rawloc.add(strip(x.kids[0]).u)
        rawloc -= normloc

        def tainted(e):
            return raw(e) or any(y.k == 'DeclRefExpr' and y.u in rawloc for y in e.walk())

        def norm_use(e):
            return normalised(e) or any(y.k == 'DeclRefExpr' and y.u in normloc for y in e.walk())

        for n in f.nodes:
            if f.in_assert(n):
                continue
            operand = None
            if n.k == 'BinaryOperator' and n.o in ('<', '>', '<=', '>='):
                a, b = n.kids
                if render(strip(b)).replace('(double)', '').strip('()') in ('0', '0.0'):
                    operand = a
                elif render(strip(a)).replace('(double)', '').strip('()') in ('0', '0.0'):
                    operand = b
            elif n.k == 'CallExpr' and n.short in ('GT', 'LT', 'GE', 'LE') and len(n.args()) >= 2:
                a, b = n.args()[0], n.args()[1]
                if render(strip(b)).replace('(double)', '').strip('()') in ('0', '0.0'):
                    operand = a
            if operand is None:
                continue
            if tainted(operand):
                if isctl:
                    ctl += 1
                    continue
                k += 1
                rep.bad('R08.8', '%s|sign-test(%s)' % (f.name.replace('soplex::', '')[:60], render(operand)[:30]), '%s:%d' % (f.file, n.l),
                        '`%s` tests the sign of a value computed from the raw objective coefficient obj(): the test means the opposite for a maximisation problem; '
                        'the simplifier reads maxObj() (or `sense == MINIMIZE ? obj : -obj`) wherever the direction of improvement matters' % render(n)[:70])
            elif norm_use(operand) and not isctl:
                k += 1
                rep.ok('R08.8', '%s|sign-test(%s)#%d' % (f.name.replace('soplex::', '')[:60], render(operand)[:30], k), '%s:%d' % (f.file, n.l), 'sense-normalised')
    if ctl < 1:
        raise AnalysisBroken('R08.8: the positive control (raw_objective_sign_test) did not fire')
    rep.ok('R08.8', 'control|raw_objective_sign_test', 'units/controls.cpp', 'positive control fires', nontrivial=False)


def slack_completeness(fb, rep):
    """R08.9: a post-step that keeps the eliminated column (member m_col) and re-inserts the eliminated variable (assigns x[m_j]) belongs to a
    reduction that rewrote the other rows of that column and shifted their sides by the contribution of x_j.  Their activities in the original
    LP contain that contribution again: execute() writes s[m_col.index(k)] for the rows of the column.  (F80, F81)"""
    rep.rule('R08.9', 'post-steps that re-insert an eliminated column with several rows (m_col) update the slacks of all rows of that column', floor=4)
    k = 0
    for cn, c in sorted(fb.classes.items()):
        if not re.match(r'soplex::SPxMainSM<double>::\w+PS$', cn) or 'm_col' not in [fl['n'] for fl in c['fields']]:
            continue
        ex = [f for f in fb.methods_of(cn) if f.short == 'execute' and f.nodes]
        if not ex:
            continue
        e = ex[0]
        reinserts = any(n.k == 'BinaryOperator' and n.o == '=' and render(strip(n.kids[0])) == 'x[m_j]' for n in e.nodes)
        if not reinserts:
            continue
        k += 1
        sw = [n for n in e.nodes if n.k in ('BinaryOperator', 'CompoundAssignOperator') and n.o in ('=', '+=', '-=') and render(strip(n.kids[0])).startswith('s[m_col.index(')]
        rep.check(bool(sw), 'R08.9', '%s::execute|slacks of m_col' % cn.split('::')[-1], e.where(), 'writes s[m_col.index(k)] (line %d)' % (sw[0].l if sw else 0),
                  'execute() restores x[m_j] but never touches the slacks of the rows of column j (s[m_col.index(k)]): the reduction shifted the sides of these rows by the contribution of x_j, '
                  'so unsimplifiedSlacks() differs from A x in each of them')
    if k < 4:
        raise AnalysisBroken('R08.9: only %d post-steps with m_col that re-insert x[m_j] found' % k)


def offset_sense(fb, rep):
    """R08.10: the objective offset of the simplifier is counted in the user's sense.  Every addObjoffset() argument is built from the raw
    coefficient lp.obj(..) (directly or through a local defined from it), never from a member that holds the sense-normalised coefficient
    (initialised by `sense == MINIMIZE ? obj : -obj`) or from maxObj().  (F82)"""
    rep.rule('R08.10', 'every addObjoffset() argument is built from the raw objective coefficient lp.obj(), not from a sense-normalised one', floor=4)
    SENSE = re.compile(r'MINIMIZE|MAXIMIZE|maxSense|m_thesense')
    k = 0
    for f in sorted(fb.funcs.values(), key=lambda g: (g.file, g.line)):
        if not f.file.endswith(('spxmainsm.hpp', 'spxmainsm.h')) or not f.name.startswith('soplex::') or not f.nodes:
            continue
        for n in f.nodes:
            if not (n.k == 'CXXMemberCallExpr' and n.short == 'addObjoffset' and n.args()):
                continue
            k += 1
            a = n.args()[0]
            # members initialised by a sense ternary in this constructor
            normalised = set()
            for fld, init, _w in (f.inits or []):
                if init is not None and any(x.k == 'ConditionalOperator' and SENSE.search(render(x.kid('cond'))) for x in init.walk()):
                    normalised.add(fld.split('::')[-1])
            used = set(x.short for x in a.walk() if x.k == 'MemberExpr' and x.short in normalised)
            usesmax = any(x.is_call() and x.short == 'maxObj' for x in a.walk())
            raw = any(x.is_call() and x.short == 'obj' for x in a.walk())
            if not raw:
                for x in a.walk():
                    if x.k == 'DeclRefExpr' and x.dk == 'local':
                        d = [v for v in f.nodes if v.k == 'VarDecl' and v.u == x.u and v.c]
                        if d and any(y.is_call() and y.short == 'obj' for y in d[0].kids[0].walk()):
                            raw = True
            rep.check(raw and not used and not usesmax, 'R08.10', '%s|addObjoffset(%s)' % (f.name.replace('soplex::SPxMainSM<double>::', '')[:40], render(a)[:30]), '%s:%d' % (f.file, n.l),
                      'built from lp.obj()', 'the offset `%s` is built from %s: for a maximisation problem the offset gets the wrong sign'
                      % (render(a)[:60], ('the sense-normalised member ' + sorted(used)[0]) if used else 'maxObj()' if usesmax else 'something other than lp.obj()'))
    if k < 4:
        raise AnalysisBroken('R08.10: only %d addObjoffset calls found' % k)


def fixed_kept_variable(fb, rep):
    """R08.11: AggregationPS::execute decides whether the kept variable sits at a bound it only inherited from the aggregated variable (then it
    becomes BASIC).  A kept variable that is FIXED in the reduced LP, equals its own old lower bound, differs from its own old upper bound and has
    a reduced cost of the sign of a lower bound must NOT become basic.  Decided by pruning the CFG of execute() under exactly this assumption
    (a local bool that only receives decided values is propagated) and testing whether `cStatus[active_idx] = BASIC` is still reachable.  (F83)"""
    rep.rule('R08.11', 'AggregationPS::execute: a kept variable that is FIXED on its own old bound with a reduced cost of that bound\'s sign does not become basic', floor=1)
    f = fb.one('soplex::SPxMainSM<double>::AggregationPS::execute')

    def hook(n, txt):
        t = txt.replace('this->', '').replace(' ', '')
        if re.fullmatch(r'\(?cStatus\[active_idx\]==FIXED\)?', t):
            return True
        if re.fullmatch(r'\(?cStatus\[active_idx\]==(ON_UPPER|ON_LOWER|BASIC|ZERO)\)?', t):
            return False
        m = re.match(r'\(?(NE|EQ)\(x\[active_idx\],(m_oldupper|m_oldlower),', t)
        if m:
            eq_lower = (m.group(2) == 'm_oldlower')
            return eq_lower if m.group(1) == 'EQ' else (not eq_lower)
        if re.fullmatch(r'\(?r\[active_idx\]>=\(?0(\.0)?\)?\)?', t):
            return True
        if re.fullmatch(r'\(?r\[active_idx\]<=\(?0(\.0)?\)?\)?', t) or re.fullmatch(r'\(?r\[active_idx\]<\(?0(\.0)?\)?\)?', t):
            return False
        return None
    atoms = {}
    for _ in range(3):
        A = Assume(atoms=dict(atoms), hook=hook)
        g = Graph(f, A)
        live = g.reach(g.entry)
        changed = False
        # bool locals all of whose reachable definitions are decided and agree
        for d in f.nodes:
            if d.k != 'VarDecl' or d.t not in ('bool', 'const bool') or d.n in atoms:
                continue
            vals = []
            if d.c:
                vals.append(A.eval(d.kids[0]))
            for x in f.nodes:
                if x.k == 'BinaryOperator' and x.o == '=' and strip(x.kids[0]).k == 'DeclRefExpr' and strip(x.kids[0]).u == d.u:
                    try:
                        b = g.block_of(x)
                    except Exception:
                        b = None
                    if b is None or b in live:
                        vals.append(A.eval(x.kids[1]))
            if vals and all(v is False for v in vals) or vals and all(v is True for v in vals):
                atoms[d.n] = vals[0]
                changed = True
        if not changed:
            break
    A = Assume(atoms=dict(atoms), hook=hook)
    g = Graph(f, A)
    live = g.reach(g.entry)
    basic = [n for n in f.nodes if n.k == 'BinaryOperator' and n.o == '=' and render(strip(n.kids[0])) == 'cStatus[active_idx]' and render(strip(n.kids[1])).endswith('BASIC')]
    if not basic:
        raise AnalysisBroken('R08.11: the assignment cStatus[active_idx] = BASIC was not found in AggregationPS::execute')
    reach = [n for n in basic if g.block_of(n) in live]
    rep.check(not reach, 'R08.11', 'AggregationPS::execute|FIXED at own lower bound', f.where(), 'cStatus[active_idx] = BASIC is unreachable under the assumption (propagated locals: %s)' % sorted(atoms),
              'with the kept variable FIXED, equal to its own old lower bound (old upper bound different) and a non-negative reduced cost, execute() still reaches '
              '`cStatus[active_idx] = BASIC` (line %d): the kept variable becomes basic and the aggregated one nonbasic with a reduced cost of the wrong sign' % (reach[0].l if reach else 0))
