"""E2 generic analyses over the fact base: expression rendering, three-valued condition
evaluation under a finite assumption, CFG pruning, reachability, must-pass-through, dominators,
call-graph effect summaries."""
from facts import CALL_KINDS, AnalysisBroken

# ------------------------------------------------------------------------------------------------
# rendering (for reports and for structural comparison of small expressions)

def render(n, depth=0):
    if n is None:
        return ''
    if depth > 40:
        return '...'
    k = n.k
    ks = n.kids
    r = lambda m: render(m, depth + 1)
    if k == 'DeclRefExpr':
        return n.short if n.dk in ('enum', 'func', 'global', 'other') else (n.n or '?')
    if k == 'MemberExpr':
        o = n.obj()
        if o is None or o.k == 'CXXThisExpr':
            return n.short
        return r(o) + ('->' if n.x.get('ar') else '.') + n.short
    if k == 'CXXThisExpr':
        return 'this'
    if k in ('IntegerLiteral', 'CXXBoolLiteralExpr', 'CharacterLiteral'):
        if k == 'CXXBoolLiteralExpr':
            return 'true' if n.v else 'false'
        return str(n.v)
    if k == 'FloatingLiteral':
        return str(n.v)
    if k == 'StringLiteral':
        return '"%s"' % (n.v if n.v is not None else '')
    if k == 'CXXNullPtrLiteralExpr' or k == 'GNUNullExpr':
        return 'nullptr'
    if k in ('BinaryOperator', 'CompoundAssignOperator'):
        return '(%s %s %s)' % (r(ks[0]), n.o, r(ks[1])) if len(ks) == 2 else n.o
    if k == 'UnaryOperator':
        if n.o.startswith('post'):
            return r(ks[0]) + n.o[4:]
        return n.o + r(ks[0])
    if k == 'CXXMemberCallExpr':
        m = ks[0]
        o = n.obj()
        args = ', '.join(r(a) for a in n.args() if a.k != 'CXXDefaultArgExpr')
        pre = '' if (o is None or o.k == 'CXXThisExpr') else r(o) + ('->' if m.x.get('ar') else '.')
        return '%s%s(%s)' % (pre, n.short, args)
    if k == 'CXXOperatorCallExpr':
        a = n.args()
        if n.o == '[]' and len(a) == 2:
            return '%s[%s]' % (r(a[0]), r(a[1]))
        if n.o == '()':
            return '%s(%s)' % (r(a[0]), ', '.join(r(x) for x in a[1:]))
        if len(a) == 2:
            return '(%s %s %s)' % (r(a[0]), n.o, r(a[1]))
        if len(a) == 1:
            return '%s%s' % (n.o, r(a[0]))
        return n.o
    if k == 'CallExpr':
        return '%s(%s)' % (n.short or r(ks[0]), ', '.join(r(a) for a in n.args() if a.k != 'CXXDefaultArgExpr'))
    if k in ('CXXConstructExpr', 'CXXTemporaryObjectExpr'):
        if len(ks) == 1 and ks[0].k != 'CXXDefaultArgExpr':
            return '%s(%s)' % (short_type(n.t), r(ks[0]))
        return '%s(%s)' % (short_type(n.t), ', '.join(r(a) for a in ks if a.k != 'CXXDefaultArgExpr'))
    if k in ('ImplicitCastExpr', 'CXXStaticCastExpr', 'CStyleCastExpr', 'CXXFunctionalCastExpr', 'CXXReinterpretCastExpr',
             'CXXConstCastExpr', 'CXXDynamicCastExpr'):
        if k == 'ImplicitCastExpr' or not ks:
            return r(ks[0]) if ks else ''
        if ks[0].k in ('CXXConstructExpr',):
            return r(ks[0])
        return '(%s)%s' % (short_type(n.t), r(ks[0]))
    if k == 'ArraySubscriptExpr':
        return '%s[%s]' % (r(ks[0]), r(ks[1]))
    if k == 'ConditionalOperator':
        return '(%s ? %s : %s)' % (r(n.kid('cond')), r(n.kid('then')), r(n.kid('else')))
    if k == 'CXXDefaultArgExpr':
        return r(ks[0]) if ks else ''
    if k == 'ReturnStmt':
        return 'return ' + (r(ks[0]) if ks else '')
    if k == 'CXXThrowExpr':
        return 'throw ' + (r(ks[0]) if ks else '')
    if k == 'UnaryExprOrTypeTraitExpr':
        return 'sizeof(%s)' % (r(ks[0]) if ks else n.x.get('at', ''))
    if k == 'VarDecl':
        return '%s %s%s' % (short_type(n.t), n.n, (' = ' + r(ks[0])) if ks else '')
    if k == 'DeclStmt':
        return '; '.join(r(x) for x in ks)
    if k == 'CXXNewExpr':
        return 'new ' + short_type(n.x.get('at', ''))
    if k == 'CXXDeleteExpr':
        return 'delete ' + (r(ks[0]) if ks else '')
    if ks:
        return '%s(%s)' % (k, ', '.join(r(x) for x in ks[:4]))
    return k


def short_type(t):
    t = t.replace('soplex::', '').replace('const ', '').replace('boost::multiprecision::', '')
    return t


def strip(n):
    """skip value-preserving wrappers"""
    while n is not None and n.k in ('ImplicitCastExpr', 'CXXStaticCastExpr', 'CXXFunctionalCastExpr', 'CStyleCastExpr') \
            and n.c and n.o in ('NoOp', 'IntegralCast', 'LValueToRValue', 'IntegralToBoolean', 'PointerToBoolean'):
        n = n.kids[0]
    return n


# ------------------------------------------------------------------------------------------------
# three-valued evaluation of branch conditions under an assumption

class Assume(object):
    """A finite configuration: maps rendered atoms to truth values.
    atoms: 'intParam(P)' -> enumerator short name (or '!=X'); 'boolParam(P)' -> bool; plain rendered bool
    expressions (fields, params, 'x != nullptr') -> bool."""

    def __init__(self, ints=None, bools=None, atoms=None, not_ints=None, hook=None):
        self.hook = hook              # optional callable(node, rendered text) -> True/False/None
        self.ints = ints or {}        # 'SYNCMODE' -> 'SYNCMODE_AUTO'
        self.not_ints = not_ints or {}  # 'SYNCMODE' -> set of excluded enumerators
        self.bools = bools or {}      # 'LIFTING' -> True
        self.atoms = atoms or {}      # rendered text -> bool

    def eval(self, n):
        n = strip(n)
        if n is None:
            return None
        k = n.k
        if k == 'CXXBoolLiteralExpr':
            return bool(n.v)
        if k == 'IntegerLiteral':
            return bool(n.v)
        txt = render(n)
        if txt in self.atoms:
            return self.atoms[txt]
        if self.hook is not None:
            v = self.hook(n, txt)
            if v is not None:
                return v
        if k == 'UnaryOperator' and n.o == '!':
            v = self.eval(n.kids[0])
            return None if v is None else (not v)
        if k == 'BinaryOperator' and n.o in ('&&', '||'):
            a = self.eval(n.kids[0])
            b = self.eval(n.kids[1])
            if n.o == '&&':
                if a is False or b is False:
                    return False
                if a is True and b is True:
                    return True
                return None
            if a is True or b is True:
                return True
            if a is False and b is False:
                return False
            return None
        if k == 'BinaryOperator' and n.o in ('==', '!='):
            l, r = strip(n.kids[0]), strip(n.kids[1])
            for a, b in ((l, r), (r, l)):
                p = param_call(a)
                if p and p[0] == 'intParam' and b.k == 'DeclRefExpr' and b.dk == 'enum':
                    if p[1] in self.ints:
                        same = (self.ints[p[1]] == b.short)
                        return same if n.o == '==' else (not same)
                    if p[1] in self.not_ints and b.short in self.not_ints[p[1]]:
                        return False if n.o == '==' else True
            # pointer null tests
            for a, b in ((l, r), (r, l)):
                if b.k in ('CXXNullPtrLiteralExpr', 'GNUNullExpr') or (b.k == 'IntegerLiteral' and b.v == 0 and a.t.endswith('*')):
                    key = render(a) + ' != nullptr'
                    if key in self.atoms:
                        v = self.atoms[key]
                        return v if n.o == '!=' else (not v)
            return None
        if k == 'CXXMemberCallExpr':
            p = param_call(n)
            if p and p[0] == 'boolParam' and p[1] in self.bools:
                return self.bools[p[1]]
        if n.t.endswith('*'):
            key = txt + ' != nullptr'
            if key in self.atoms:
                return self.atoms[key]
        return None


def param_call(n):
    """('intParam'|'boolParam'|'realParam', ENUMERATOR) if n is such a call on this"""
    n = strip(n)
    if n is None or n.k != 'CXXMemberCallExpr' or n.short not in ('intParam', 'boolParam', 'realParam'):
        return None
    a = n.args()
    if len(a) != 1:
        return None
    e = strip(a[0])
    if e.k == 'DeclRefExpr' and e.dk == 'enum':
        return (n.short, e.short)
    return None


# ------------------------------------------------------------------------------------------------
# CFG views

class Graph(object):
    """A view of a function's CFG: edges pruned under an assumption; abort blocks (noreturn calls,
    throw) do not lead to the normal exit."""

    def __init__(self, fn, assume=None, drop_back_edges=False, throws_are_exits=False):
        self.fn = fn
        self.blocks = fn.blocks
        if not self.blocks:
            raise AnalysisBroken('no CFG for ' + fn.name)
        self.entry = fn.entry
        self.exit = fn.exit
        self.succ = {}
        self.pruned = []
        nodes = fn.nodes
        for b in self.blocks.values():
            ss = [s for s in b.s]
            aborting = b.nr or any(nodes[e].k == 'CXXThrowExpr' for e in b.e)
            if aborting and not throws_are_exits:
                self.succ[b.id] = []
                continue
            out = []
            if b.cond is not None and b.t is not None and nodes[b.t].k in ('IfStmt', 'ConditionalOperator', 'WhileStmt', 'ForStmt', 'DoStmt', 'BinaryOperator') and len(ss) == 2:
                v = assume.eval(nodes[b.cond]) if assume is not None else None
                if v is True:
                    out = [ss[0]]
                    self.pruned.append((b.id, ss[1]))
                elif v is False:
                    out = [ss[1]]
                    self.pruned.append((b.id, ss[0]))
                else:
                    out = ss
            else:
                out = ss
            self.succ[b.id] = [s for s in out if s is not None and s >= 0]
        if drop_back_edges:
            self._drop_back_edges()
        self.pred = {b: [] for b in self.blocks}
        for b, ss in self.succ.items():
            for s in ss:
                self.pred[s].append(b)

    def _drop_back_edges(self):
        color = {}
        back = set()
        st = [(self.entry, iter(self.succ[self.entry]))]
        color[self.entry] = 1
        while st:
            b, it = st[-1]
            adv = False
            for s in it:
                if color.get(s, 0) == 0:
                    color[s] = 1
                    st.append((s, iter(self.succ[s])))
                    adv = True
                    break
                elif color[s] == 1:
                    back.add((b, s))
            if not adv:
                color[b] = 2
                st.pop()
        self.back = back
        for b, s in back:
            self.succ[b] = [x for x in self.succ[b] if x != s]

    def reach(self, start, avoid=(), fwd=True):
        """blocks reachable from start (a block id or iterable) without entering a block in avoid"""
        avoid = set(avoid)
        if isinstance(start, int):
            start = [start]
        seen = set()
        st = [s for s in start if s not in avoid]
        adj = self.succ if fwd else self.pred
        while st:
            b = st.pop()
            if b in seen:
                continue
            seen.add(b)
            for s in adj[b]:
                if s not in seen and s not in avoid:
                    st.append(s)
        return seen

    def block_of(self, node):
        """id of the block whose element list contains node (or an ancestor of it)"""
        if not hasattr(self, '_bo'):
            m = {}
            for b in self.blocks.values():
                for e in b.e:
                    m.setdefault(e, b.id)
            self._bo = m
        n = node
        while n is not None:
            if n.i in self._bo:
                return self._bo[n.i]
            n = n.parent
        return None

    def blocks_with(self, pred):
        """ids of blocks containing an element node satisfying pred"""
        out = set()
        nodes = self.fn.nodes
        for b in self.blocks.values():
            for e in b.e:
                if pred(nodes[e]):
                    out.add(b.id)
                    break
        return out

    def must_pass(self, pred, start=None, to=None):
        """True iff every path start -> to (default entry -> normal exit) executes an element satisfying pred.
        Returns (ok, witness_path) where witness_path is a list of block ids avoiding pred when not ok."""
        start = self.entry if start is None else start
        to = self.exit if to is None else to
        hit = self.blocks_with(pred)
        if start in hit:
            return True, None
        # BFS avoiding hit blocks, remembering predecessors for a witness
        prev = {start: None}
        q = [start]
        while q:
            b = q.pop(0)
            if b == to:
                path = []
                while b is not None:
                    path.append(b)
                    b = prev[b]
                return False, path[::-1]
            for s in self.succ[b]:
                if s not in prev and s not in hit:
                    prev[s] = b
                    q.append(s)
        return True, None

    def exit_reachable(self, start=None):
        start = self.entry if start is None else start
        return self.exit in self.reach(start)

    def dominators(self):
        if hasattr(self, '_dom'):
            return self._dom
        r = self.reach(self.entry)
        order = list(r)
        dom = {b: set(r) for b in r}
        dom[self.entry] = {self.entry}
        changed = True
        while changed:
            changed = False
            for b in order:
                if b == self.entry:
                    continue
                ps = [p for p in self.pred[b] if p in r]
                if not ps:
                    continue
                new = set.intersection(*[dom[p] for p in ps]) | {b}
                if new != dom[b]:
                    dom[b] = new
                    changed = True
        self._dom = dom
        return dom

    def path_lines(self, path):
        """human-readable witness: first source line of each block on the path"""
        out = []
        nodes = self.fn.nodes
        for b in path:
            es = self.blocks[b].e
            ls = [nodes[e].l for e in es if nodes[e].l]
            if ls:
                out.append(min(ls))
        # compress
        res = []
        for l in out:
            if not res or res[-1] != l:
                res.append(l)
        return res


# element-level position inside a block (to order events inside one block)

def elem_index(fn, block, node):
    """index in block.e of the element that is node or contains node"""
    ids = set()
    n = node
    while n is not None:
        ids.add(n.i)
        n = n.parent
    for k, e in enumerate(block.e):
        if e in ids:
            return k
    return None


# ------------------------------------------------------------------------------------------------
# call-graph closure helpers

def calls_matching(fn, pred):
    return [n for n in fn.nodes if n.k in CALL_KINDS and n.n and pred(n)]


def transitive_calls(fb, fn, pred, depth=6, within=None, _seen=None):
    """True if fn (or a callee up to depth, restricted to classes in `within` if given) contains a call
    satisfying pred.  Used for 'may' effects only."""
    if _seen is None:
        _seen = set()
    if fn.u in _seen:
        return False
    _seen.add(fn.u)
    for c in fn.calls():
        if pred(c):
            return True
    if depth <= 0:
        return False
    for c in fn.calls():
        for g in fb.resolve(c):
            if within is not None and not within(g):
                continue
            if transitive_calls(fb, g, pred, depth - 1, within, _seen):
                return True
    return False


class MustSummaries(object):
    """'f always performs effect E before returning normally' computed bottom-up over the call graph:
    direct(n) tells whether a node is the effect; a call to g counts if must(g, assumption).  Recursion is
    cut pessimistically (False)."""

    def __init__(self, fb, direct, assume=None, depth=6, follow=None):
        self.fb = fb
        self.direct = direct
        self.assume = assume
        self.depth = depth
        self.follow = follow or (lambda g: True)
        self.memo = {}
        self.stack = set()

    def node_is_effect(self, n, depth):
        if self.direct(n):
            return True
        if n.k in CALL_KINDS and n.u and depth > 0:
            gs = [g for g in self.fb.resolve(n) if self.follow(g)]
            if gs and all(self.must(g, depth - 1) for g in gs):
                return True
        return False

    def must(self, fn, depth=None):
        depth = self.depth if depth is None else depth
        key = fn.u
        if key in self.memo:
            return self.memo[key]
        if key in self.stack or not fn.blocks:
            return False
        self.stack.add(key)
        try:
            g = Graph(fn, self.assume)
            ok, _ = g.must_pass(lambda n: self.node_is_effect(n, depth))
        finally:
            self.stack.discard(key)
        self.memo[key] = ok
        return ok

    def witness(self, fn):
        g = Graph(fn, self.assume)
        ok, path = g.must_pass(lambda n: self.node_is_effect(n, self.depth))
        return ok, (g.path_lines(path) if path else None)


# ------------------------------------------------------------------------------------------------
# must-pass-through with the 'a reached loop executes its body' convention, reachable events, switch arms

def loop_hit(fn, pred):
    """ids of loop statements whose subtree contains a node satisfying pred"""
    out = set()
    for n in fn.nodes:
        if n.k in ('ForStmt', 'WhileStmt', 'DoStmt', 'CXXForRangeStmt'):
            if any(pred(x) for x in n.walk()):
                out.add(n.i)
    return out


def must(fn, assume, pred, loops=True):
    g = Graph(fn, assume)
    if loops:
        lh = loop_hit(fn, pred)
        nodes = fn.nodes

        def p2(n):
            return pred(n)
        hit_loop_blocks = set(b.id for b in g.blocks.values() if b.t in lh)
        ok, path = must_pass_blocks(g, g.blocks_with(pred) | hit_loop_blocks)
    else:
        ok, path = g.must_pass(pred)
    return ok, (g.path_lines(path) if path else None), g


def must_pass_blocks(g, hit):
    start, to = g.entry, g.exit
    if start in hit:
        return True, None
    prev = {start: None}
    q = [start]
    while q:
        b = q.pop(0)
        if b == to:
            path = []
            while b is not None:
                path.append(b)
                b = prev[b]
            return False, path[::-1]
        for s in g.succ[b]:
            if s not in prev and s not in hit:
                prev[s] = b
                q.append(s)
    return True, None


def reachable_events(fn, assume, pred):
    """nodes satisfying pred that lie in blocks reachable from the entry under the assumption"""
    g = Graph(fn, assume)
    r = g.reach(g.entry)
    out = []
    nodes = fn.nodes
    for b in r:
        for e in g.blocks[b].e:
            if pred(nodes[e]):
                out.append(nodes[e])
    return out



def case_arm_nodes(f, case):
    """all nodes executed in a switch arm: the case's sub-statement and the following sibling statements up to the next
    case/default label of the same compound"""
    out = list(case.walk())
    # case A: case B: stmt  -> the labels nest; the siblings follow the outermost label of the chain
    while case.parent is not None and case.parent.k in ('CaseStmt', 'DefaultStmt'):
        case = case.parent
    par = case.parent
    if par is not None and par.k == 'CompoundStmt':
        ks = par.kids
        idx = [k.i for k in ks].index(case.i)
        for k in ks[idx + 1:]:
            if k.k in ('CaseStmt', 'DefaultStmt'):
                break
            out.extend(k.walk())
    # nested fallthrough: case A: case B: stmt  -> the sub statement is another CaseStmt (already walked)
    return out


def decision_table(fn):
    """for a function that is an if-chain returning enumerators: list of (rendered condition, returned enumerator)"""
    out = []
    for n in fn.nodes:
        if n.k == 'ReturnStmt' and n.c:
            v = strip(n.kids[0])
            conds = []
            for a in fn.ancestors(n):
                if a.k == 'IfStmt':
                    c = a.kid('cond')
                    # which branch?
                    th = a.kid('then')
                    inthen = th is not None and any(x.i == n.i for x in th.walk())
                    conds.append(('' if inthen else '!') + render(c))
            out.append((tuple(conds), render(v)))
    return out




def post_dominators(g):
    """post-dominator sets over the blocks that can reach the normal exit"""
    r = g.reach(g.exit, fwd=False)
    pdom = {b: set(r) for b in r}
    pdom[g.exit] = {g.exit}
    changed = True
    while changed:
        changed = False
        for b in r:
            if b == g.exit:
                continue
            ss = [x for x in g.succ[b] if x in r]
            if not ss:
                continue
            new = set.intersection(*[pdom[x] for x in ss]) | {b}
            if new != pdom[b]:
                pdom[b] = new
                changed = True
    return pdom


def always_with(fn, pred_a, pred_b, assume=None):
    """for every executed event A some event B is executed too (B dominates or post-dominates A; a loop whose body
    contains B counts as B at its header).  Returns list of A nodes without companion."""
    g = Graph(fn, assume)
    nodes = fn.nodes
    bblocks = g.blocks_with(pred_b)
    lh = loop_hit(fn, pred_b)
    bblocks |= set(b.id for b in g.blocks.values() if b.t in lh)
    dom = g.dominators()
    pdom = post_dominators(g)
    out = []
    reach = g.reach(g.entry)
    for b in g.blocks.values():
        if b.id not in reach:
            continue
        for e in b.e:
            n = nodes[e]
            if pred_a(n):
                ok = bool(bblocks & dom.get(b.id, set())) or bool(bblocks & pdom.get(b.id, set()))
                if not ok:
                    out.append(n)
    return out
