"""C04 — every reported basis is valid, consistent across queries and reusable (structural clauses)."""
import re
from engine import render, strip, Graph, Assume, must, case_arm_nodes
from facts import AnalysisBroken, CALL_KINDS
import modifiers as M
import c06

EXPLANATION = (
    "Decides structural necessary conditions of C04: R04.1 status conversion round trip - the decision tables of "
    "basisStatusToVarStatus and varStatusToBasisStatusRow/Col are extracted and composed: every non-basic VarStatus maps to a P_* "
    "descriptor status that maps back to itself, BASIC maps to the dual status of the row/column and every D_* status maps to BASIC, all "
    "switches are exhaustive over their enumeration with a throwing default; R04.2 validator shape - isBasisValid rejects UNDEFINED, "
    "FIXED with differing bounds, ON_UPPER at an infinite upper and ON_LOWER at an infinite lower bound for rows (lhs/rhs) and columns "
    "(lower/upper) alike, checks the dimensions first and the basic count last; setBasis validates before it loads; R04.3 stored-basis "
    "bookkeeping - the obligations of C06 R06.2/R06.7 on the _basisStatusRows/_basisStatusCols arrays (index domains, resize with the own "
    "dimension, remapping over the old dimension) are re-evaluated here; R04.4 query agreement - getBasis, basisRowStatus, basisColStatus "
    "use the same three-way split {no basis -> slack basis, LP held outside the solver -> stored arrays, LP loaded -> solver} and the "
    "same source in each arm; R04.5 mirror siblings - the status updaters for a changed lower/upper bound (left/right-hand side) are "
    "mirror images of each other under lower<->upper. NOT decided: non-singularity of the basis matrix, identical results from a "
    "re-used basis.")

C = M.CLS
S = 'soplex::SPxSolverBase<double>'


def switch_table(f, cond_text=None):
    """{case label name: [assigned rhs renderings]} for the (first) switch of f"""
    sws = [n for n in f.nodes if n.k == 'SwitchStmt' and (cond_text is None or render(n.kid('cond')) == cond_text)]
    if not sws:
        return None, None
    sw = sws[0]
    tab = {}
    default_throws = False
    body = sw.kid('body')
    labels = []
    cur = None
    for st in body.kids:
        x = st
        while x is not None and x.k in ('CaseStmt', 'DefaultStmt'):
            labels.append(render(x.kids[0]) if x.k == 'CaseStmt' else 'default')
            x = x.kid('sub') if x.k == 'CaseStmt' else (x.kids[0] if x.c else None)
        if st.k in ('CaseStmt', 'DefaultStmt'):
            cur = tuple(labels)
            labels = []
            for l in cur:
                tab[l] = []
            nodes = list(x.walk()) if x is not None else []
        else:
            nodes = list(st.walk())
        for n in nodes:
            if n.k == 'BinaryOperator' and n.o == '=' and cur:
                for l in cur:
                    tab[l].append(render(n.kids[1]))
            if n.k == 'CXXThrowExpr' and cur and 'default' in cur:
                default_throws = True
    return tab, default_throws


def run(fb, rep, tier):
    _run(fb, rep, tier)
    flip_maps(fb, rep)


def _run(fb, rep, tier):
    rep.extra['explanation'] = EXPLANATION
    # ------------------------------------------------------------------ R04.1
    rep.rule('R04.1', 'status conversion tables compose to the identity on non-basic statuses; basic <-> dual statuses; exhaustive switches', floor=20)
    to_var = fb.one(S + '::basisStatusToVarStatus')
    to_row = fb.one(S + '::varStatusToBasisStatusRow')
    to_col = fb.one(S + '::varStatusToBasisStatusCol')
    tv, tv_thr = switch_table(to_var)
    tr, tr_thr = switch_table(to_row)
    tc, tc_thr = switch_table(to_col)
    if not tv or not tr or not tc:
        raise AnalysisBroken('status conversion switches not found')
    desc = [n for n, v in fb.enums['soplex::SPxBasisBase<double>::Desc::Status']['items']]
    vstat = [n for n, v in fb.enums['soplex::SPxSolverBase<double>::VarStatus']['items']]
    for d in desc:
        rep.check(d in tv and len(tv[d]) == 1, 'R04.1', 'basisStatusToVarStatus|case|' + d, to_var.where(), '%s -> %s' % (d, tv.get(d)), 'descriptor status %s has no arm in basisStatusToVarStatus' % d)
        if d.startswith('D_'):
            rep.check(tv.get(d) == ['BASIC'], 'R04.1', 'basisStatusToVarStatus|dual-is-basic|' + d, to_var.where(), '%s -> BASIC' % d, 'dual status %s is reported as %s, not BASIC' % (d, tv.get(d)))
        else:
            rep.check(tv.get(d) and tv[d][0] != 'BASIC', 'R04.1', 'basisStatusToVarStatus|primal-is-nonbasic|' + d, to_var.where(), '%s -> %s' % (d, tv.get(d)), 'primal status %s is reported as BASIC' % d)
    rep.check(tv_thr and tr_thr and tc_thr, 'R04.1', 'switches|default-throws', to_var.where(), 'unknown statuses throw', 'a conversion switch has no throwing default')
    for name, t, f, dual in (('Row', tr, to_row, 'dualRowStatus(row)'), ('Col', tc, to_col, 'dualColStatus(col)')):
        for v in vstat:
            if v == 'UNDEFINED':
                rep.check(v not in t, 'R04.1', 'varStatusToBasisStatus%s|UNDEFINED-rejected' % name, f.where(), 'UNDEFINED falls into the throwing default', 'UNDEFINED is converted to %s' % t.get(v), nontrivial=False)
                continue
            if v not in t or len(t[v]) != 1:
                rep.bad('R04.1', 'varStatusToBasisStatus%s|case|%s' % (name, v), f.where(), 'VarStatus %s has no arm' % v)
                continue
            d = t[v][0]
            if v == 'BASIC':
                rep.check(d == dual, 'R04.1', 'varStatusToBasisStatus%s|BASIC' % name, f.where(), 'BASIC -> %s' % d, 'BASIC is converted to %s, expected %s' % (d, dual))
            else:
                back = tv.get(d, [None])[0]
                rep.check(d.startswith('P_') and back == v, 'R04.1', 'varStatusToBasisStatus%s|round-trip|%s' % (name, v), f.where(), '%s -> %s -> %s' % (v, d, back),
                          '%s is stored as %s, which is reported back as %s: setting a basis and reading it back changes it' % (v, d, back))
    # the dual statuses produced are D_* only
    for nm in ('dualRowStatus', 'dualColStatus', 'dualStatus'):
        for f in fb.find('soplex::SPxBasisBase<double>::' + nm):
            rets = set()
            for n in f.nodes:
                if n.k == 'ReturnStmt' and n.c:
                    for x in n.walk():
                        if x.k == 'DeclRefExpr' and x.dk == 'enum':
                            rets.add(x.short)
            if rets:
                rep.check(all(r.startswith('D_') for r in rets), 'R04.1', '%s(%s)|returns-dual' % (nm, ','.join(M.short_t(t) for _, t in f.params)), f.where(), 'returns %s' % sorted(rets), '%s can return the primal status %s for a basic variable' % (nm, sorted(r for r in rets if not r.startswith('D_'))))

    # ------------------------------------------------------------------ R04.2
    rep.rule('R04.2', 'isBasisValid: dimension test first, four rejections per side, basic count last; setBasis validates before loading', floor=12)
    v = fb.one(S + '::isBasisValid')
    w = v.where()
    first = v.body.kids[1] if len(v.body.kids) > 1 else None
    dims = [n for n in v.nodes if n.k == 'IfStmt' and 'p_rows.size() != nRows()' in render(n.kid('cond')) and 'p_cols.size() != nCols()' in render(n.kid('cond'))]
    rep.check(bool(dims) and any(x.k == 'ReturnStmt' and render(x) == 'return false' for x in dims[0].kid('then').walk()), 'R04.2', 'isBasisValid|dimensions', w, 'array sizes are compared with the LP dimensions first', 'the status arrays are not checked against the LP dimensions')
    for side, arr, lo, up in (('row', 'p_rows[row]', 'lhs(row)', 'rhs(row)'), ('col', 'p_cols[col]', 'lower(col)', 'upper(col)')):
        conds = ' '.join(render(n.kid('cond')) for n in v.nodes if n.k == 'IfStmt' and arr in render(n.kid('cond')))
        tests = {
            'UNDEFINED': '(%s == UNDEFINED)' % arr in conds,
            'FIXED-needs-equal-bounds': '((%s == FIXED) && (%s != %s))' % (arr, lo, up) in conds,
            'ON_UPPER-needs-finite-upper': re.search(r'\(\(%s == ON_UPPER\) && \(%s >= \(?(double\))?\(?infinity' % (re.escape(arr), re.escape(up)), conds) is not None,
            'ON_LOWER-needs-finite-lower': re.search(r'\(\(%s == ON_LOWER\) && \(%s <= \(?(double\))?\(?-infinity' % (re.escape(arr), re.escape(lo)), conds) is not None,
            'BASIC-counted': '(%s == BASIC)' % arr in conds,
        }
        for t, ok in sorted(tests.items()):
            rep.check(ok, 'R04.2', 'isBasisValid|%s|%s' % (side, t), w, 'tested', 'isBasisValid does not test "%s" for %ss (conditions: %s)' % (t, side, conds[:160]))
    cnt = [n for n in v.nodes if n.k == 'IfStmt' and render(n.kid('cond')) == '(basisdim != dim())']
    rep.check(bool(cnt) and any(render(x) == 'return false' for x in cnt[0].kid('then').walk() if x.k == 'ReturnStmt'), 'R04.2', 'isBasisValid|basic-count', w, 'basic count must equal dim()', 'the number of basic variables is not compared with dim()')
    incs = [n for n in v.nodes if n.k == 'UnaryOperator' and n.o in ('post++', '++') and render(n.kids[0]) == 'basisdim']
    rep.check(len(incs) == 2, 'R04.2', 'isBasisValid|counts-both-sides', w, 'basic rows and basic columns are both counted', 'basisdim is incremented at %d places, expected once for rows and once for columns' % len(incs))
    sb = fb.one(C + '::setBasis', nparams=2)
    A = Assume(atoms={'_isRealLPLoaded': True})
    callsb = [n for n in sb.nodes if n.k == 'CXXMemberCallExpr' and n.short == 'setBasis' and M.obj_text(n) == '_solver']
    ssb = fb.one(S + '::setBasis')
    val = [n for n in ssb.nodes if n.k == 'CXXMemberCallExpr' and n.short in ('isBasisValid', 'isDescValid')]
    ld = [n for n in ssb.nodes if n.k == 'CXXMemberCallExpr' and n.short == 'loadBasis']
    ldf = fb.find('soplex::SPxBasisBase<double>::loadDesc')
    okv = bool(val) or (ldf and any(x.k == 'CXXMemberCallExpr' and x.short == 'isDescValid' for x in ldf[0].nodes))
    rep.check(okv, 'R04.2', 'setBasis|validates', ssb.where(), 'descriptor validated before it is installed (isDescValid in loadDesc)', 'a basis is installed without validation')

    # ------------------------------------------------------------------ R04.3 (shared with C06)
    rep.rule('R06.2', 'shared with C06: stored-basis arrays are touched only in the index domain of the changed quantity', floor=60)
    rep.rule('R06.7', 'shared with C06: remapping loops after permutation removals run upwards over the old dimension', floor=6)
    c06.helpers(fb, rep)
    c06.perm_loops(fb, rep)

    # ------------------------------------------------------------------ R04.4
    rep.rule('R04.4', 'basis queries share one three-way split and one source per arm', floor=8)
    spec = {}
    for nm in ('basisRowStatus', 'basisColStatus', 'getBasis'):
        f = fb.one(C + '::' + nm)
        conds = [render(n.kid('cond')) for n in f.nodes if n.k == 'IfStmt']
        first2 = conds[:2]
        has_nobasis = any('hasBasis()' in c for c in conds)
        has_loaded = any(c == '_isRealLPLoaded' or c == '!_isRealLPLoaded' for c in conds) or any('_isRealLPLoaded' in c for c in conds)
        srcs = set()
        for n in f.nodes:
            if n.k == 'MemberExpr' and n.dk == 'field' and n.short in ('_basisStatusRows', '_basisStatusCols') and not f.in_assert(n):
                srcs.add(n.short)
            if n.k == 'CXXMemberCallExpr' and M.obj_text(n) == '_solver' and n.short in ('getBasisRowStatus', 'getBasisColStatus', 'getBasis'):
                srcs.add('_solver.' + n.short)
        spec[nm] = (has_nobasis, has_loaded, sorted(srcs))
        rep.check(has_nobasis and has_loaded, 'R04.4', nm + '|three-way-split', f.where(), 'tests hasBasis() and _isRealLPLoaded', '%s does not distinguish no-basis / LP outside the solver / LP loaded (%s)' % (nm, conds[:3]))
    want = {'basisRowStatus': ['_basisStatusRows', '_solver.getBasisRowStatus'], 'basisColStatus': ['_basisStatusCols', '_solver.getBasisColStatus'], 'getBasis': ['_basisStatusCols', '_basisStatusRows', '_solver.getBasis']}
    for nm, srcs in sorted(want.items()):
        rep.check(spec[nm][2] == srcs, 'R04.4', nm + '|sources', fb.one(C + '::' + nm).where(), 'sources %s' % spec[nm][2], '%s reads %s, expected %s' % (nm, spec[nm][2], srcs))
    # the no-basis arm reports the slack basis: rows BASIC, columns by their bounds
    f = fb.one(C + '::basisRowStatus')
    rets = [render(n) for n in f.nodes if n.k == 'ReturnStmt']
    rep.check('return BASIC' in rets, 'R04.4', 'basisRowStatus|slack-default', f.where(), 'rows are BASIC when no basis is stored', 'without a basis a row is reported as %s' % rets[:2])
    f = fb.one(C + '::basisColStatus')
    rets = [render(n) for n in f.nodes if n.k == 'ReturnStmt']
    rep.check(all(x in rets for x in ('return ON_LOWER', 'return ON_UPPER', 'return ZERO')) and 'return BASIC' not in rets, 'R04.4', 'basisColStatus|slack-default', f.where(), 'columns are nonbasic at a finite bound / ZERO when no basis is stored',
              'without a basis a column can be reported as %s' % rets[:5])

    mirror(fb, rep)


# ---------------------------------------------------------------------------------------------------
SW = [('Lower', '\x00U'), ('Upper', 'Lower'), ('\x00U', 'Upper'), ('lower', '\x00u'), ('upper', 'lower'), ('\x00u', 'upper'), ('theLCbound', '\x00c'), ('theUCbound', 'theLCbound'),
      ('\x00c', 'theUCbound'), ('P_ON_LOWER', '\x00p'), ('P_ON_UPPER', 'P_ON_LOWER'), ('\x00p', 'P_ON_UPPER'), ('D_ON_LOWER', '\x00d'), ('D_ON_UPPER', 'D_ON_LOWER'), ('\x00d', 'D_ON_UPPER'),
      ('Lhs', '\x00L'), ('Rhs', 'Lhs'), ('\x00L', 'Rhs'), ('lhs', '\x00l'), ('rhs', 'lhs'), ('\x00l', 'rhs'), ('theLRbound', '\x00r'), ('theURbound', 'theLRbound'), ('\x00r', 'theURbound')]


def mirror_text(t):
    for a, b in SW:
        t = t.replace(a, b)
    # comparisons against +-infinity flip with the side
    def flip(m):
        op = {'<=': '>=', '>=': '<=', '<': '>', '>': '<'}[m.group(2)]
        inf = 'infinity' if m.group(3) == '-infinity' else '-infinity'
        return '%s %s %s' % (m.group(1), op, inf)
    t = re.sub(r'(\w+) (<=|>=|<|>) (-?infinity)', flip, t)
    return t


def clean(t):
    t = t.replace('(double)', '')
    t = re.sub(r'\b(EQ|NE)\((\w+), (\w+), (?:this)?->tolerances\(\)->epsilon\(\)\)', lambda m: '(%s %s %s)' % (m.group(2), '==' if m.group(1) == 'EQ' else '!=', m.group(3)), t)
    return t


def canon(f):
    arms = {}

    def emit(n, out, depth):
        if n is None:
            return
        if n.k == 'CompoundStmt':
            for k in n.kids:
                emit(k, out, depth)
        elif n.k == 'IfStmt':
            out.append('  ' * depth + 'if ' + render(n.kid('cond')))
            emit(n.kid('then'), out, depth + 1)
            if n.kid('else') is not None:
                out.append('  ' * depth + 'else')
                emit(n.kid('else'), out, depth + 1)
        elif n.k in ('BreakStmt', 'NullStmt'):
            pass
        else:
            t = render(n)
            if '__assert_fail' in t or 'debug(' in t:
                return
            if 'throw' in t:
                t = 'throw'
            out.append('  ' * depth + t)
    sws = [n for n in f.nodes if n.k == 'SwitchStmt']
    if not sws:
        return None, None
    sw = sws[0]
    labels, cur = [], None
    for st in sw.kid('body').kids:
        x = st
        while x is not None and x.k in ('CaseStmt', 'DefaultStmt'):
            labels.append(render(x.kids[0]) if x.k == 'CaseStmt' else 'default')
            x = x.kid('sub') if x.k == 'CaseStmt' else (x.kids[0] if x.c else None)
        if st.k in ('CaseStmt', 'DefaultStmt'):
            cur = tuple(labels)
            labels = []
            arms[cur] = []
            emit(x, arms[cur], 0)
        else:
            emit(st, arms[cur], 0)
    rest = []
    for st in f.body.kids:
        if st.i != sw.i:
            emit(st, rest, 0)
    return arms, rest


def mirror(fb, rep):
    rep.rule('R04.5', 'changeLowerStatus/changeUpperStatus and changeLhsStatus/changeRhsStatus are mirror images under lower<->upper (EQ/NE with tolerance compared as ==/!=)', floor=12)
    for a, b in (('changeLowerStatus', 'changeUpperStatus'), ('changeLhsStatus', 'changeRhsStatus')):
        fa, fbb = fb.one(S + '::' + a), fb.one(S + '::' + b)
        A, ra = canon(fa)
        B, rb = canon(fbb)
        if A is None or B is None:
            rep.unrec('R04.5', '%s~%s' % (a, b), fa.where(), 'switch over the status not found')
            continue
        MA = {tuple(sorted(mirror_text(l) for l in k)): [mirror_text(clean(x)) for x in v] for k, v in A.items()}
        BB = {tuple(sorted(k)): [clean(x) for x in v] for k, v in B.items()}
        for k in sorted(set(MA) | set(BB)):
            key = '%s~%s|arm %s' % (a, b, '/'.join(k)[:40])
            if k not in MA or k not in BB:
                rep.bad('R04.5', key, fbb.where(), 'arm %s exists only in %s' % (k, a if k in MA else b))
            else:
                same = MA[k] == BB[k]
                diff = ''
                if not same:
                    for x, y in zip(MA[k], BB[k]):
                        if x != y:
                            diff = 'mirrored %s has `%s`, %s has `%s`' % (a, x.strip()[:70], b, y.strip()[:70])
                            break
                    if not diff:
                        diff = 'different number of statements (%d vs %d)' % (len(MA[k]), len(BB[k]))
                rep.check(same, 'R04.5', key, fbb.where(), 'arms are mirror images (%d statements)' % len(BB[k]), 'the arm for %s is not the mirror image of its sibling: %s' % ('/'.join(k), diff))
        rep.check([mirror_text(clean(x)) for x in ra] == [clean(x) for x in rb], 'R04.5', '%s~%s|prologue-epilogue' % (a, b), fbb.where(), 'code around the switch mirrors', 'the code around the switch differs between %s and %s' % (a, b))


def flip_maps(fb, rep):
    """R04.6: wherever a switch over a basis status assigns, in its ON_LOWER arm and in its ON_UPPER arm, one of these two statuses to the
    same target (the slack / sign flip between a column and its row, P_* and D_* likewise), the two arms assign different values: the
    map is the identity or the swap, never two-to-one - otherwise one bound status is lost and the basis no longer describes the vertex."""
    rep.rule('R04.6', 'status maps restricted to the pair ON_LOWER / ON_UPPER are one-to-one (identity or swap)', floor=5)
    from engine import case_arm_nodes
    PAIRS = [('ON_LOWER', 'ON_UPPER'), ('P_ON_LOWER', 'P_ON_UPPER'), ('D_ON_LOWER', 'D_ON_UPPER')]
    k = 0
    for f in sorted(fb.funcs.values(), key=lambda g: (g.name, g.sig)):
        if not f.name.startswith('soplex::') or not f.nodes:
            continue
        for sw in f.nodes:
            if sw.k != 'SwitchStmt':
                continue
            cases = {}
            for c in sw.walk():
                if c.k == 'CaseStmt':
                    lab = [x.short for x in c.kids[0].walk() if x.k == 'DeclRefExpr' and x.dk == 'enum']
                    if lab:
                        cases.setdefault(lab[0], c)
            for a, b in PAIRS:
                if a not in cases or b not in cases:
                    continue

                def target(c):
                    arm = case_arm_nodes(f, c)
                    asg = [x for x in arm if x.k == 'BinaryOperator' and x.o == '=' and strip(x.kids[1]).k == 'DeclRefExpr' and strip(x.kids[1]).dk == 'enum' and strip(x.kids[1]).short in (a, b)]
                    return set(strip(x.kids[1]).short for x in asg), set(render(x.kids[0]) for x in asg)
                va, ta = target(cases[a])
                vb, tb = target(cases[b])
                if len(va) != 1 or len(vb) != 1 or ta != tb:
                    continue
                k += 1
                rep.check(va != vb, 'R04.6', '%s|switch@%d|%s' % (f.name.replace('soplex::', '')[:50], sw.l, sorted(ta)[0][:25]), '%s:%d' % (f.file, sw.l), '%s -> %s, %s -> %s' % (a, sorted(va)[0], b, sorted(vb)[0]),
                          'both the %s arm and the %s arm assign %s to %s: the map is two-to-one, one of the two bound statuses is lost' % (a, b, sorted(va)[0], sorted(ta)[0][:30]))
    if k < 5:
        raise AnalysisBroken('R04.6: only %d lower/upper status maps found' % k)
