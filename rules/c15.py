"""C15 — parameters: tables, total range guards, atomic rejection, who-writes, sibling front ends."""
import math
import re
from engine import render, strip, Graph, Assume, must, reachable_events, case_arm_nodes
from facts import AnalysisBroken, CALL_KINDS
import modifiers as M

EXPLANATION = (
    "Decides structural necessary conditions of C15 on the resolved program: R15.1 the three parameter tables are complete (every "
    "enumerator has name, description, default and - for int/real - lower and upper, with lower <= default <= upper after constant "
    "evaluation; names unique) and every enumerator has its own case in its typed setter; int parameters that are validated by an inner "
    "switch(value) enumerate exactly [lower, upper]; R15.2 the range guard in front of the setters' switch rejects every value outside "
    "[lower, upper] *including NaN* (three-valued evaluation of the guard with every ordered comparison on the value false); R15.3 no "
    "'return false' of a setter is reachable after a state change (CFG reachability from every member write / non-const member call to "
    "every rejecting return); R15.4 the value arrays are written only by Settings and the typed setters, and every loop over a parameter "
    "array or table is bounded by the COUNT of that same array; R15.5 the setters touch the LPs only in the objective-sense, "
    "objective-offset and sync-mode arms; R15.6 the two text front ends are the same parser: per parameter type the same exact name "
    "comparison against the same table, the same conversion and the same typed setter. NOT decided: that a stored value is the one "
    "later used by the algorithms, printed precision of reals, the effect of each parameter.")

C = M.CLS


def enum_items(fb, name):
    e = fb.enums.get(C + '::' + name)
    if e is None:
        raise AnalysisBroken('enum %s not found' % name)
    return [(n, v) for n, v in e['items'] if not n.endswith('_COUNT')], dict(e['items'])


def const_eval(n, fb):
    """numeric value of a constant expression, or None"""
    n = strip(n)
    if n is None:
        return None
    k = n.k
    if k == 'IntegerLiteral':
        return int(n.v)
    if k == 'FloatingLiteral':
        try:
            return float(n.v)
        except (TypeError, ValueError):
            return None
    if k == 'CXXBoolLiteralExpr':
        return bool(n.v)
    if k == 'DeclRefExpr' and n.dk == 'enum':
        return int(n.v)
    if k == 'DeclRefExpr' and n.dk == 'global' and n.short == 'infinity':
        return 1e100
    if k in ('ImplicitCastExpr', 'CStyleCastExpr', 'CXXStaticCastExpr', 'CXXFunctionalCastExpr') and n.c:
        return const_eval(n.kids[0], fb)
    if k == 'UnaryOperator' and n.o in ('-', '+'):
        v = const_eval(n.kids[0], fb)
        return None if v is None else (-v if n.o == '-' else v)
    if k == 'BinaryOperator' and n.o in ('+', '-', '*', '/'):
        a, b = const_eval(n.kids[0], fb), const_eval(n.kids[1], fb)
        if a is None or b is None:
            return None
        try:
            return {'+': a + b, '-': a - b, '*': a * b, '/': a / b}[n.o]
        except ZeroDivisionError:
            return None
    if k == 'CXXConstructExpr' and len(n.c) == 1:
        return const_eval(n.kids[0], fb)
    if k == 'CallExpr' and n.short in ('max', 'min'):
        return None
    return None


def table_of(fb, ctor):
    """{field: {enumerator: rhs node}} from assignments  field[ENUM] = rhs  in a parameter table constructor"""
    t = {}
    dup = []
    for n in ctor.nodes:
        if n.k in ('BinaryOperator', 'CXXOperatorCallExpr') and n.o == '=':
            l = strip(n.kids[0] if n.k == 'BinaryOperator' else n.args()[0])
            r = n.kids[1] if n.k == 'BinaryOperator' else n.args()[1]
            if l.k == 'ArraySubscriptExpr':
                base, idx = strip(l.kids[0]), strip(l.kids[1])
                if base.k == 'MemberExpr' and idx.k == 'DeclRefExpr' and idx.dk == 'enum':
                    fld = base.short
                    if idx.short in t.setdefault(fld, {}):
                        dup.append((fld, idx.short))
                    t[fld][idx.short] = r
    return t, dup


def run(fb, rep, tier):
    _run(fb, rep, tier)
    bool_literals(fb, rep)
    real_values_notation(fb, rep)


def _run(fb, rep, tier):
    rep.extra['explanation'] = EXPLANATION
    rep.extra['assumptions'] = ['constants are evaluated over literals, enumerators, unary minus, + - * / and soplex::infinity (= 1e100 as initialised in spxdefines.cpp)']
    S = C + '::Settings'
    tabs = {}
    rep.rule('R15.1', 'parameter tables complete and ordered; names unique; one case per enumerator in the typed setter; inner value switches enumerate [lower, upper]', floor=400)
    counts = {}
    for kind, enum, fields, setter in (('bool', 'BoolParam', ('name', 'description', 'defaultValue'), 'setBoolParam'),
                                       ('int', 'IntParam', ('name', 'description', 'defaultValue', 'lower', 'upper'), 'setIntParam'),
                                       ('real', 'RealParam', ('name', 'description', 'defaultValue', 'lower', 'upper'), 'setRealParam')):
        items, allitems = enum_items(fb, enum)
        counts[kind] = len(items)
        ctor = fb.one('%s::%s::%s' % (S, enum, enum), nparams=0)
        t, dup = table_of(fb, ctor)
        tabs[kind] = t
        for fld, en in dup:
            rep.bad('R15.1', '%s|%s|%s|assigned-twice' % (enum, en, fld), ctor.where(), '%s[%s] is assigned twice in the table constructor (another entry is probably missing)' % (fld, en))
        for en, val in items:
            for fld in fields:
                has = en in t.get(fld, {})
                rep.check(has, 'R15.1', '%s|%s|%s' % (enum, en, fld), ctor.where(), 'table entry present', '%s[%s] is never assigned: the table entry is uninitialised' % (fld, en))
            if kind != 'bool' and all(en in t.get(f, {}) for f in ('lower', 'upper', 'defaultValue')):
                lo, up, df = [const_eval(t[f][en], fb) for f in ('lower', 'upper', 'defaultValue')]
                key = '%s|%s|lower<=default<=upper' % (enum, en)
                if lo is None or up is None or df is None:
                    rep.unrec('R15.1', key, ctor.where(), 'cannot evaluate %s / %s / %s' % tuple(render(t[f][en]) for f in ('lower', 'defaultValue', 'upper')))
                else:
                    rep.check(lo <= df <= up, 'R15.1', key, ctor.where(), '%s <= %s <= %s' % (lo, df, up), 'default %s is outside [%s, %s]' % (df, lo, up))
        names = {}
        for en, _ in items:
            if en in t.get('name', {}):
                s = strip(t['name'][en])
                txt = None
                for x in t['name'][en].walk():
                    if x.k == 'StringLiteral':
                        txt = x.v
                names.setdefault(txt, []).append(en)
        for txt, ens in names.items():
            rep.check(len(ens) == 1 and txt, 'R15.1', '%s|name-unique|%s' % (enum, txt), ctor.where(), 'unique name', 'parameter name "%s" is used by %s' % (txt, ens))
        # typed setter: outer switch(param) has one case per enumerator
        f = fb.one(C + '::' + setter)
        sw = [n for n in f.nodes if n.k == 'SwitchStmt' and render(n.kid('cond')) == 'param']
        if len(sw) != 1:
            rep.unrec('R15.1', setter + '|switch', f.where(), 'expected one switch(param), found %d' % len(sw))
            continue
        body = sw[0].kid('body')
        cases = {}
        for c in body.kids if body is not None else []:
            x = c
            while x is not None and x.k == 'CaseStmt':
                cases.setdefault(x.v, x)
                x = x.kid('sub')
        for en, val in items:
            rep.check(val in cases, 'R15.1', '%s|%s|case' % (setter, en), f.where(), 'has its own case', 'enumerator %s has no case in %s: setting it falls into default and is rejected' % (en, setter))
        has_default_false = any(c.k == 'DefaultStmt' and any(r.k == 'ReturnStmt' and render(r) == 'return false' for r in c.walk()) for c in (body.kids if body is not None else []))
        rep.check(has_default_false, 'R15.1', setter + '|default-rejects', f.where(), 'default: return false', 'an unknown parameter id is not rejected')
        if kind == 'int':
            for en, val in items:
                if val not in cases:
                    continue
                arm = case_arm_nodes(f, cases[val])
                inner = [n for n in arm if n.k == 'SwitchStmt' and render(n.kid('cond')) == 'value']
                for sw2 in inner[:1]:
                    labs = set()
                    for c in sw2.walk():
                        if c.k == 'CaseStmt' and c.v is not None:
                            # only labels that belong to this switch (not to a nested one)
                            p = c.parent
                            while p is not None and p.k != 'SwitchStmt':
                                p = p.parent
                            if p is not None and p.i == sw2.i:
                                labs.add(c.v)
                    lo, up = const_eval(t['lower'][en], fb), const_eval(t['upper'][en], fb)
                    if lo is None or up is None:
                        rep.unrec('R15.1', 'setIntParam|%s|value-cases' % en, f.where(), 'bounds not constant')
                    else:
                        want = set(range(int(lo), int(up) + 1))
                        rep.check(labs == want, 'R15.1', 'setIntParam|%s|value-cases' % en, '%s:%d' % (f.file, sw2.l), 'cases %s == [%d, %d]' % (sorted(labs), lo, up),
                                  'the inner switch(value) handles %s but the documented range is [%d, %d]: %s' % (sorted(labs), lo, up,
                                                                                                                 'values %s are accepted by the range check and then rejected/ignored' % sorted(want - labs) if want - labs else 'cases %s are unreachable' % sorted(labs - want)))
    if counts['bool'] < 20 or counts['int'] < 25 or counts['real'] < 20:
        raise AnalysisBroken('parameter enumerations shrank: %s' % counts)

    guards(fb, rep)
    atomic(fb, rep)
    writers(fb, rep, counts)
    lp_effects(fb, rep)
    front_ends(fb, rep)


# ---------------------------------------------------------------------------------------------------
def nan_eval(n):
    """three-valued evaluation of a guard when `value` is NaN: ordered comparisons and == involving value are false, != true"""
    n = strip(n)
    if n is None:
        return None
    if n.k == 'BinaryOperator':
        if n.o in ('<', '>', '<=', '>=', '=='):
            if any(x.k == 'DeclRefExpr' and x.n == 'value' for x in n.walk()):
                return False
            return None
        if n.o == '!=':
            if any(x.k == 'DeclRefExpr' and x.n == 'value' for x in n.walk()):
                return True
            return None
        if n.o in ('&&', '||'):
            a, b = nan_eval(n.kids[0]), nan_eval(n.kids[1])
            if n.o == '&&':
                if a is False or b is False:
                    return False
                if a is True and b is True:
                    return True
                return None
            if a is True or b is True:
                return True
            if a is False and b is False:
                return False
            return None
    if n.k == 'UnaryOperator' and n.o == '!':
        v = nan_eval(n.kids[0])
        return None if v is None else (not v)
    if n.k == 'CallExpr' and n.short in ('isnan', 'isNaN', '__builtin_isnan', 'isNotFinite') and any(x.k == 'DeclRefExpr' and x.n == 'value' for x in n.walk()):
        return True
    if n.k == 'CallExpr' and n.short in ('isfinite', 'isFinite', '__builtin_isfinite') and any(x.k == 'DeclRefExpr' and x.n == 'value' for x in n.walk()):
        return False
    return None


def guards(fb, rep):
    rep.rule('R15.2', 'the range guard before the outer switch rejects every value outside [lower[param], upper[param]], NaN included', floor=3)
    for setter, tab in (('setIntParam', 'intParam'), ('setRealParam', 'realParam')):
        f = fb.one(C + '::' + setter)
        sw = [n for n in f.nodes if n.k == 'SwitchStmt' and render(n.kid('cond')) == 'param']
        gs = []
        for n in f.nodes:
            if n.k == 'IfStmt' and sw and n.i < sw[0].i and n.l < sw[0].l:
                c = render(n.kid('cond'))
                th = n.kid('then')
                if '%s.lower[param]' % tab in c or '%s.upper[param]' % tab in c:
                    gs.append(n)
        if len(gs) != 1:
            rep.unrec('R15.2', setter + '|range-guard', f.where(), 'expected one range guard before the switch, found %d' % len(gs))
            continue
        g = gs[0]
        c = g.kid('cond')
        txt = render(c)
        th = g.kid('then')
        rejects = th is not None and any(r.k == 'ReturnStmt' and render(r) == 'return false' for r in th.walk())
        # the guard dominates the switch: it is a direct child statement of the function body
        top = g.parent is not None and g.parent.i == f.body.i
        low = ('(value < _currentSettings->%s.lower[param])' % tab) in txt or ('(_currentSettings->%s.lower[param] > value)' % tab) in txt
        up = ('(value > _currentSettings->%s.upper[param])' % tab) in txt or ('(_currentSettings->%s.upper[param] < value)' % tab) in txt
        neg = txt.startswith('!') and ('>=' in txt and '<=' in txt)
        rep.check(rejects and top and ((low and up and strip(c).o == '||') or neg), 'R15.2', setter + '|range-guard', '%s:%d' % (f.file, g.l), txt,
                  'the guard %s does not reject both value < lower[param] and value > upper[param] before the switch' % txt)
        if setter == 'setRealParam':
            v = nan_eval(c)
            # an earlier statement may already reject NaN
            earlier = [n for n in f.nodes if n.k == 'IfStmt' and n.i < g.i and n.parent is not None and n.parent.i == f.body.i and nan_eval(n.kid('cond')) is True
                       and any(r.k == 'ReturnStmt' and render(r) == 'return false' for r in n.kid('then').walk())]
            if v is True or earlier:
                rep.ok('R15.2', setter + '|rejects-NaN', '%s:%d' % (f.file, g.l), 'a NaN value is rejected')
            elif v is False:
                rep.bad('R15.2', setter + '|rejects-NaN', '%s:%d' % (f.file, g.l), 'for value = NaN the guard %s evaluates to false: NaN passes the range check and is stored' % txt)
            else:
                rep.unrec('R15.2', setter + '|rejects-NaN', '%s:%d' % (f.file, g.l), 'guard %s not understood' % txt)


# ---------------------------------------------------------------------------------------------------
def method_const(fb, usr):
    f = fb.funcs.get(usr)
    if f is not None:
        return f.const or f.static
    if not hasattr(fb, '_mconst'):
        m = {}
        for c in fb.classes.values():
            for md in c['methods']:
                m[md['u']] = bool(md.get('const')) or bool(md.get('static'))
        fb._mconst = m
    return fb._mconst.get(usr)


def mutating_event(fb, f, n):
    """a write to a member of *this or a non-const call on a member / this"""
    if f.in_assert(n):
        return False
    if n.k in ('BinaryOperator', 'CompoundAssignOperator') and (n.o == '=' or n.o.endswith('=') and n.o not in ('==', '!=', '<=', '>=')):
        l = strip(n.kids[0])
        root = l
        while root is not None and root.k in ('MemberExpr', 'ArraySubscriptExpr', 'CXXOperatorCallExpr', 'UnaryOperator') and root.c:
            if root.k == 'MemberExpr' and root.dk == 'field' and root.obj() is not None and root.obj().k == 'CXXThisExpr':
                return True
            root = strip(root.kids[0] if root.k != 'CXXOperatorCallExpr' else root.args()[0])
        return False
    if n.k == 'CXXOperatorCallExpr' and n.o in ('=', '+=', '-=', '*=', '/='):
        a = n.args()
        return bool(a) and any(x.k == 'MemberExpr' and x.dk == 'field' and x.obj() is not None and x.obj().k == 'CXXThisExpr' for x in a[0].walk())
    if n.k == 'CXXMemberCallExpr':
        if method_const(fb, n.u):
            return False
        o = n.obj()
        if o is None:
            return False
        if o.k == 'CXXThisExpr':
            # calls to own non-const methods: the param getters are const; message printing is not a state change
            return n.short not in ('setTimings',) and not n.short.startswith('print')
        return any(x.k == 'MemberExpr' and x.dk == 'field' and x.obj() is not None and x.obj().k == 'CXXThisExpr' for x in o.walk())
    if n.k == 'CallExpr' and n.short in ('spx_free', 'spx_alloc', 'spx_realloc'):
        return True
    if n.k in ('CXXDeleteExpr',):
        return True
    return False


def atomic(fb, rep):
    rep.rule('R15.3', 'no rejecting return (return false) of a typed setter is reachable after a state change', floor=3)
    for setter in ('setBoolParam', 'setIntParam', 'setRealParam'):
        f = fb.one(C + '::' + setter)
        g = Graph(f, None)
        nodes = f.nodes
        rets = []
        for b in g.blocks.values():
            for k, e in enumerate(b.e):
                n = nodes[e]
                if n.k == 'ReturnStmt' and render(n) == 'return false':
                    rets.append((b.id, k, n))
        # also returns of a variable that may be false are out of scope (none today)
        found = []
        for b in g.blocks.values():
            for k, e in enumerate(b.e):
                n = nodes[e]
                if not mutating_event(fb, f, n):
                    continue
                # SPX_MSG_* stream output is not a state change
                if 'spxout' in render(n):
                    continue
                reach = g.reach(g.succ[b.id])
                for rb, rk, rn in rets:
                    if rb in reach or (rb == b.id and rk > k):
                        found.append((n, rn))
        seen = set()
        for n, rn in found:
            # attribute to the switch arm
            arm = None
            for a in f.ancestors(n):
                if a.k == 'CaseStmt' and a.parent is not None and a.parent.parent is not None and a.parent.parent.k == 'SwitchStmt' and render(a.parent.parent.kid('cond')) == 'param':
                    arm = a
            if arm is None:
                # statements that follow a case label inside the compound
                arm_name = 'line-%d' % n.l
                cur = n
                while cur.parent is not None and cur.parent.k != 'CompoundStmt':
                    cur = cur.parent
                par = cur.parent
                if par is not None:
                    ks = par.kids
                    idx = [x.i for x in ks].index(cur.i)
                    for x in reversed(ks[:idx]):
                        if x.k == 'CaseStmt':
                            y = x
                            while y.kid('sub') is not None and y.kid('sub').k == 'CaseStmt':
                                y = y.kid('sub')
                            arm_name = enum_name(fb, setter, y.v)
                            break
            else:
                arm_name = enum_name(fb, setter, arm.v)
            key = '%s|%s|mutate-then-reject' % (setter, arm_name)
            if key in seen:
                continue
            seen.add(key)
            rep.bad('R15.3', key, '%s:%d' % (f.file, n.l), 'after the state change `%s` (line %d) the setter can still `return false` (line %d): a rejected value leaves a changed object' % (render(n)[:80], n.l, rn.l))
        rep.check(True, 'R15.3', setter + '|scanned', f.where(), '%d rejecting returns, %d state-changing events scanned' % (len(rets), sum(1 for n in nodes if mutating_event(fb, f, n))), nontrivial=False)
        # the value array is assigned only after the switch
        asg = [n for n in nodes if n.k == 'BinaryOperator' and n.o == '=' and re.match(r'^_currentSettings->_(bool|int|real)ParamValues\[param\]$', render(n.kids[0]))]
        def from_value(e):
            t = render(e)
            if t == 'value':
                return True
            # a local that is initialised from `value` (and possibly clamped in an arm) counts as the value
            return any(v.k == 'VarDecl' and v.n == t and v.c and render(v.kids[0]) == 'value' for v in nodes)
        rep.check(len(asg) == 1 and from_value(asg[0].kids[1]) and asg[0].parent is not None and asg[0].parent.i == f.body.i, 'R15.3', setter + '|stores-value', f.where(),
                  'stores `value` once, after the switch', 'the parameter array is not assigned exactly once with `value` after the switch (%s)' % [render(a) for a in asg])


def enum_name(fb, setter, val):
    enum = {'setBoolParam': 'BoolParam', 'setIntParam': 'IntParam', 'setRealParam': 'RealParam'}[setter]
    for n, v in fb.enums[C + '::' + enum]['items']:
        if v == val:
            return n
    return str(val)


# ---------------------------------------------------------------------------------------------------
def writers(fb, rep, counts):
    rep.rule('R15.4', 'parameter value arrays are written only by Settings and the typed setters; loops over a parameter array/table are bounded by that array\'s own COUNT', floor=20)
    allowed = {'setBoolParam', 'setIntParam', 'setRealParam', 'setRationalParam', 'Settings', 'operator='}
    arrs = {'_boolParamValues': 'BOOLPARAM_COUNT', '_intParamValues': 'INTPARAM_COUNT', '_realParamValues': 'REALPARAM_COUNT',
            'boolParam': 'BOOLPARAM_COUNT', 'intParam': 'INTPARAM_COUNT', 'realParam': 'REALPARAM_COUNT'}
    nw = 0
    for f in fb.funcs.values():
        if not (f.cls or '').startswith(C):
            continue
        for n in f.nodes:
            if n.k == 'BinaryOperator' and (n.o == '=' or (n.o.endswith('=') and n.o not in ('==', '!=', '<=', '>='))):
                l = render(n.kids[0])
                m = re.search(r'_(bool|int|real)ParamValues\[', l)
                if m and not f.in_assert(n):
                    nw += 1
                    okw = f.short in allowed and (f.cls == C + '::Settings' or f.short.startswith('set'))
                    rep.check(okw, 'R15.4', '%s::%s|writes|%s' % ((f.cls or '').replace(C, 'SoPlexBase'), f.short, m.group(0)[:-1]), '%s:%d' % (f.file, n.l), 'written by an owner',
                              '%s writes the parameter array directly, bypassing the typed setter' % f.short)
        # loops
        for loop in [n for n in f.nodes if n.k == 'ForStmt']:
            body, cond, init = loop.kid('body'), loop.kid('cond'), loop.kid('init')
            if body is None or cond is None or init is None:
                continue
            vars_ = [v.n for v in init.walk() if v.k == 'VarDecl']
            if len(vars_) != 1:
                continue
            v = vars_[0]
            used = set()
            for x in body.walk():
                if x.k == 'ArraySubscriptExpr' and render(strip(x.kids[1])) == v:
                    base = strip(x.kids[0])
                    # _currentSettings->_intParamValues[i]  or  settings.intParam.name[i]
                    for y in base.walk():
                        if y.k == 'MemberExpr' and y.short in arrs:
                            used.add(y.short)
            if not used:
                continue
            ctxt = render(cond)
            for a in sorted(used):
                want = arrs[a]
                others = set(arrs.values()) - {want}
                key = '%s::%s|loop|%s' % ((f.cls or '').replace(C, 'SoPlexBase'), f.short, a)
                if want in ctxt:
                    rep.ok('R15.4', key, '%s:%d' % (f.file, loop.l), 'bounded by ' + want)
                elif any(o in ctxt for o in others):
                    rep.bad('R15.4', key, '%s:%d' % (f.file, loop.l), 'the loop over %s is bounded by %s instead of %s' % (a, [o for o in others if o in ctxt][0], want))
                else:
                    rep.ok('R15.4', key, '%s:%d' % (f.file, loop.l), 'bound %s (not a COUNT constant)' % ctxt, nontrivial=False)
    if nw < 6:
        raise AnalysisBroken('only %d writes to the parameter arrays found' % nw)


def lp_effects(fb, rep):
    rep.rule('R15.5', 'typed setters mutate the LPs only in the objective-sense, objective-offset and sync-mode arms', floor=3)
    lpmut_real = M.lp_mutators(fb, 'double')
    lpmut_rat = M.lp_mutators(fb, 'Rational')
    allowed = {'setIntParam': {'OBJSENSE', 'SYNCMODE'}, 'setRealParam': {'OBJ_OFFSET', 'INFTY'}, 'setBoolParam': set()}
    for setter in ('setBoolParam', 'setIntParam', 'setRealParam'):
        f = fb.one(C + '::' + setter)
        sw = [n for n in f.nodes if n.k == 'SwitchStmt' and render(n.kid('cond')) == 'param']
        if len(sw) != 1:
            rep.unrec('R15.5', setter, f.where(), 'switch(param) not found')
            continue
        offenders = []
        cur = None
        for st in (sw[0].kid('body').kids if sw[0].kid('body') is not None else []):
            x = st
            while x is not None and x.k in ('CaseStmt', 'DefaultStmt'):
                if x.k == 'CaseStmt':
                    cur = enum_name(fb, setter, x.v)
                else:
                    cur = 'default'
                x = x.kid('sub') if x.k == 'CaseStmt' else (x.kids[0] if x.c else None)
            for n in st.walk():
                if n.k == 'CXXMemberCallExpr' and M.obj_text(n) in ('_realLP', '_rationalLP') and n.short in (lpmut_real | lpmut_rat) and not f.in_assert(n):
                    if cur not in allowed[setter]:
                        offenders.append((cur, n))
                if n.k == 'CXXMemberCallExpr' and n.obj() is not None and n.obj().k == 'CXXThisExpr' and (M.PAT.match(n.short) or n.short.startswith('_sync') or M.PAT.match(n.short[1:] if n.short.startswith('_') else 'x')):
                    if cur not in allowed[setter]:
                        offenders.append((cur, n))
        rep.check(not offenders, 'R15.5', setter + '|lp-untouched', f.where(), 'LP mutations only in arms %s' % sorted(allowed[setter]),
                  'arm %s changes the LP: %s' % (offenders[0][0] if offenders else '', render(offenders[0][1]) if offenders else ''))


# ---------------------------------------------------------------------------------------------------
def front_end_signature(fb, f, rep):
    """per parameter type branch: (type literal, COUNT, table, name-compare exactness, converters, setter)"""
    sig = {}
    for n in f.nodes:
        if n.k != 'IfStmt':
            continue
        c = strip(n.kid('cond'))
        txt = render(c)
        # the type token is NUL-terminated: strcmp (exact) and strncmp(.., strlen(literal)) (prefix) are the two idioms
        m = re.match(r'^\(strncmp\(paramTypeString, "(\w+)", (\d+)\) == 0\)$', txt) or re.match(r'^\(strcmp\(paramTypeString, "(\w+)"\) == 0\)$', txt)
        if not m:
            continue
        typ = m.group(1)
        th = n.kid('then')
        counts_, tables, convs, setters, cmps = set(), set(), set(), set(), []
        for x in th.walk():
            if x.k == 'DeclRefExpr' and x.dk == 'enum' and x.short.endswith('PARAM_COUNT'):
                counts_.add(x.short)
            if x.k == 'CallExpr' and x.short in ('stoi', 'stol', 'stoul', 'stod', 'stof', 'stold', 'strtol', 'atoi', 'atof', 'strtod'):
                convs.add(x.short)
            if x.k == 'CallExpr' and x.short == 'strncasecmp':
                lit = [y.v for y in x.walk() if y.k == 'StringLiteral']
                convs.add('lit:' + (lit[0] if lit else '?'))
            if x.k == 'CXXMemberCallExpr' and x.obj() is not None and x.obj().k == 'CXXThisExpr' and x.short.startswith('set'):
                a = x.args()
                setters.add((x.short, render(a[1]) if len(a) > 1 and x.short != 'setBoolParam' else (render(a[1]) if len(a) > 1 else '')))
            if x.k == 'CallExpr' and x.short in ('strncmp', 'strcmp') and 'paramName' in render(x):
                a = x.args()
                tab = [y.short for y in x.walk() if y.k == 'MemberExpr' and y.short in ('boolParam', 'intParam', 'realParam', 'rationalParam')]
                tables.update(tab)
                if x.short == 'strncmp':
                    ln = strip(a[2])
                    cmps.append((x, ln.v if ln.k == 'IntegerLiteral' else None, render(a[2])))
                else:
                    cmps.append((x, 10 ** 9, 'strcmp'))
        sig[typ] = dict(counts=counts_, tables=tables, convs=convs, setters=setters, cmps=cmps, node=n)
    return sig


def front_ends(fb, rep):
    rep.rule('R15.6', 'text front ends: exact name comparison against the type\'s own table, bounded by its own COUNT, same conversion and same typed setter in both parsers', floor=14)
    a = fb.one(C + '::_parseSettingsLine')
    b = fb.one(C + '::parseSettingsString')
    sa, sb = front_end_signature(fb, a, rep), front_end_signature(fb, b, rep)
    want = {'bool': ('BOOLPARAM_COUNT', 'boolParam', 'setBoolParam'), 'int': ('INTPARAM_COUNT', 'intParam', 'setIntParam'), 'real': ('REALPARAM_COUNT', 'realParam', 'setRealParam')}
    # longest parameter name (from the tables) decides what an exact strncmp needs
    maxlen = 0
    for enum in ('BoolParam', 'IntParam', 'RealParam'):
        ctor = fb.one('%s::Settings::%s::%s' % (C, enum, enum), nparams=0)
        t, _ = table_of(fb, ctor)
        for r in t.get('name', {}).values():
            for x in r.walk():
                if x.k == 'StringLiteral' and x.v:
                    maxlen = max(maxlen, len(x.v))
    for f, s in ((a, sa), (b, sb)):
        for typ, (cnt, tab, setter) in sorted(want.items()):
            key = '%s|%s' % (f.short, typ)
            if typ not in s:
                rep.bad('R15.6', key + '|branch', f.where(), 'no branch for parameter type "%s"' % typ)
                continue
            e = s[typ]
            wh = '%s:%d' % (f.file, e['node'].l)
            rep.check(e['counts'] == {cnt}, 'R15.6', key + '|count', wh, 'search bounded by ' + cnt, 'the name search is bounded by %s, expected %s' % (sorted(e['counts']), cnt))
            rep.check(e['tables'] == {tab}, 'R15.6', key + '|table', wh, 'names from ' + tab, 'names are looked up in %s, expected %s' % (sorted(e['tables']), tab))
            rep.check(len(e['setters']) >= 1 and all(x[0] == setter for x in e['setters']), 'R15.6', key + '|setter', wh, 'calls ' + setter, 'calls %s, expected %s' % (sorted(x[0] for x in e['setters']), setter))
            for x, ln, txt in e['cmps']:
                rep.check(ln is not None and ln > maxlen, 'R15.6', key + '|exact-name-compare', '%s:%d' % (f.file, x.l), 'compares %s characters (longest name has %d)' % (ln, maxlen),
                          'the name comparison is limited to %s characters: a name that merely starts with / is a prefix of a parameter name is accepted (longest name has %d characters)' % (txt, maxlen))
            if not e['cmps']:
                rep.unrec('R15.6', key + '|exact-name-compare', wh, 'name comparison not found')
    for typ in sorted(want):
        if typ in sa and typ in sb:
            ea, eb = sa[typ], sb[typ]
            same = ea['convs'] == eb['convs'] and sorted(ea['setters']) == sorted(eb['setters'])
            rep.check(same, 'R15.6', 'siblings|%s' % typ, a.where(), 'same conversion %s and setter calls in both parsers' % sorted(ea['convs']),
                      'the two parsers differ for type %s: %s / %s  vs  %s / %s' % (typ, sorted(ea['convs']), sorted(ea['setters']), sorted(eb['convs']), sorted(eb['setters'])))
    # random seed branch
    for f in (a, b):
        seeds = [n for n in f.nodes if M.is_this_call(n, 'setRandomSeed')]
        rep.check(len(seeds) == 1, 'R15.6', f.short + '|uint|random_seed', f.where(), 'uint:random_seed reaches setRandomSeed', 'uint:random_seed does not reach setRandomSeed')


def real_values_notation(fb, rep):
    """R15.8: see c14.real_notation - re-loading a saved settings file reproduces real parameters only if they were written in scientific notation"""
    import c14
    rep.rule('R15.8', 'saveSettingsFile writes the real parameters in scientific notation', floor=1)
    ok, wh, det = c14.real_notation(fb)
    rep.check(ok, 'R15.8', 'saveSettingsFile|real|notation', wh, det, det)


def bool_literals(fb, rep):
    """R15.7: the text front ends accept a boolean value only if the WHOLE value is one of the literals.  A length-limited comparison whose
    limit does not exceed the literal's length accepts every text that merely starts with it ("truex"), and a strtol/atoi fallback turns
    every non-numeric text into 0 (and takes its third argument as a base, not a length)."""
    rep.rule('R15.7', 'boolean values in the text front ends are compared exactly with the literals (no prefix match, no numeric fallback)', floor=8)
    k = 0
    for nm in ('_parseSettingsLine', 'parseSettingsString'):
        f = fb.one(C + '::' + nm)
        lit = [n for n in f.nodes if n.k == 'CallExpr' and n.short in ('strncasecmp', 'strncmp', 'strcasecmp', 'strcmp') and any(strip(a).k == 'StringLiteral' and (strip(a).v or '').lower() in ('true', 'false', 't', 'f', '1', '0') for a in n.args())]
        if len(lit) < 4:
            raise AnalysisBroken('%s: comparisons with the boolean literals not found' % nm)
        for n in lit:
            k += 1
            s_ = [strip(a) for a in n.args() if strip(a).k == 'StringLiteral'][0]
            key = '%s|%s("%s")' % (nm, n.short, s_.v)
            wh = '%s:%d' % (f.file, n.l)
            if n.short in ('strncasecmp', 'strncmp'):
                lim = const_eval(n.args()[2], fb) if len(n.args()) > 2 else None
                rep.check(lim is not None and lim > len(s_.v), 'R15.7', key, wh, 'limit %s covers the terminator' % lim,
                          '%s compares only the first %s characters with "%s": every value that starts with it is accepted' % (n.short, lim, s_.v))
            else:
                rep.ok('R15.7', key, wh, 'whole-string comparison')
        # numeric fallbacks in the boolean branch: the if statements that contain the literal comparisons
        conds = set()
        for n in lit:
            for a in f.ancestors(n):
                if a.k == 'IfStmt' and any(x.i == n.i for x in a.kid('cond').walk()):
                    conds.add(a.i)
        for ci in sorted(conds):
            a = f.nodes[ci] if isinstance(f.nodes, list) else [x for x in f.nodes if x.i == ci][0]
            num = [x for x in a.kid('cond').walk() if x.k == 'CallExpr' and x.short in ('strtol', 'atoi', 'strtoul', 'atol')]
            k += 1
            rep.check(not num, 'R15.7', '%s|numeric-fallback@%d' % (nm, a.l), '%s:%d' % (f.file, a.l), 'no numeric fallback',
                      'the boolean test falls back on %s: every non-numeric text converts to 0 and is accepted as a boolean value' % (render(num[0])[:50] if num else ''))
    if k < 8:
        raise AnalysisBroken('R15.7: only %d boolean literal comparisons found' % k)
