"""C07 — the floating-point LP and the rational LP never drift apart (structural clauses)."""
import re
from engine import render, strip, Graph, Assume, MustSummaries, param_call, must, reachable_events, case_arm_nodes, decision_table
from facts import AnalysisBroken, CALL_KINDS
import modifiers as M

EXPLANATION = (
    "Decides structural necessary conditions of C07 on the resolved program (explicit instantiation of SoPlexBase<double> and "
    "everything it uses): R07.1 every public LP modifier x sync mode performs exactly the effects the mode demands (real LP, "
    "rational LP, range-type arrays, solution invalidation) on every non-aborting CFG path, computed by pruning the CFG under the "
    "assumption intParam(SYNCMODE)==m and a must-pass-through check; R07.2 the two mutations of one modifier draw their values "
    "from the same parameters / the rational getter of the same quantity, range-type arguments are (lhs,rhs)/(lower,upper) in "
    "order; R07.3 bulk synchronisation points re-derive the range types and drop stale state; R07.4 _rangeTypeReal and "
    "_rangeTypeRational have the same decision table; R07.5 the range-type arrays are only read where a rational LP exists; "
    "R07.6 the permutation removals remap the range types with the same permutation. NOT decided: exactness of Rational(double), "
    "that SPxLPBase<Rational>::operator=(SPxLPBase<double>) copies every coefficient, anything about values at run time.")


def run(fb, rep, tier):
    rep.extra['explanation'] = EXPLANATION
    rep.extra['assumptions'] = [
        'exceptional paths (throw, failed assert) are not normal exits and carry no obligation',
        'a loop whose header is reached counts as executing its body for "effect present" obligations',
        'the analysed instantiation is R=double; the boosted instantiations come from the same template pattern',
    ]
    mods = M.discover(fb)
    nreal = sum(1 for m in mods if m.field == 'Real')
    nrat = sum(1 for m in mods if m.field == 'Rational')
    rep.rule('R07.0', 'modifier table: public non-const SoPlexBase<double> methods matching the verb/what/field grammar (30 Real + 42 Rational confirmed by reading)', floor=M.FLOOR_REAL + M.FLOOR_RATIONAL)
    for m in mods:
        rep.ok('R07.0', m.key, m.fn.where(), 'verb=%s what=%s field=%s wrapper=%s' % (m.verb, m.what, m.field, m.wrapper), nontrivial=False)
    if nreal < M.FLOOR_REAL or nrat < M.FLOOR_RATIONAL:
        raise AnalysisBroken('modifier discovery found %d Real / %d Rational, confirmed %d / %d' % (nreal, nrat, M.FLOOR_REAL, M.FLOOR_RATIONAL))

    rep.rule('R07.1', 'per modifier x sync mode: required effects are on every normal path, forbidden effects are unreachable (CFG pruned under intParam(SYNCMODE)==m)', floor=300)
    rep.rule('R07.2', 'the real-side and rational-side mutation of one modifier take their values from the same parameters or from the rational getter of the same quantity; range-type arguments are ordered (lhs,rhs)/(lower,upper)', floor=80)

    real_mut = M.lp_mutators(fb, 'double')
    rat_mut = M.lp_mutators(fb, 'Rational')

    for m in mods:
        fn = m.fn
        w = fn.where()
        if m.wrapper:
            # forwards to the perm overload of the same family after building the permutation
            builder = '_rangeToPerm' if m.what.endswith('Range') else '_idxToPerm'
            ok1, p1, _ = must(fn, None, lambda n: M.is_this_call(n, builder))
            fam = m.family

            def is_fwd(n, fam=fam):
                return n.k == 'CXXMemberCallExpr' and n.short == fam and len(n.args()) == 1
            ok2, p2, _ = must(fn, None, is_fwd)
            rep.check(ok1, 'R07.1', m.key + '|wrapper|builds-perm', w, 'every path calls ' + builder, 'a path reaches the exit without calling %s' % builder, path=p1)
            rep.check(ok2, 'R07.1', m.key + '|wrapper|forwards', w, 'every path forwards to %s(perm)' % fam, 'a path reaches the exit without forwarding to %s(perm)' % fam, path=p2)
            # builder precedes the forward in every block that has both
            continue

        def real_effect(n, m=m):
            return M.is_this_call(n, m.helper) or M.is_lp_call(n, '_realLP', m.lpname)

        def rat_effect(n, m=m):
            return M.is_lp_call(n, '_rationalLP', m.lpname)

        def any_real_mut(n, m=m):
            if n.k == 'CXXMemberCallExpr' and M.obj_text(n) == '_realLP' and n.short in real_mut:
                return True
            return n.k == 'CXXMemberCallExpr' and n.obj() is not None and n.obj().k == 'CXXThisExpr' and n.short.startswith('_') and n.short.endswith('Real') and M.PAT.match(n.short[1:]) is not None

        def any_rat_touch(n):
            if n.k == 'CXXMemberCallExpr' and M.obj_text(n) == '_rationalLP':
                return True
            return False

        def types_touch(n):
            if n.k == 'MemberExpr' and n.dk == 'field' and n.short in ('_rowTypes', '_colTypes'):
                return True
            return False

        def invalidate(n):
            return M.is_this_call(n, '_invalidateSolution')

        tf = m.types_field()

        def types_effect(n, m=m, tf=tf):
            if m.verb == 'add':
                return M.is_this_call(n, '_completeRangeTypesRational')
            if m.verb == 'remove':
                return M.types_call(n, tf, ('reSize',))
            if m.what == 'LP':
                return False
            if tf is None:
                return False
            return M.types_write(n, tf)

        for mode in M.MODES:
            A = M.mode_assume(mode)
            key = m.key + '|' + mode
            if m.field == 'Real':
                ok, p, _ = must(fn, A, real_effect)
                rep.check(ok, 'R07.1', key + '|real-effect', w, 'mutates the real LP (%s / _realLP->%s)' % (m.helper, m.lpname),
                          'a normal path does not mutate the real LP through %s or _realLP->%s' % (m.helper, m.lpname), path=p)
                ok, p, _ = must(fn, A, invalidate)
                rep.check(ok, 'R07.1', key + '|invalidate', w, '_invalidateSolution on every path', 'a normal path skips _invalidateSolution()', path=p)
                if mode == 'SYNCMODE_AUTO':
                    ok, p, _ = must(fn, A, rat_effect)
                    rep.check(ok, 'R07.1', key + '|rational-effect', w, 'mutates the rational LP (_rationalLP->%s)' % m.lpname,
                              'in AUTO mode a normal path does not call _rationalLP->%s' % m.lpname, path=p)
                    if m.what == 'LP':
                        for fld in ('_rowTypes', '_colTypes'):
                            ok, p, _ = must(fn, A, lambda n, fld=fld: M.types_call(n, fld, ('clear',)))
                            rep.check(ok, 'R07.1', key + '|types|' + fld, w, fld + '.clear()', 'in AUTO mode %s is not cleared' % fld, path=p)
                    elif tf is not None:
                        ok, p, _ = must(fn, A, types_effect)
                        rep.check(ok, 'R07.1', key + '|types', w, 'range types of the touched %s re-derived' % ('rows' if tf == '_rowTypes' else 'columns'),
                                  'in AUTO mode a normal path leaves %s stale' % tf, path=p)
                else:
                    ev = reachable_events(fn, A, lambda n: any_rat_touch(n) or types_touch(n))
                    rep.check(not ev, 'R07.1', key + '|no-rational-touch', w, 'rational LP and range types untouched',
                              'in %s the rational LP / range types are touched: %s' % (mode, ', '.join(sorted(set(render(e) for e in ev))[:3])))
            else:
                if mode == 'SYNCMODE_ONLYREAL':
                    # real-only mode: the floating-point LP is the only LP; a rational modifier must not change it
                    ev = reachable_events(fn, A, any_real_mut)
                    rep.check(not ev, 'R07.1', key + '|no-real-touch', w, 'real LP untouched in real-only mode',
                              'in real-only mode a rational modifier changes the real LP: %s' % ', '.join(sorted(set(render(e) for e in ev))[:3]))
                    ev2 = reachable_events(fn, A, any_rat_touch)
                    if ev2:
                        rep.notes.append('sibling deviant (not judged by C07): %s dereferences _rationalLP in real-only mode, where the other rational modifiers return early' % m.key)
                    continue
                ok, p, _ = must(fn, A, rat_effect)
                rep.check(ok, 'R07.1', key + '|rational-effect', w, 'mutates the rational LP (_rationalLP->%s)' % m.lpname,
                          'a normal path does not call _rationalLP->%s' % m.lpname, path=p)
                ok, p, _ = must(fn, A, invalidate)
                rep.check(ok, 'R07.1', key + '|invalidate', w, '_invalidateSolution on every path', 'a normal path skips _invalidateSolution()', path=p)
                if m.what == 'LP':
                    for fld in ('_rowTypes', '_colTypes'):
                        ok, p, _ = must(fn, A, lambda n, fld=fld: M.types_call(n, fld, ('clear',)))
                        rep.check(ok, 'R07.1', key + '|types|' + fld, w, fld + '.clear()', '%s is not cleared' % fld, path=p)
                elif tf is not None:
                    ok, p, _ = must(fn, A, types_effect)
                    rep.check(ok, 'R07.1', key + '|types', w, 'range types re-derived', 'a normal path leaves %s stale' % tf, path=p)
                if mode == 'SYNCMODE_AUTO':
                    ok, p, _ = must(fn, A, real_effect)
                    rep.check(ok, 'R07.1', key + '|real-effect', w, 'mirrors the change into the real LP',
                              'in AUTO mode a normal path does not mirror the change into the real LP (%s / _realLP->%s)' % (m.helper, m.lpname), path=p)
                else:
                    ev = reachable_events(fn, A, any_real_mut)
                    rep.check(not ev, 'R07.1', key + '|no-real-touch', w, 'real LP untouched in manual mode',
                              'in manual mode the real LP is mutated: %s' % ', '.join(sorted(set(render(e) for e in ev))[:3]))

        # ---------------- R07.2 value agreement (AUTO mode)
        A = M.mode_assume('SYNCMODE_AUTO')
        rc = reachable_events(fn, A, real_effect)
        qc = reachable_events(fn, A, rat_effect)
        if m.what == 'LP':
            continue
        if len(rc) != 1 or len(qc) != 1:
            rep.unrec('R07.2', m.key + '|values', w, 'expected one real-side and one rational-side mutation in AUTO mode, found %d/%d' % (len(rc), len(qc)))
            continue
        r_args = [a for a in rc[0].args() if a.k != 'CXXDefaultArgExpr']
        q_args = [a for a in qc[0].args()]
        # drop the trailing scale flag of direct _realLP calls
        verdict, detail = value_agreement(fb, m, rc[0], qc[0])
        rep.inst('R07.2', m.key + '|values', w, verdict, detail)

        # range-type argument order
        for n in fn.nodes:
            if n.k == 'CXXMemberCallExpr' and n.short in ('_rangeTypeReal', '_rangeTypeRational') and n.obj() is not None and n.obj().k == 'CXXThisExpr':
                par = n.parent
                inassert = any(a.k == 'ConditionalOperator' and a.l == n.l and any(x.k == 'CallExpr' and x.short == '__assert_fail' for x in a.walk()) for a in fn.ancestors(n))
                if inassert:
                    continue
                a0, a1 = [render(a).lower() for a in n.args()]
                fld = None
                for anc in fn.ancestors(n):
                    if M.types_write(anc, '_rowTypes'):
                        fld = '_rowTypes'
                    elif M.types_write(anc, '_colTypes'):
                        fld = '_colTypes'
                    if fld:
                        break
                if fld is None:
                    continue
                lo, hi = ('lhs', 'rhs') if fld == '_rowTypes' else ('lower', 'upper')
                lo2, hi2 = ('lower', 'upper') if fld == '_rowTypes' else ('lhs', 'rhs')
                key = m.key + '|range-type-args|' + fld
                if lo in a0 and hi in a1 and hi not in a0 and lo not in a1:
                    rep.ok('R07.2', key, '%s:%d' % (fn.file, n.l), '%s(%s, %s)' % (n.short, a0, a1))
                elif (hi in a0 and lo in a1) or (lo2 in a0 or hi2 in a1 or lo2 in a1 or hi2 in a0):
                    rep.bad('R07.2', key, '%s:%d' % (fn.file, n.l), '%s = %s(%s, %s): arguments are not (%s, %s) of the same row/column' % (fld, n.short, a0, a1, lo, hi))
                else:
                    rep.unrec('R07.2', key, '%s:%d' % (fn.file, n.l), 'cannot classify arguments %s, %s' % (a0, a1))

    r07_3(fb, rep)
    r07_4(fb, rep)
    r07_5(fb, rep)
    r07_6(fb, rep, mods)
    r07_7(fb, rep)
    r07_8(fb, rep)
    r07_9(fb, rep)
    r07_10(fb, rep)


GETTER_QUANT = {'lhsRational': 'lhs', 'rhsRational': 'rhs', 'lowerRational': 'low', 'upperRational': 'up', 'objRational': 'obj',
                'maxObjRational': 'obj', 'rowVector': 'row', 'colVector': 'col'}


def param_refs(n):
    s = set()
    for x in n.walk():
        if x.k == 'DeclRefExpr' and x.dk == 'parm':
            s.add(x.n)
    return s


def local_sources(fn, name, seen=None):
    """parameters that flow into local variable `name` through its initialiser / assignments (one level, transitive over locals)"""
    seen = seen or set()
    out = set()
    for n in fn.nodes:
        if n.k == 'VarDecl' and n.n == name:
            for x in n.walk():
                if x.k == 'DeclRefExpr' and x.dk == 'parm':
                    out.add(x.n)
    return out


def value_agreement(fb, m, rcall, qcall):
    """compare parameter sources of the real-side and rational-side mutation"""
    fn = m.fn
    r_args = [a for a in rcall.args() if a.k != 'CXXDefaultArgExpr']
    q_args = [a for a in qcall.args() if a.k != 'CXXDefaultArgExpr']
    # a direct _realLP->changeObj(i, v, scale) carries the scale flag as last argument
    if M.obj_text(rcall) == '_realLP' and len(r_args) == len(q_args) + 1:
        r_args = r_args[:-1]
    rs = set()
    for a in r_args:
        rs |= param_refs(a)
    qs = set()
    for a in q_args:
        qs |= param_refs(a)
    # locals built from parameters (e.g. a DSVector assembled from the GMP arrays) count as those parameters
    for a in r_args + q_args:
        for x in a.walk():
            if x.k == 'DeclRefExpr' and x.dk == 'local':
                src = local_sources(fn, x.n)
                if a in r_args:
                    rs |= src
                else:
                    qs |= src
    from report import HOLDS, VIOLATED, UNRECOGNISED
    if rs == qs and len(r_args) == len(q_args):
        # positional agreement: the k-th argument of both calls references the same parameters
        for k, (a, b) in enumerate(zip(r_args, q_args)):
            if param_refs(a) != param_refs(b) and param_refs(a) and param_refs(b):
                return VIOLATED, 'argument %d differs: real side %s, rational side %s' % (k, render(a), render(b))
        return HOLDS, 'real(%s) / rational(%s)' % (', '.join(render(a) for a in r_args), ', '.join(render(a) for a in q_args))
    missing = qs - rs
    extra = rs - qs
    if extra:
        return VIOLATED, 'real-side mutation uses parameter(s) %s that the rational-side mutation does not' % sorted(extra)
    # values read back from the rational LP: every real-side value argument that has no value parameter must be a
    # rational getter of the callee parameter's own quantity at the same index
    callee = fb.funcs.get(rcall.u)
    pnames = [p[0].lower() for p in callee.params] if callee is not None else []
    getters = []
    # a local container that is filled by builder calls (lpcolset.add(obj, lower, vec, upper) in a loop) stands for the
    # arguments of those builder calls
    expanded = []
    for k, a in enumerate(r_args):
        sa = strip(a)
        if sa.k == 'DeclRefExpr' and sa.dk == 'local':
            builders = [c for c in fn.nodes if c.k == 'CXXMemberCallExpr' and c.obj() is not None and render(c.obj()) == sa.n and c.short in ('add', 'append', 'create')]
            if builders:
                for b in builders:
                    cal = fb.funcs.get(b.u)
                    bp = [p[0].lower() for p in cal.params] if cal is not None else []
                    for j, ba in enumerate(b.args()):
                        expanded.append((ba, bp[j] if j < len(bp) else ''))
                continue
        expanded.append((a, pnames[k] if k < len(pnames) else ''))
    for a, pn in expanded:
        gs = [x for x in a.walk() if x.k == 'CXXMemberCallExpr' and x.short in GETTER_QUANT]
        for g in gs:
            q = GETTER_QUANT[g.short]
            getters.append(g.short)
            quant_words = ('lhs', 'rhs', 'low', 'up', 'obj', 'row', 'col', 'vec')
            if pn and any(wd in pn for wd in quant_words) and q not in pn and not (q in ('row', 'col') and ('vec' in pn or 'row' in pn or 'col' in pn)):
                return VIOLATED, 'argument %s of %s is fed from %s' % (pn, rcall.short, render(g))
    if not getters:
        return VIOLATED, 'real-side mutation ignores parameter(s) %s and does not read the value back from the rational LP' % sorted(missing)
    want = {'Lhs': {'lhsRational'}, 'Rhs': {'rhsRational'}, 'Range': {'lhsRational', 'rhsRational'}, 'Lower': {'lowerRational'},
            'Upper': {'upperRational'}, 'Bounds': {'lowerRational', 'upperRational'}, 'Obj': {'objRational', 'maxObjRational'},
            'Row': {'lhsRational', 'rhsRational', 'rowVector'}, 'Rows': {'lhsRational', 'rhsRational', 'rowVector'},
            'Col': {'lowerRational', 'upperRational', 'colVector', 'maxObjRational'}, 'Cols': {'lowerRational', 'upperRational', 'colVector', 'maxObjRational'},
            'Element': set()}
    w = want.get(m.what)
    if w is None:
        return UNRECOGNISED, 'no getter table for ' + m.what
    if m.what == 'Obj':
        okset = bool(set(getters) & w) and set(getters) <= w
    else:
        okset = set(getters) == w
    if not okset:
        return VIOLATED, 'real-side values come from %s, expected the getters %s' % (sorted(set(getters)), sorted(w))
    return HOLDS, 'real side reads back %s from the rational LP' % sorted(set(getters))


# --------------------------------------------------------------------------------------------------
def r07_3(fb, rep):
    rep.rule('R07.3', 'bulk synchronisation points re-derive the range types and drop stale state', floor=8)
    C = M.CLS
    f = fb.one(C + '::_syncLPRational')
    w = f.where()
    ok, p, _ = must(f, None, lambda n: M.is_this_call(n, '_recomputeRangeTypesRational'))
    rep.check(ok, 'R07.3', '_syncLPRational|recompute-types', w, 'calls _recomputeRangeTypesRational on every path', 'a path skips _recomputeRangeTypesRational()', path=p)
    ok, p, _ = must(f, None, lambda n: n.k in ('CXXOperatorCallExpr', 'BinaryOperator') and n.o == '=' and render(strip(n.args()[0] if n.k == 'CXXOperatorCallExpr' else n.kids[0])) in ('*_rationalLP', '(*_rationalLP)') )
    rep.check(ok, 'R07.3', '_syncLPRational|copy', w, '*_rationalLP = *_realLP', 'a path does not assign *_rationalLP', path=p)

    f = fb.one(C + '::_syncLPReal')
    w = f.where()
    ok, p, _ = must(f, None, lambda n: n.k in ('BinaryOperator',) and n.o == '=' and render(n.kids[0]) == '_hasBasis' and render(n.kids[1]) == 'false')
    rep.check(ok, 'R07.3', '_syncLPReal|hasBasis', w, '_hasBasis = false', 'a path leaves _hasBasis unchanged', path=p)
    ok, p, _ = must(f, None, lambda n: n.k == 'CXXMemberCallExpr' and n.short == 'clear' and M.obj_text(n) == '_rationalLUSolver')
    rep.check(ok, 'R07.3', '_syncLPReal|clearLU', w, '_rationalLUSolver.clear()', 'a path keeps the rational LU cache', path=p)

    f = fb.one(C + '::_recomputeRangeTypesRational')
    w = f.where()
    for fld in ('_rowTypes', '_colTypes'):
        ok, p, _ = must(f, None, lambda n, fld=fld: M.types_write(n, fld))
        rep.check(ok, 'R07.3', '_recomputeRangeTypesRational|' + fld, w, 'rewrites %s for all entries' % fld, '%s is not rewritten' % fld, path=p)
        ok, p, _ = must(f, None, lambda n, fld=fld: M.types_call(n, fld, ('reSize',)))
        rep.check(ok, 'R07.3', '_recomputeRangeTypesRational|resize|' + fld, w, 'resizes ' + fld, '%s is not resized' % fld, path=p)
    f = fb.one(C + '::_completeRangeTypesRational')
    w = f.where()
    for fld in ('_rowTypes', '_colTypes'):
        ok, p, _ = must(f, None, lambda n, fld=fld: M.types_write(n, fld) or M.types_call(n, fld, ('append',)))
        rep.check(ok, 'R07.3', '_completeRangeTypesRational|' + fld, w, 'extends ' + fld, '%s is not extended' % fld, path=p)

    # setIntParam(SYNCMODE): switching on from real-only creates + syncs the rational LP; switching to real-only frees it
    f = fb.one(C + '::setIntParam')
    w = f.where()
    enum = fb.enums.get(C + '::IntParam')
    if enum is None:
        raise AnalysisBroken('enum IntParam not found')
    val = dict(enum['items']).get('SYNCMODE')
    sync_case = [c for c in f.nodes if c.k == 'CaseStmt' and c.v == val and c.parent is not None and c.parent.parent is not None
                 and c.parent.parent.k == 'SwitchStmt' and render(c.parent.parent.kid('cond')) == 'param']
    if len(sync_case) != 1:
        rep.unrec('R07.3', 'setIntParam|SYNCMODE-arm', w, 'case SYNCMODE not found')
    else:
        arm = case_arm_nodes(f, sync_case[0])
        inner = [n for n in arm if n.k == 'SwitchStmt' and render(n.kid('cond')) == 'value']
        modes = {}
        for e in fb.enums.values():
            for nm, v in e['items']:
                if nm in M.MODES and e['name'].startswith(C + '::'):
                    modes[nm] = v
        if len(inner) != 1 or len(modes) != 3:
            rep.unrec('R07.3', 'setIntParam|SYNCMODE-arm', w, 'inner switch(value) not found')
        else:
            arms = {}
            for c in inner[0].walk():
                if c.k == 'CaseStmt':
                    for nm, v in modes.items():
                        if c.v == v:
                            arms[nm] = case_arm_nodes(f, c)
            a = arms.get('SYNCMODE_AUTO', [])
            rep.check(any(M.is_this_call(n, '_syncLPRational') for n in a), 'R07.3', 'setIntParam|SYNCMODE|AUTO-syncs', w,
                      'switching to AUTO calls _syncLPRational', 'switching from real-only to AUTO does not build and sync the rational LP')
            sy = [n for n in a if M.is_this_call(n, '_syncLPRational')]
            guarded = all(any(x.k == 'IfStmt' and 'SYNCMODE_ONLYREAL' in render(x.kid('cond')) and '==' in render(x.kid('cond')) for x in f.ancestors(n)) for n in sy)
            rep.check(bool(sy) and guarded, 'R07.3', 'setIntParam|SYNCMODE|AUTO-syncs-only-from-ONLYREAL', w,
                      'the sync happens only when coming from real-only mode (a MANUAL->AUTO switch must not overwrite the rational LP)',
                      'the rational LP is overwritten on a switch to AUTO even when one already exists')
            a = arms.get('SYNCMODE_ONLYREAL', [])
            rep.check(any(n.k == 'CallExpr' and n.short == 'spx_free' and '_rationalLP' in render(n) for n in a), 'R07.3', 'setIntParam|SYNCMODE|ONLYREAL-frees', w,
                      'switching to real-only frees _rationalLP', 'entering real-only mode keeps a stale rational LP')
            a = arms.get('SYNCMODE_MANUAL', [])
            rep.check(any(M.is_this_call(n, '_ensureRationalLP') for n in a), 'R07.3', 'setIntParam|SYNCMODE|MANUAL-ensures', w,
                      'switching to MANUAL creates the rational LP', 'switching to MANUAL leaves _rationalLP null')

    # reading a file in AUTO mode synchronises the other LP
    for name, sync in (('_readFileReal', '_syncLPRational'), ('_readFileRational', '_syncLPReal')):
        f = fb.one(C + '::' + name)
        has = [n for n in f.nodes if M.is_this_call(n, sync)]
        guarded = False
        for n in has:
            for a in f.ancestors(n):
                if a.k == 'IfStmt':
                    c = a.kid('cond')
                    if c is not None and 'SYNCMODE_AUTO' in render(c):
                        guarded = True
        rep.check(bool(has) and guarded, 'R07.3', name + '|sync-after-read', f.where(), 'success arm calls %s under SYNCMODE_AUTO' % sync, 'a successful read in AUTO mode does not call %s' % sync)

    # changing INFTY re-derives the range types
    f = fb.one(C + '::setRealParam')
    enum = fb.enums.get(C + '::RealParam')
    if enum is None:
        raise AnalysisBroken('enum RealParam not found')
    val = dict(enum['items']).get('INFTY')
    arm = None
    for c in f.nodes:
        if c.k == 'CaseStmt' and c.v == val:
            arm = case_arm_nodes(f, c)
    if arm is None:
        rep.unrec('R07.3', 'setRealParam|INFTY-arm', f.where(), 'case INFTY not found')
    else:
        rep.check(any(M.is_this_call(n, '_recomputeRangeTypesRational') or M.is_this_call(n, '_recomputeRangeTypesReal') for n in arm) or
                  any(M.is_this_call(n, '_recomputeRangeTypesRational') for n in f.nodes),
                  'R07.3', 'setRealParam|INFTY|recompute', f.where(), 'range types re-derived when infinity changes', 'changing INFTY leaves the range types stale')


def r07_4(fb, rep):
    rep.rule('R07.4', '_rangeTypeReal and _rangeTypeRational have the same decision table and one notion of infinity (the INFTY parameter)', floor=4)
    C = M.CLS
    a = fb.one(C + '::_rangeTypeReal')
    b = fb.one(C + '::_rangeTypeRational')
    ta = decision_table(a)
    tb = decision_table(b)

    def norm(t):
        res = []
        for conds, v in t:
            cs = tuple(c.replace('realParam(INFTY)', 'INF').replace('_rationalNegInfty', '-INF').replace('_rationalPosInfty', 'INF')
                       .replace('-INF', 'NEGINF').replace('(-INF)', 'NEGINF') for c in conds)
            res.append((cs, v))
        return res
    na, nb = norm(ta), norm(tb)
    same = [v for _, v in na] == [v for _, v in nb] and len(na) == len(nb) and len(na) >= 5
    shape = all(len(x[0]) == len(y[0]) and all(('lower' in c1) == ('lower' in c2) and ('upper' in c1) == ('upper' in c2) and c1.startswith('!') == c2.startswith('!')
                                               and (c1.count('<=') , c1.count('>='), c1.count('==')) == (c2.count('<='), c2.count('>='), c2.count('=='))
                                               for c1, c2 in zip(x[0], y[0])) for x, y in zip(na, nb)) if same else False
    rep.check(same and shape, 'R07.4', '_rangeTypeReal~_rangeTypeRational', a.where(), 'tables agree: %s' % [v for _, v in na],
              'decision tables differ: real %s / rational %s' % (na, nb))
    # both classifiers use one notion of infinity: the INFTY parameter (the rational constants are assigned from it in setRealParam)
    for f, ok_src in ((a, ('realParam(INFTY)',)), (b, ('_rationalPosInfty', '_rationalNegInfty'))):
        cmps = [n for n in f.nodes if n.k in ('BinaryOperator', 'CXXOperatorCallExpr') and n.o in ('<=', '>=') and not f.in_assert(n)]
        srcs = []
        for n in cmps:
            r = render(strip(n.kids[1] if n.k == 'BinaryOperator' else n.args()[1]))
            srcs.append(r)
        good = bool(srcs) and all(any(o in r for o in ok_src) for r in srcs)
        rep.check(good, 'R07.4', '%s|infinity-source' % f.short, f.where(), 'thresholds %s' % sorted(set(srcs)),
                  '%s compares with %s: the threshold between finite and infinite must be the INFTY parameter on both sides, otherwise the range types disagree with the rational bounds as soon as INFTY is not the default' % (f.short, sorted(set(srcs))))
    sp = [g for g in fb.methods_of(C) if g.short == 'setRealParam' and g.nodes]
    asg = [n for g in sp for n in g.nodes if ((n.k == 'BinaryOperator' and n.o == '=') or (n.k == 'CXXOperatorCallExpr' and n.o == '=')) and render(strip(n.kids[0] if n.k == 'BinaryOperator' else n.args()[0])) in ('_rationalPosInfty', '_rationalNegInfty')]
    rep.check(len(asg) >= 2, 'R07.4', 'setRealParam|rational-infinity-follows-INFTY', sp[0].where() if sp else '', 'both rational infinities are assigned in setRealParam', 'setRealParam does not assign _rationalPosInfty / _rationalNegInfty: the rational notion of infinity does not follow the INFTY parameter')


def r07_5(fb, rep):
    rep.rule('R07.5', 'every read of _rowTypes/_colTypes outside the exact solver is in a function/arm that is only reached with a rational LP (SYNCMODE != ONLYREAL)', floor=20)
    C = M.CLS
    # functions that may touch the arrays: (a) the modifiers (covered by R07.1), (b) the maintenance helpers, (c) everything
    # defined in solverational.hpp (entry _optimizeRational synchronises first), (d) others must be guarded.
    maint = ('_recomputeRangeTypesRational', '_completeRangeTypesRational', '_recomputeRangeTypesReal', '_completeRangeTypesReal',
             '_rangeTypeReal', '_rangeTypeRational', '_switchRangeType')
    seen = 0
    for f in fb.methods_of(C):
        uses = [n for n in f.nodes if n.k == 'MemberExpr' and n.dk == 'field' and n.short in ('_rowTypes', '_colTypes')]
        if not uses:
            continue
        if M.PAT.match(f.short) or f.short in maint or f.file.endswith('solverational.hpp'):
            rep.ok('R07.5', f.short + '(' + ','.join(M.short_t(t) for _, t in f.params) + ')|' + 'maintainer', f.where(), 'maintains the arrays / exact solver', nontrivial=False)
            seen += 1
            continue
        if f.mk in ('copyassign', 'copyctor', 'ctor', 'defctor', 'dtor'):
            rep.ok('R07.5', f.short + '|special-member', f.where(), 'copies the arrays as a whole', nontrivial=False)
            continue
        # under ONLYREAL every reachable read must be preceded, on every path, by a _syncLPRational (which rebuilds the arrays)
        uses = [n for n in uses if not f.in_assert(n)]
        # x.clear() / x.reSize(n) discard or re-dimension the array: a reset, not a read of its entries
        uses = [n for n in uses if not (n.parent is not None and n.parent.k == 'MemberExpr' and n.parent.short in ('clear', 'reSize', 'reMax'))]
        key = f.short + '(' + ','.join(M.short_t(t) for _, t in f.params) + ')|reads-range-types'
        if not uses:
            rep.ok('R07.5', key, f.where(), 'only inside assert()', nontrivial=False)
            continue
        A = M.mode_assume('SYNCMODE_ONLYREAL')
        g = Graph(f, A)
        r = g.reach(g.entry)
        badn = []
        for n in uses:
            b = g.block_of(n)
            if b in r:
                ok, _ = g.must_pass(lambda x: M.is_this_call(x, '_syncLPRational'), to=b)
                if not ok:
                    badn.append(n)
        if badn:
            # accepted when the function is only called from guarded contexts: callers all in solverational.hpp / maintainers
            callers = [h for h in fb.methods_of(C) if any(c.u == f.u for c in h.calls())]
            if callers and all(h.file.endswith('solverational.hpp') or h.short in maint or M.PAT.match(h.short) for h in callers):
                rep.ok('R07.5', key, f.where(), 'only called from the exact solver / maintainers: %s' % sorted(set(h.short for h in callers)))
            else:
                rep.bad('R07.5', key, '%s:%d' % (f.file, badn[0].l), '%s is read although no rational LP / range types exist in real-only mode (callers: %s)' % (render(badn[0]), sorted(set(h.short for h in callers))[:6]))
        else:
            rep.ok('R07.5', key, f.where(), 'reads are unreachable in real-only mode or preceded by _syncLPRational on every path')


def r07_6(fb, rep, mods):
    rep.rule('R07.6', 'permutation removals remap the range types with the same permutation: X[perm[i]] = X[i] under perm[i] >= 0', floor=4)
    for m in mods:
        if m.verb != 'remove' or m.wrapper or len(m.fn.params) != 1 or not m.fn.params[0][1].endswith('*'):
            continue
        fn = m.fn
        tf = m.types_field()
        perm = fn.params[0][0]
        found = False
        for n in fn.nodes:
            if M.types_write(n, tf):
                l = strip(n.kids[0] if n.k == 'BinaryOperator' else n.args()[0])
                r = strip(n.kids[1] if n.k == 'BinaryOperator' else n.args()[1])
                lt, rt = render(l), render(r)
                found = True
                ok = lt.startswith(tf + '[' + perm + '[') and rt.startswith(tf + '[') and not rt.startswith(tf + '[' + perm)
                # the index inside perm[...] on the left equals the index on the right
                li = lt[len(tf) + 1 + len(perm) + 1:].split(']')[0]
                ri = rt[len(tf) + 1:].split(']')[0]
                ok = ok and li == ri
                # guard perm[i] >= 0
                guard = False
                for a in fn.ancestors(n):
                    if a.k == 'IfStmt' and render(a.kid('cond')) in ('(%s[%s] >= 0)' % (perm, li),):
                        guard = True
                rep.check(ok and guard, 'R07.6', m.key + '|remap', '%s:%d' % (fn.file, n.l), '%s = %s under %s[%s] >= 0' % (lt, rt, perm, li),
                          'range types are not remapped as X[perm[i]] = X[i] under perm[i] >= 0: %s = %s' % (lt, rt))
        if not found:
            rep.bad('R07.6', m.key + '|remap', fn.where(), 'no remapping of %s found' % tf)


def r07_7(fb, rep):
    """R07.7: _rowTypes/_colTypes describe the rows and columns of the rational LP object.  Wherever SoPlexBase creates a rational LP
    (placement new into _rationalLP), both arrays are reset on every path from the creation to the function's exit: cleared, resized,
    recomputed, or assigned as a whole (copy of a solver).  Otherwise a new LP inherits the range types of a freed one."""
    rep.rule('R07.7', 'wherever a rational LP object is created, _rowTypes and _colTypes are reset (cleared / recomputed / assigned) before the function returns', floor=4)
    C = M.CLS
    k = 0
    for f in fb.methods_of(C):
        if f.mk in ('dtor',) or not f.nodes:
            continue
        news = [n for n in f.nodes if n.k == 'CXXNewExpr' and 'SPxLPBase<Rational>' in (n.x.get('at', '') + (n.t or ''))]
        if not news:
            continue
        # only creations that end up in _rationalLP
        for n in news:
            tgt = None
            for a in f.ancestors(n):
                if a.k == 'BinaryOperator' and a.o == '=':
                    tgt = render(a.kids[0])
                    break
            if tgt != '_rationalLP':
                continue
            for fld in ('_rowTypes', '_colTypes'):
                k += 1

                def resets(x, fld=fld):
                    if M.types_call(x, fld, ('clear', 'reSize')):
                        return True
                    if M.is_this_call(x, '_recomputeRangeTypesRational'):
                        return True
                    if x.k == 'CXXOperatorCallExpr' and x.o == '=' and x.args() and render(strip(x.args()[0])) == fld:
                        return True
                    return False
                g = Graph(f, None)
                b = g.block_of(n)
                ok, path = g.must_pass(resets, start=b)
                # a reset in the creating block counts only if it follows the creation
                if ok and b in g.blocks_with(resets):
                    after = [x for x in f.nodes if resets(x) and g.block_of(x) == b and x.i > n.i]
                    if not after:
                        ok2, path = g.must_pass(resets, start=None)
                        succ_ok = all(g.must_pass(resets, start=s_)[0] for s_ in g.succ[b])
                        ok = succ_ok
                rep.check(ok, 'R07.7', '%s|new rational LP|%s' % (f.short, fld), '%s:%d' % (f.file, n.l), '%s is reset after the creation on every path' % fld,
                          '%s creates a rational LP object but a path to its exit leaves %s untouched: the new (empty) LP inherits the range types of whatever LP existed before (sizes disagree, stale entries are extended)' % (f.short, fld),
                          path=g.path_lines(path) if path else None)
    if k < 4:
        raise AnalysisBroken('R07.7: only %d creation sites of the rational LP found' % k)


def r07_8(fb, rep):
    """R07.8: the rational LP is the exact statement of the user's problem.  An assignment `*_rationalLP = *X` (or construction from X) from
    the real LP must not be reachable while that real LP is persistently scaled (isScaled()): the scaled numbers are not the user's."""
    rep.rule('R07.8', 'the rational LP is never assigned from a real LP that is (persistently) scaled', floor=1)
    C = M.CLS
    k = 0
    for f in fb.methods_of(C):
        for n in f.nodes:
            if not (n.k == 'CXXOperatorCallExpr' and n.o == '=' and len(n.args()) == 2):
                continue
            l, r = render(strip(n.args()[0])), render(strip(n.args()[1]))
            if l not in ('*_rationalLP', '(*_rationalLP)') or not re.match(r'^\(?\*_realLP\)?$', r):
                continue
            k += 1
            g = Graph(f, Assume(atoms={'_realLP->isScaled()': True, '_isRealLPScaled': True}))
            b = g.block_of(n)
            reach = b is not None and b in g.reach(g.entry)
            rep.check(not reach, 'R07.8', '%s|*_rationalLP = *_realLP' % f.short, '%s:%d' % (f.file, n.l), 'only reachable when the real LP is not scaled',
                      '%s assigns the real LP to the rational LP on a path that is taken when the real LP is persistently scaled: the rational LP receives scaled coefficients instead of the user\'s numbers' % f.short)
    if k < 1:
        raise AnalysisBroken('R07.8: no assignment of the real LP to the rational LP found')


def r07_9(fb, rep):
    """R07.9: the rational LP stores the entered numbers verbatim.  In the functions of the rational LP classes that store values, no
    comparison of the tolerance family (isZero / isNotZero / EQ / ... with an epsilon) is applied to a Rational: a nonzero below the
    floating-point epsilon would be dropped or merged.  A call in the arm of a conditional that the instantiation decides statically
    (std::numeric_limits<Rational>::is_exact) is dead and does not count."""
    rep.rule('R07.9', 'no tolerance comparison decides what the rational LP stores (SPxLPBase / LPRowSetBase / LPColSetBase / SVSetBase <Rational> mutators)', floor=25)
    TOL = {'isNotZero', 'isZero', 'EQ', 'NE', 'LT', 'LE', 'GT', 'GE', 'EQrel', 'NErel', 'LTrel', 'LErel', 'GTrel', 'GErel'}
    k = 0
    for f in sorted(fb.funcs.values(), key=lambda g: g.name):
        if not re.match(r'^soplex::(SPxLPBase|LPRowSetBase|LPColSetBase|SVSetBase)<Rational>::(change|add|doAdd|create|xtend|add2)', f.name) or not f.nodes:
            continue
        k += 1
        hits = []
        for c in f.nodes:
            if c.k == 'CallExpr' and c.short in TOL and c.args() and 'Rational' in (c.args()[0].t or '') and not f.in_assert(c):
                dead = False
                child = c
                for a in f.ancestors(c):
                    if a.k == 'ConditionalOperator':
                        cond = strip(a.kid('cond'))
                        if cond.k == 'DeclRefExpr' and (cond.n or '').endswith('::is_exact') and 'numeric_limits<Rational>' in (cond.n or ''):
                            # is_exact is true for the rational type: the else operand is never evaluated
                            if any(x.i == c.i for x in a.kid('else').walk()):
                                dead = True
                    child = a
                if not dead:
                    hits.append(c)
        rep.check(not hits, 'R07.9', f.name.replace('soplex::', '')[:80] + '(%d)' % len(f.params), f.where(), 'no tolerance test on exact values',
                  '%s decides with %s whether / what to store: an exact nonzero below the floating-point epsilon is dropped from the rational LP' % (f.short, render(hits[0])[:60] if hits else ''))
    if k < 25:
        raise AnalysisBroken('R07.9: only %d storing functions of the rational LP classes found' % k)


def r07_10(fb, rep):
    """R07.10: the exact solver transforms the rational LP in place (lifting, equality form, unboundedness and feasibility problems).
    _rowTypes / _colTypes are kept per row / column of that LP: a function of solverational.hpp that adds or removes rows (columns) of
    _rationalLP also appends to / resizes _rowTypes (_colTypes) in the same function."""
    rep.rule('R07.10', 'exact-solver transformations that add or remove rows / columns of the rational LP also re-dimension _rowTypes / _colTypes', floor=8)
    C = M.CLS
    k = 0
    for f in sorted(fb.methods_of(C), key=lambda g: g.name):
        if not f.file.endswith('solverational.hpp') or not f.nodes:
            continue
        calls = [n for n in f.nodes if n.k == 'CXXMemberCallExpr' and n.obj() is not None and render(n.obj()) == '_rationalLP']
        for dim, names, fld in (('rows', ('addRow', 'addRows', 'removeRow', 'removeRows', 'removeRowRange'), '_rowTypes'), ('columns', ('addCol', 'addCols', 'removeCol', 'removeCols', 'removeColRange'), '_colTypes')):
            ch = [n for n in calls if n.short in names]
            if not ch:
                continue
            k += 1
            upd = [n for n in f.nodes if n.k == 'CXXMemberCallExpr' and n.short in ('append', 'reSize', 'clear', 'remove') and n.obj() is not None and render(n.obj()) == fld]
            upd += [n for n in f.nodes if n.k == 'CXXOperatorCallExpr' and n.o == '=' and n.args() and render(strip(n.args()[0])) == fld]
            rep.check(bool(upd), 'R07.10', '%s|%s|%s' % (f.short, dim, fld), '%s:%d' % (f.file, ch[0].l), '%s is re-dimensioned (%s)' % (fld, render(upd[0])[:40] if upd else ''),
                      '%s changes the number of %s of the rational LP (%s) but never appends to / resizes %s: the range types no longer have one entry per %s (assertion in _isConsistent, out-of-range reads in the exact solver)' % (f.short, dim, render(ch[0])[:40], fld, dim[:-1]))
    if k < 8:
        raise AnalysisBroken('R07.10: only %d row/column changing transformations found in solverational.hpp' % k)
