"""Rules written in the last hours of the build for the defects that the defect-hunting sub-agents found (F85 ...).  Each function belongs to one
property and is called by the driver after the property's own module; each rule states the general shape, has a floor and - where the
expected number of violations is zero and the shape is rare - is anchored on named functions (a vanished anchor is ANALYSIS-BROKEN)."""
import re
from engine import render, strip, Graph
from facts import AnalysisBroken

C = 'soplex::SoPlexBase<double>'
S = 'soplex::SPxSolverBase<double>'


# ------------------------------------------------------------------------------------------------ C02
def c02(fb, rep):
    """R02.7: the two pricing tests of the entering algorithm, test() for the vectors and coTest() for the co-vectors, have a case for the same
    set of nonbasic statuses.  A status without a case falls to `default: return 0`, i.e. counts as dual feasible whatever the multiplier is.
    (F86: coTest() had no P_FREE case - a nonbasic free row was never priced and an unbounded LP was reported OPTIMAL.)"""
    rep.rule('R02.7', 'test() and coTest() of the entering simplex handle the same nonbasic statuses', floor=2)

    def cases(f):
        out = set()
        for n in f.nodes:
            if n.k == 'CaseStmt' and n.c:
                lab = strip(n.kids[0])
                out.add(lab.short if lab.n else render(lab))
        return out
    t = fb.one(S + '::test', nparams=2)
    ct = fb.one(S + '::coTest', nparams=2)
    a, b = cases(t), cases(ct)
    if len(a) < 5 or len(b) < 4:
        raise AnalysisBroken('R02.7: case labels of test() / coTest() not found (%d, %d)' % (len(a), len(b)))
    rep.check(not (a - b), 'R02.7', 'coTest|statuses of test()', ct.where(), 'coTest() has a case for each of %s' % sorted(a),
              'test() prices the statuses %s, coTest() has no case for %s: a nonbasic row of that status is never a pricing violation, the entering simplex stops '
              'with a dual infeasible basis and calls it optimal' % (sorted(a), sorted(a - b)))
    rep.check(not (b - a), 'R02.7', 'test|statuses of coTest()', t.where(), 'test() has a case for each status of coTest()',
              'coTest() prices %s which test() does not handle' % sorted(b - a))
    # the entering step must be able to take what the pricing offers: getEnterVals() has a non-throwing arm for every status priced
    gev = fb.one(S + '::getEnterVals')
    for n in gev.nodes:
        if n.k == 'CaseStmt' and n.c and (strip(n.kids[0]).short if strip(n.kids[0]).n else '') == 'P_FREE':
            from engine import case_arm_nodes
            arm = case_arm_nodes(gev, n)
            throws = any(x.k == 'CXXThrowExpr' for x in arm)
            rep.check(not throws, 'R02.7', 'getEnterVals|P_FREE#%d' % n.l, '%s:%d' % (gev.file, n.l), 'the arm sets the entering values',
                      'the P_FREE arm of getEnterVals() throws: a free nonbasic variable that the pricing selects cannot enter')


# ------------------------------------------------------------------------------------------------ C03
def c03(fb, rep):
    """R03.10: the exact solver's transformations edit the sides of rows and the bounds of columns in place.  Where a transformation gives both
    sides of a row (both bounds of a column) the same value inside one loop, a ranged row becomes an equation: the range-type array that the
    refinement loop consults has to be updated in that loop.  (F90: _transformUnbounded left RANGETYPE_BOXED.)"""
    rep.rule('R03.10', 'a transformation of the exact solver that sets both sides of every row (both bounds of every column) to one value updates _rowTypes (_colTypes) in the same loop', floor=2)
    k = 0
    for f in sorted(fb.funcs.values(), key=lambda g: (g.file, g.line)):
        if not f.file.endswith('solverational.hpp') or not f.name.startswith(C + '::_transform') or not f.nodes:
            continue
        for loop in f.nodes:
            if loop.k != 'ForStmt' or loop.kid('body') is None:
                continue
            body = loop.kid('body')
            for lo, up, arr in (('changeLhs', 'changeRhs', '_rowTypes'), ('changeLower', 'changeUpper', '_colTypes')):
                vals = {}
                for x in body.walk():
                    if x.k == 'CXXMemberCallExpr' and x.short in (lo, up) and x.obj() is not None and render(strip(x.obj())) == '_rationalLP' and len(x.args()) >= 2:
                        vals.setdefault(x.short, set()).add(render(strip(x.args()[1])))
                zero = set(v for v in (vals.get(lo, set()) & vals.get(up, set())) if re.fullmatch(r'(Rational\()?\(?0(\.0)?\)?\)?', v))
                gov = [a.kid('cond') for x in body.walk() if x.k == 'CXXMemberCallExpr' and x.short in (lo, up) for a in f.ancestors(x) if a.k == 'IfStmt' and a.kid('cond') is not None]
                indep = any('_lowerFinite(' in render(c_) for c_ in gov) and any('_upperFinite(' in render(c_) for c_ in gov)
                def exclusive(x1, x2):
                    for a in f.ancestors(x1):
                        if a.k == 'IfStmt' and a.kid('then') is not None and a.kid('else') is not None:
                            t_ = set(y.i for y in a.kid('then').walk())
                            e_ = set(y.i for y in a.kid('else').walk())
                            if (x1.i in t_ and x2.i in e_) or (x1.i in e_ and x2.i in t_):
                                return True
                    return False
                los = [x for x in body.walk() if x.k == 'CXXMemberCallExpr' and x.short == lo and x.obj() is not None and render(strip(x.obj())) == '_rationalLP' and len(x.args()) >= 2 and render(strip(x.args()[1])) in zero]
                ups = [x for x in body.walk() if x.k == 'CXXMemberCallExpr' and x.short == up and x.obj() is not None and render(strip(x.obj())) == '_rationalLP' and len(x.args()) >= 2 and render(strip(x.args()[1])) in zero]
                together = any(not exclusive(a_, b_) for a_ in los for b_ in ups)
                if lo in vals and up in vals and zero and indep and together:
                    # innermost loop only
                    if any(y.k == 'ForStmt' and y.i != loop.i and any(z.i == y.i for z in body.walk()) and
                           any(w.k == 'CXXMemberCallExpr' and w.short == lo for w in y.walk()) for y in body.walk()):
                        continue
                    k += 1
                    writes = [x for x in body.walk() if x.k == 'BinaryOperator' and x.o == '=' and render(strip(x.kids[0])).startswith(arr + '[')]
                    rep.check(bool(writes), 'R03.10', '%s|%s/%s -> %s' % (f.short, lo, up, arr), '%s:%d' % (f.file, loop.l), '%s is updated in the loop' % arr,
                              '%s gives both %s and %s the value %s inside one loop and never touches %s: a ranged row / boxed variable is an equation / fixed now while its recorded '
                              'type says otherwise (assertion (lhs == rhs) == (type == FIXED) in the refinement loop, wrong basis-status correction without assertions)'
                              % (f.short, lo, up, sorted(zero)[0], arr))
    if k < 2:
        raise AnalysisBroken('R03.10: only %d loops found that set both sides / bounds to one value' % k)


# ------------------------------------------------------------------------------------------------ C04
def c04(fb, rep):
    """R04.7: the store-solution functions of SoPlexBase reload the original LP into the solver (_loadRealLP), which discards the solver's basis.
    On every path on which they go on to claim a basis (_hasBasis = true at the end of the function), the basis arrays of SoPlexBase are loaded
    into the solver again (_solver.setBasis) after the last reload.  (F87, F88)
    R04.8: SPxSolverBase::status() reports OPTIMAL only if the basis still says OPTIMAL.  (F89)"""
    rep.rule('R04.7', 'after reloading the LP into the solver (_loadRealLP) the stored basis is loaded into the solver again (_solver.setBasis)', floor=3)
    k = 0
    for nm in ('_storeSolutionReal', '_storeSolutionRealFromPresol'):
        f = fb.one(C + '::' + nm)
        loads = [n for n in f.nodes if n.k == 'CXXMemberCallExpr' and n.short == '_loadRealLP' and n.obj() is not None and n.obj().k == 'CXXThisExpr']
        sets = [n for n in f.nodes if n.k == 'CXXMemberCallExpr' and n.short == 'setBasis' and n.obj() is not None and render(strip(n.obj())) == '_solver']
        if not loads:
            raise AnalysisBroken('R04.7: %s does not call _loadRealLP any more' % nm)
        g = Graph(f)
        for ld in loads:
            k += 1
            ok, path = g.must_pass(lambda n: n.k == 'CXXMemberCallExpr' and n.short == 'setBasis' and n.obj() is not None and render(strip(n.obj())) == '_solver',
                                   start=g.block_of(ld))
            # a setBasis in the same block before the load does not count
            same = [s_ for s_ in sets if g.block_of(s_) == g.block_of(ld)]
            if same and all(s_.l < ld.l for s_ in same):
                ok = False
            rep.check(ok, 'R04.7', '%s|_loadRealLP#%d' % (nm, k), '%s:%d' % (f.file, ld.l), 'every path to the exit loads the basis into the solver again',
                      'after _loadRealLP() at line %d a path reaches the end of %s without _solver.setBasis(): the LP is held by the solver, so every basis query answers from the '
                      'solver\'s (slack or empty) basis while hasBasis() is true' % (ld.l, nm))
    rep.rule('R04.8', 'SPxSolverBase::status() does not report OPTIMAL from the stored solver status alone: it consults the status of the basis', floor=1)
    st = fb.one(S + '::status')
    consults = [n for n in st.nodes if n.k == 'BinaryOperator' and n.o in ('==', '!=') and 'OPTIMAL' in render(n) and not st.in_assert(n)
                and any(x.k == 'CXXMemberCallExpr' and x.short == 'status' and 'SPxBasisBase' in (x.n or '') for x in n.walk())]
    rep.check(bool(consults), 'R04.8', 'SPxSolverBase::status|OPTIMAL consults the basis', st.where(), 'compares the basis status with OPTIMAL outside an assertion',
              'status() returns the stored OPTIMAL without looking at the basis (or only inside an assertion): after a change of the LP the basis status is downgraded while '
              'm_status stays OPTIMAL - getBasis() and solve() abort on the assertion, and without assertions the changed LP is still reported OPTIMAL')


# ------------------------------------------------------------------------------------------------ C09
def c09(fb, rep):
    """R09.9: an infinite bound or side is not a number to be scaled.  In SPxScaler every spxLdexp() applied to a value read from lower / upper /
    lhs / rhs of the LP is governed by a test of that value against infinity - or the function delegates to the single-index function that has
    the test.  (F91)
    R09.10: in SPxLPBase every call of lp_scaler->scaleLower / scaleUpper / scaleLhs / scaleRhs with a new value is governed by a finiteness test
    of that value.  (F92)"""
    rep.rule('R09.9', 'SPxScaler: a bound or side of the LP is scaled / unscaled only under a test against infinity', floor=8)
    k = 0
    for f in sorted(fb.methods_of('soplex::SPxScaler<double>'), key=lambda g: g.line):
        if not f.nodes:
            continue
        for n in f.nodes:
            if not (n.k == 'CallExpr' and n.short == 'spxLdexp' and n.args()):
                continue
            a0 = render(strip(n.args()[0]))
            m = re.search(r'\blp\.(lower|upper|lhs|rhs)(?:_w)?\(', a0)
            if not m or f.in_assert(n):
                continue
            k += 1
            what = m.group(m.lastindex)
            guarded = any(a.k in ('IfStmt', 'ConditionalOperator') and a.kid('cond') is not None and 'infinity' in render(a.kid('cond')) and what in render(a.kid('cond'))
                          for a in f.ancestors(n))
            rep.check(guarded, 'R09.9', '%s|spxLdexp(%s)#%d' % (f.short, what, k), '%s:%d' % (f.file, n.l), 'under a test of %s against infinity' % what,
                      '%s applies the scale factor to %s without testing it against infinity: an infinite %s comes back as 1e100 * 2^e (or goes in as a finite bound)' % (f.short, a0[:50], what))
    if k < 8:
        raise AnalysisBroken('R09.9: only %d scalings of bounds / sides found in SPxScaler' % k)
    rep.rule('R09.10', 'SPxLPBase: a new bound or side is passed to the scaler only under a finiteness test of that value', floor=8)
    k = 0
    for f in sorted(fb.methods_of('soplex::SPxLPBase<double>'), key=lambda g: g.line):
        if not f.nodes:
            continue
        for n in f.nodes:
            if not (n.k == 'CXXMemberCallExpr' and n.short in ('scaleLower', 'scaleUpper', 'scaleLhs', 'scaleRhs') and len(n.args()) >= 3):
                continue
            v = render(strip(n.args()[2]))
            k += 1
            guarded = any(a.k in ('IfStmt', 'ConditionalOperator') and a.kid('cond') is not None and 'infinity' in render(a.kid('cond')) and v in render(a.kid('cond'))
                          for a in f.ancestors(n))
            rep.check(guarded, 'R09.10', '%s(%s)|%s(%s)#%d' % (f.short, ','.join(t[:12] for _, t in f.params)[:40], n.short, v[:20], k), '%s:%d' % (f.file, n.l),
                      'under a finiteness test of %s' % v,
                      '%s passes %s to %s without testing it against infinity: -infinity is stored as -1e100 * 2^-e, a finite bound for the solver when e > 0 '
                      '(an unbounded LP comes back OPTIMAL)' % (f.short, v, n.short))
    if k < 8:
        raise AnalysisBroken('R09.10: only %d scaler calls found in SPxLPBase' % k)


# ------------------------------------------------------------------------------------------------ C10 / C11
def cosized(fb, rep, rule, cls, what):
    """Arrays of the L factor that have one entry per L vector (l.start, l.row) are allocated with the same length l.startSize: a function that
    changes l.startSize re-allocates all of them.  (F85: makeLvec re-allocated l.start only.)"""
    rep.rule(rule, what + ': every function that changes l.startSize re-allocates all arrays of that length (l.start, l.row)', floor=1)
    k = 0
    for f in sorted(fb.funcs.values(), key=lambda g: (g.file, g.line)):
        if not (f.cls or '').startswith(cls) or not f.nodes:
            continue
        chg = [n for n in f.nodes if n.k in ('BinaryOperator', 'CompoundAssignOperator') and n.o in ('=', '+=') and render(strip(n.kids[0])).replace('this->', '') == 'l.startSize']
        if not chg:
            continue
        allocs = set()
        for n in f.nodes:
            if n.k == 'CallExpr' and n.short in ('spx_realloc', 'spx_alloc') and n.args():
                allocs.add(render(strip(n.args()[0])).replace('this->', ''))
        if not (allocs & {'l.start', 'l.row'}):
            continue      # sets the size only (constructors, clear): the allocation is elsewhere
        k += 1
        missing = sorted({'l.start', 'l.row'} - allocs)
        rep.check(not missing, rule, '%s::%s' % ((f.cls or '').replace('soplex::', ''), f.short), f.where(), 're-allocates l.start and l.row',
                  '%s changes l.startSize and re-allocates %s but not %s: the next L vector is written beyond the shorter array' % (f.short, sorted(allocs & {'l.start', 'l.row'}), missing))
    if k < 1:
        raise AnalysisBroken('%s: no function found that changes l.startSize and allocates' % rule)


def c10(fb, rep):
    cosized(fb, rep, 'R10.5', 'soplex::CLUFactor<double>', 'floating-point LU')
    cosized_slu(fb, rep, 'R10.5', 'soplex::SLUFactor<double>')


def cosized_slu(fb, rep, rule, cls):
    for f in sorted(fb.methods_of(cls), key=lambda g: g.line):
        if not f.nodes:
            continue
        chg = [n for n in f.nodes if n.k in ('BinaryOperator', 'CompoundAssignOperator') and n.o in ('=', '+=') and render(strip(n.kids[0])).replace('this->', '') == 'l.startSize']
        allocs = set(render(strip(n.args()[0])).replace('this->', '') for n in f.nodes if n.k == 'CallExpr' and n.short in ('spx_realloc', 'spx_alloc') and n.args())
        if chg and (allocs & {'l.start', 'l.row'}):
            missing = sorted({'l.start', 'l.row'} - allocs)
            rep.check(not missing, rule, '%s::%s' % (cls.replace('soplex::', ''), f.short), f.where(), 're-allocates l.start and l.row',
                      '%s changes l.startSize and re-allocates only %s' % (f.short, sorted(allocs & {'l.start', 'l.row'})))


def c11(fb, rep):
    cosized(fb, rep, 'R11.6', 'soplex::CLUFactorRational', 'rational LU')
    """R11.7: see below"""
    rep.rule('R11.7', 'rational LU, sparse solves: a fill-in (an entry that was zero and becomes nonzero) is queued with the queue-once helper', floor=8)
    k = 0
    for f in sorted(fb.funcs.values(), key=lambda g: (g.file, g.line)):
        if not f.file.endswith('clufactor_rational.hpp') or not f.nodes:
            continue
        for n in f.nodes:
            if not (n.k == 'CallExpr' and n.short in ('enQueueMinRat', 'enQueueMaxRat', 'enQueueMinRatOnce', 'enQueueMaxRatOnce')):
                continue
            # a fill-in site: governed by `if(y == 0)` (then-branch) - the entry was zero before
            eqz, nez = set(), set()
            for a in f.ancestors(n):
                if a.k == 'IfStmt' and a.kid('cond') is not None and a.kid('then') is not None and any(x.i == n.i for x in a.kid('then').walk()):
                    m_ = re.fullmatch(r'\(?(\w+) (==|!=) \(?0\)?\)?', render(strip(a.kid('cond'))))
                    if m_:
                        (eqz if m_.group(2) == '==' else nez).add(m_.group(1))
            # the entry was zero (v == 0), was recomputed and is nonzero now (v != 0); forestUpdate tests the old value only
            fill = bool(eqz & nez) or (bool(eqz) and f.short == 'forestUpdate')
            if not fill or f.short in ('enQueueMinRatOnce', 'enQueueMaxRatOnce'):
                continue
            k += 1
            rep.check(n.short.endswith('Once'), 'R11.7', '%s|%s#%d' % (f.short, n.short, k), '%s:%d' % (f.file, n.l), 'queued once',
                      '%s queues the position of a fill-in with %s: in exact arithmetic a queued entry can cancel to exactly zero and be filled in again, the position is then in the '
                      'heap twice (eliminated twice, listed twice, heap overflow)' % (f.short, n.short))
    if k < 8:
        raise AnalysisBroken('R11.7: only %d fill-in sites found in the sparse rational solves' % k)


RULES = {'C02': c02, 'C03': c03, 'C04': c04, 'C09': c09, 'C10': c10, 'C11': c11}


def run(pid, fb, rep):
    if pid in RULES:
        RULES[pid](fb, rep)


# ================================================================================================ second batch (F94 - F102)
def c01(fb, rep):
    """R01.7: in the solver a loop `for(i = 0; i < dim(); ++i)` runs over the positions of the basis; the status of the member at position i is
    the status of baseId(i)'s row or column - desc().colStatus(number(id)) - never desc().colStatus(i) / rowStatus(i), which is the status
    of the row / column whose NUMBER happens to be i.  (F102)"""
    rep.rule('R01.7', 'a loop over the positions of the basis (i < dim()) never reads desc().colStatus(i) / rowStatus(i) with the position', floor=10)
    k = 0
    for f in sorted(fb.methods_of(S), key=lambda g: g.line):
        if not f.nodes:
            continue
        for n in f.nodes:
            if n.k != 'ForStmt' or n.kid('cond') is None or n.kid('body') is None or n.kid('init') is None:
                continue
            c = render(n.kid('cond')) + ' ' + render(n.kid('init'))
            if not re.search(r'\bdim\(\)', c) or re.search(r'nRows|nCols|coDim', c):
                continue
            m = re.search(r'(\w+) = ', render(n.kid('init')))
            if not m:
                continue
            v = m.group(1)
            uses_base = any(x.k == 'CXXMemberCallExpr' and x.short == 'baseId' and x.args() and render(strip(x.args()[0])) == v for x in n.kid('body').walk())
            for x in n.kid('body').walk():
                if x.k == 'CXXMemberCallExpr' and x.short in ('colStatus', 'rowStatus') and x.args() and render(strip(x.args()[0])) == v:
                    k += 1
                    rep.bad('R01.7', '%s|%s(%s)#%d' % (f.short, x.short, v, k), '%s:%d' % (f.file, x.l),
                            '%s counts the positions of the basis (loop bound dim()), `%s` reads the status of the %s whose number is %s, not of the basis member at that position '
                            '(that is %s(number(baseId(%s))))' % (v, render(x)[:40], 'column' if x.short == 'colStatus' else 'row', v, x.short, v))
            if uses_base:
                k += 1
                rep.ok('R01.7', '%s|loop(%s < dim())#%d' % (f.short, v, k), '%s:%d' % (f.file, n.l), 'members are addressed through baseId(%s)' % v)
    if k < 10:
        raise AnalysisBroken('R01.7: only %d loops over basis positions found' % k)


def c07(fb, rep):
    """R07.11: areLPsInSync() compares what the user sees: every value it reads from the floating-point LP goes through an ...Unscaled accessor.  (F94)
    R07.12: no rational number reaches the floating-point LP through mpq_get_d() (truncation); conversions go through R(Rational).  (F97)
    R07.13: objective sense and offset are parameters of SoPlexBase: wherever an LP is cleared or a rational LP is created, both are re-applied
    to that LP on every path.  (F98, F99)"""
    rep.rule('R07.11', 'areLPsInSync() reads the values of the floating-point LP through the unscaled accessors', floor=10)
    f = fb.one(C + '::areLPsInSync')
    k = 0
    for n in f.nodes:
        if n.k == 'CXXMemberCallExpr' and n.obj() is not None and render(strip(n.obj())) == '_realLP' and n.short in (
                'rhs', 'lhs', 'upper', 'lower', 'maxObj', 'obj', 'colVector', 'rowVector',
                'rhsUnscaled', 'lhsUnscaled', 'upperUnscaled', 'lowerUnscaled', 'maxObjUnscaled', 'objUnscaled', 'getColVectorUnscaled', 'getRowVectorUnscaled'):
            par = f.parent_of(n)
            # vector-valued getter used only for its dimension
            if par is not None and par.k == 'MemberExpr' and par.short == 'dim':
                continue
            k += 1
            rep.check(n.short.endswith('Unscaled'), 'R07.11', 'areLPsInSync|_realLP->%s#%d' % (n.short, k), '%s:%d' % (f.file, n.l), 'unscaled accessor',
                      'areLPsInSync() compares `%s` with the rational LP: after a solve with persistent scaling that is a scaled number, two LPs that are in sync are reported '
                      'as different (and the assertions on areLPsInSync in optimize() abort an exact solve that follows a floating-point solve)' % render(n)[:40])
    if k < 10:
        raise AnalysisBroken('R07.11: only %d value reads of the real LP found in areLPsInSync' % k)
    rep.rule('R07.12', 'no value is converted with mpq_get_d() in SoPlexBase (it truncates; every other path rounds to nearest)', floor=1)
    bad = []
    for g in fb.methods_of(C):
        for n in g.nodes:
            if n.k == 'CallExpr' and n.short in ('mpq_get_d', '__gmpq_get_d'):
                bad.append((g, n))
    for g, n in bad:
        rep.bad('R07.12', '%s|mpq_get_d' % g.short, '%s:%d' % (g.file, n.l), '%s converts a rational with mpq_get_d(), which truncates towards zero: the floating-point LP gets '
                '0.89999999999999991 for 9/10 where every other path stores 0.90000000000000002' % g.short)
    rep.ok('R07.12', 'scan|SoPlexBase', 'src/soplex.hpp', '%d member functions scanned, %d conversions with mpq_get_d' % (len(fb.methods_of(C)), len(bad)), nontrivial=False)
    rep.rule('R07.13', 'after an LP is cleared, or a rational LP is created, objective sense and offset are re-applied to it on every path', floor=5)
    k = 0
    for g in sorted(fb.methods_of(C), key=lambda h: h.line):
        if not g.nodes:
            continue
        sites = []
        for n in g.nodes:
            if n.k == 'CXXMemberCallExpr' and n.short == 'clear' and n.obj() is not None and render(strip(n.obj())) in ('_realLP', '_rationalLP') and not n.args():
                sites.append((n, render(strip(n.obj()))))
            if n.k == 'CXXNewExpr' and 'SPxLPBase<Rational>' in (n.t or '') and g.short == '_ensureRationalLP':
                sites.append((n, '_rationalLP'))
        if not sites:
            continue
        gr = Graph(g)
        for n, lp in sites:
            k += 1
            res = []
            for setter in ('changeSense', 'changeObjOffset'):
                ok, _p = gr.must_pass(lambda x, s_=setter, lp_=lp: x.k == 'CXXMemberCallExpr' and x.short == s_ and x.obj() is not None and render(strip(x.obj())) == lp_ and x.l >= n.l,
                                      start=gr.block_of(n))
                res.append((setter, ok))
            miss = [s_ for s_, ok in res if not ok]
            rep.check(not miss, 'R07.13', '%s|%s %s#%d' % (g.short, lp, 'clear()' if n.k != 'CXXNewExpr' else 'new', k), '%s:%d' % (g.file, n.l), 'sense and offset re-applied',
                      'after %s in %s a path reaches the end of the function without %s on that LP: SPxLPBase::clear() / a new LP have MAXIMIZE and offset 0 while the parameters '
                      'OBJSENSE / OBJ_OFFSET keep their values' % ('%s->clear()' % lp if n.k != 'CXXNewExpr' else 'the creation of the rational LP', g.short, ' / '.join(miss)))
    if k < 5:
        raise AnalysisBroken('R07.13: only %d clear / creation sites found' % k)


def c09b(fb, rep):
    """R09.11: the per-row / per-column arrays of LPRowSetBase / LPColSetBase - sides / bounds, objective, scale exponents - have one entry per
    vector: a member function that enlarges the side / bound arrays enlarges scaleExp too.  (F96)
    R09.12: when PERSISTENTSCALING is off and the LP is (still) scaled, _optimize() unscales it before the solve.  (F101)"""
    rep.rule('R09.11', 'LPRowSetBase / LPColSetBase: every member function that enlarges the side / bound arrays enlarges scaleExp', floor=8)
    k = 0
    for cls, first in (('soplex::LPRowSetBase<double>', 'left'), ('soplex::LPColSetBase<double>', 'low'), ('soplex::LPRowSetBase<Rational>', 'left'), ('soplex::LPColSetBase<Rational>', 'low')):
        for g in sorted(fb.methods_of(cls), key=lambda h: h.line):
            if not g.nodes or g.mk in ('copyctor', 'defctor') or g.short in (cls.split('::')[-1].split('<')[0], 'clear'):
                continue
            grows = [n for n in g.nodes if n.k == 'CXXMemberCallExpr' and n.short == 'reDim' and n.obj() is not None and render(strip(n.obj())) == first]
            if not grows:
                continue
            k += 1
            se = [n for n in g.nodes if n.k == 'CXXMemberCallExpr' and n.short in ('reSize', 'reDim') and n.obj() is not None and render(strip(n.obj())) == 'scaleExp']
            rep.check(bool(se), 'R09.11', '%s::%s(%s)' % (cls.replace('soplex::', ''), g.short, ','.join(t[:10] for _, t in g.params)[:40]), g.where(), 'scaleExp is enlarged too',
                      '%s enlarges %s (and its sibling arrays) but not scaleExp: a later removal moves scaleExp entries of all rows / columns and indexes beyond the array' % (g.short, first))
    if k < 8:
        raise AnalysisBroken('R09.11: only %d growing member functions found' % k)
    rep.rule('R09.12', '_optimize(): with PERSISTENTSCALING off a scaled LP is unscaled before the solve', floor=1)
    from engine import Assume
    f = fb.one(C + '::_optimize')

    def hook(n, txt):
        t = txt.replace(' ', '')
        if t in ('_realLP->isScaled()', '(_realLP->isScaled())'):
            return True
        return None
    A = Assume(bools={'PERSISTENTSCALING': False}, hook=hook)
    g = Graph(f, A)
    solves = [n for n in f.nodes if n.k == 'CXXMemberCallExpr' and n.short == '_preprocessAndSolveReal']
    if not solves:
        raise AnalysisBroken('R09.12: _optimize() does not call _preprocessAndSolveReal any more')
    first = min(solves, key=lambda n: n.l)
    ok, path = g.must_pass(lambda x: x.k == 'CXXMemberCallExpr' and x.short in ('unscaleLPandReloadBasis', 'unscaleLP'), to=g.block_of(first))
    rep.check(ok, 'R09.12', '_optimize|PERSISTENTSCALING off, LP scaled', f.where(), 'every path to the solve unscales the LP',
              'with PERSISTENTSCALING switched off and the LP still scaled from an earlier solve a path reaches _preprocessAndSolveReal() without unscaling the LP: the '
              'non-persistent code works on an LP that is scaled already (assertion in _disableSimplifierAndScaler)')


def c19(fb, rep):
    """R19.11: SVSetBase::operator= copies the vectors whenever the source has vectors (num() > 0), also when none of them has a nonzero
    (size() == 0).  Decided by pruning the CFG under rhs.size() == 0, rhs.num() > 0.  (F95)
    R19.12: in SSVectorBase a call of clear() - which walks the vector's own index list idx[0..num) - is never reachable after num was
    overwritten with something else in the same function.  (F100)"""
    from engine import Assume
    rep.rule('R19.11', 'SVSetBase::operator=: a set of empty vectors (size() == 0, num() > 0) is copied', floor=2)
    k = 0
    for f in sorted(fb.funcs.values(), key=lambda g: (g.file, g.line, g.name)):
        if not re.match(r'soplex::SVSetBase<[^:]*>$', f.cls or '') or f.short != 'operator=' or not f.nodes or len(f.params) != 1:
            continue
        src = f.params[0][0]

        def hook(n, txt, src=src):
            t = txt.replace(' ', '').strip('()')
            if t == '%s.size()>0' % src:
                return False
            if t == '%s.num()>0' % src:
                return True
            if t.startswith('this!='):
                return True
            return None
        g = Graph(f, Assume(hook=hook))
        copies = lambda x: (x.k == 'CXXMemberCallExpr' and x.short == 'add' and x.args() and render(strip(x.args()[0])) == src) or \
            (x.k in ('BinaryOperator', 'CXXOperatorCallExpr') and render(x).replace(' ', '').startswith('(set=%s.set' % src))
        ok, path = g.must_pass(copies)
        k += 1
        rep.check(ok, 'R19.11', '%s(%s)' % (f.name.replace('soplex::', '')[:50], f.params[0][1][:40]), f.where(), 'the vectors are copied',
                  'with %s.size() == 0 (no nonzero) and %s.num() > 0 (vectors exist) operator= reaches its end without copying the vectors: an LP whose rows are all empty '
                  'loses its rows when it is assigned' % (src, src))
    if k < 2:
        raise AnalysisBroken('R19.11: only %d assignment operators of SVSetBase found' % k)
    rep.rule('R19.12', 'SSVectorBase: clear() is not reachable after num was overwritten in the same function', floor=3)
    k = 0
    for f in sorted(fb.funcs.values(), key=lambda g: (g.file, g.line, g.name)):
        if not (f.cls or '').startswith('soplex::SSVectorBase<double>') or not f.nodes or f.short in ('clear', 'setSize', 'forceSetup'):
            continue
        writes = [n for n in f.nodes if n.k == 'BinaryOperator' and n.o == '=' and render(strip(n.kids[0])) in ('num', 'this->num', 'IdxSet::num')
                  and render(strip(n.kids[1])) not in ('0',)]
        if not writes:
            continue
        clears = [n for n in f.nodes if n.k == 'CXXMemberCallExpr' and n.short == 'clear' and not n.args() and (n.obj() is None or n.obj().k == 'CXXThisExpr')]
        k += 1
        g = Graph(f)
        hit = None
        for w in writes:
            live = g.reach(g.block_of(w))
            for c_ in clears:
                if g.block_of(c_) in live and not (g.block_of(c_) == g.block_of(w) and c_.l < w.l):
                    hit = (w, c_)
        rep.check(hit is None, 'R19.12', '%s(%s)' % (f.name.replace('soplex::', '')[:60], ','.join(t[:14] for _, t in f.params)[:40]), f.where(), 'no clear() after a write of num',
                  '%s overwrites num (line %d) and can then call clear() (line %d), which zeroes val[idx[i]] for i < num: it walks index entries that belong to another vector' %
                  (f.short, hit[0].l if hit else 0, hit[1].l if hit else 0))
    if k < 3:
        raise AnalysisBroken('R19.12: only %d member functions of SSVectorBase write num' % k)


_c09a = c09


def _c09(fb, rep):
    _c09a(fb, rep)
    c09b(fb, rep)


RULES.update({'C01': c01, 'C07': c07, 'C09': _c09, 'C19': c19})


# ================================================================================================ third batch (F103 - F106)
def _calls_on(f, obj, names):
    return [n for n in f.nodes if n.k == 'CXXMemberCallExpr' and n.short in names and n.obj() is not None and render(strip(n.obj())).replace('this->', '') == obj]


def c11c(fb, rep):
    """R11.8: SoPlexBase holds either no rational factorization or a usable one (_isConsistent() asserts UNLOADED or OK): in
    computeBasisInverseRational() every path from the factorization to a return on which the status is not OK discards it
    (_rationalLUSolver.clear()).  (F103)"""
    from engine import Assume
    rep.rule('R11.8', 'computeBasisInverseRational(): a factorization whose status is not OK is discarded before returning', floor=1)
    f = fb.one(C + '::computeBasisInverseRational')
    fac = [n for n in f.nodes if n.k == 'CXXMemberCallExpr' and n.short == '_computeBasisInverseRational']
    if not fac:
        raise AnalysisBroken('R11.8: computeBasisInverseRational() no longer calls _computeBasisInverseRational()')

    def hook(n, txt):
        m = re.fullmatch(r'\(?_rationalLUSolver\.status\(\) (==|!=) (?:SLinSolverRational::)?OK\)?', txt)
        if m:
            return m.group(1) == '!='
        return None
    g = Graph(f, Assume(hook=hook))
    for n in fac:
        ok, path = g.must_pass(lambda x: x.k == 'CXXMemberCallExpr' and x.short == 'clear' and x.obj() is not None and render(strip(x.obj())).replace('this->', '') == '_rationalLUSolver',
                               start=g.block_of(n))
        rep.check(ok, 'R11.8', 'computeBasisInverseRational|failed-factorization-discarded', '%s:%d' % (f.file, n.l), 'clear() on every not-OK path to the exit',
                  'a path from the factorization to the return with status() != OK does not call _rationalLUSolver.clear(): a SINGULAR / TIME factorization stays loaded and '
                  '_isConsistent() (UNLOADED or OK) aborts the next optimize() or the destructor' + (' [blocks %s]' % path if path else ''))


PAIRS_EXACT = (('_lift', '_project'), ('_transformEquality', '_untransformEquality'), ('_transformUnbounded', '_untransformUnbounded'),
               ('_transformFeasibility', '_untransformFeasibility'))


def c20c(fb, rep):
    """R20.7: the exact solver extends the LP by auxiliary columns / rows (_lift, _transformEquality, _transformUnbounded, _transformFeasibility add them to
    _rationalLP); the solution getters (and through them SoPlex_getPrimalReal, ...RedCost, ...Slacks, ...Dual of the C interface) copy the WHOLE internal
    vector into the caller's array after testing only dim >= numCols().  The function that undoes the extension therefore cuts sol._primal and sol._redCost
    (columns added) and sol._slacks and sol._dual (rows added) back on EVERY path to its exit, not only in the branches that use the vector.  (F105, F106)"""
    rep.rule('R20.7', 'the undo of every LP extension of the exact solver re-dimensions the solution vectors of the extended kind on every path', floor=10)
    k = 0
    for tname, uname in PAIRS_EXACT:
        t = fb.one(C + '::' + tname)
        u = fb.one(C + '::' + uname)
        if not _calls_on(t, '_rationalLP', ('addCol', 'addCols', 'addRow', 'addRows')):
            rep.unrec('R20.7', uname + '|extension', t.where(), '%s adds neither columns nor rows to _rationalLP: the pairing table is out of date' % tname)
            continue
        # which dimensions the extension changes is read from the undo function itself: it names the original count it restores
        # (addRow() with an entry in a new column index also adds a column, so the add calls do not tell)
        names = set(x.n if x.k == 'DeclRefExpr' else x.short for x in u.nodes if x.k in ('DeclRefExpr', 'MemberExpr'))
        names = set(str(x).split('::')[-1] for x in names if x)
        adds_cols = bool(names & {'numOrigCols', '_beforeLiftCols'})
        adds_rows = bool(names & {'numOrigRows', '_beforeLiftRows'})
        need = []
        if adds_cols:
            need += ['sol._primal', 'sol._redCost']
        if adds_rows:
            need += ['sol._slacks', 'sol._dual']
        g = Graph(u, None)
        for v in need:
            ok, path = g.must_pass(lambda x: x.k == 'CXXMemberCallExpr' and x.short == 'reDim' and x.obj() is not None and render(strip(x.obj())) == v)
            k += 1
            rep.check(ok, 'R20.7', '%s|%s' % (uname, v), u.where(), 'reDim on every path',
                      '%s extends the LP by %s; %s has a path to its exit on which %s keeps the entries of the extension: the getters copy the whole vector into an array of '
                      'the original dimension (write beyond the length the caller gave)' % (tname, 'columns' if v in ('sol._primal', 'sol._redCost') else 'rows', uname, v))
    if k < 10:
        raise AnalysisBroken('R20.7: only %d obligations' % k)


def c03c(fb, rep):
    """R03.11: a statement that re-sizes / re-dimensions an array is never followed directly by a second one on the same array (the first is dead: copy-and-paste
    slip, the second was meant for the sibling array - F104 `_basisStatusCols.reSize(numOrigCols); _basisStatusCols.reSize(numOrigRows);`); and where the exact
    solver re-sizes one of the two basis status arrays to a number of rows / columns, the array is the one of that kind."""
    rep.rule('R03.11', 'exact solver: no array is re-sized twice in a row; _basisStatusRows / _basisStatusCols are re-sized to a row / column count respectively', floor=20)
    k = 0
    for f in sorted(fb.methods_of(C), key=lambda g: (g.file, g.line)):
        if not f.nodes or not (f.file.endswith('solverational.hpp') or f.file.endswith('soplex.hpp') or f.file.endswith('solvereal.hpp')):
            continue
        for n in f.nodes:
            if n.k != 'CompoundStmt':
                continue
            prev = None
            for s in n.kids:
                s_ = strip(s)
                cur = None
                if s_ is not None and s_.k == 'CXXMemberCallExpr' and s_.short in ('reSize', 'reDim') and s_.obj() is not None:
                    cur = (render(strip(s_.obj())).replace('this->', ''), s_)
                    o, a = cur[0], ' '.join(render(x) for x in s_.args()[:1])
                    if o in ('_basisStatusRows', '_basisStatusCols'):
                        k += 1
                        rowish = bool(re.search(r'Rows?\b|Rows\(', a))
                        colish = bool(re.search(r'Cols?\b|Cols\(', a))
                        wrong = (o == '_basisStatusRows' and colish and not rowish) or (o == '_basisStatusCols' and rowish and not colish)
                        rep.check(not wrong, 'R03.11', '%s|%s.%s(%s)#%d' % (f.short, o, s_.short, a[:30], k), '%s:%d' % (f.file, s_.l), 'kind agrees',
                                  '%s is re-sized to %s, a number of %s' % (o, a, 'rows' if rowish else 'columns'))
                    if prev is not None and prev[0] == cur[0]:
                        k += 1
                        rep.bad('R03.11', '%s|%s twice#%d' % (f.short, cur[0], k), '%s:%d' % (f.file, s_.l),
                                '%s is re-sized in two consecutive statements (lines %d and %d): the first has no effect, the second was meant for another array' % (cur[0], prev[1].l, s_.l))
                prev = cur
    if k < 20:
        raise AnalysisBroken('R03.11: only %d re-size statements of the basis status arrays found' % k)


_c11a, _c03a = RULES['C11'], RULES['C03']


def _c11(fb, rep):
    _c11a(fb, rep)
    c11c(fb, rep)


def _c03(fb, rep):
    _c03a(fb, rep)
    c03c(fb, rep)


RULES.update({'C11': _c11, 'C03': _c03, 'C20': c20c})


# ================================================================================================ fourth batch (F107 - F109)
PTR_CONTAINER = re.compile(r'(DataArray|ClassArray|Array|vector)<[^<>]*(<[^<>]*>)?[^<>]*\*\s*>')


def c17(fb, rep):
    """R17.12: a member that is an ARRAY OF POINTERS into a sibling component (SPxBasisBase::matrix: pointers to the vectors of the loaded LP) and that a
    copy operation copies verbatim is re-bound element by element (`matrix[i] = ...`) in the copy operation of the class that owns both ends - otherwise
    the copy keeps factorizing the source's vectors.  (F107)
    R17.13: SoPlexBase::operator= copies status and solution of rhs; nothing it executes afterwards invalidates them again (no call that reaches
    _invalidateSolution(); setIntParam() calls are followed into the case arm of the parameter they name).  (F108)
    R17.14: an owned pointer member of SoPlexBase that operator= re-allocates (spx_alloc) is released on every path to that allocation unless it is
    the constructor-initialised nullptr.  (F109)"""
    from engine import case_arm_nodes, transitive_calls
    rep.rule('R17.12', 'an array-of-pointers member copied verbatim by a copy operation is re-bound elementwise by the copy operation of the owning class', floor=2)
    k = 0
    for K, c in sorted(fb.classes.items()):
        if not K.startswith('soplex::') or K.startswith(('soplex::Array<', 'soplex::DataArray<', 'soplex::ClassArray<')):
            continue
        for x in c['fields']:
            if not PTR_CONTAINER.search(x['t']):
                continue
            sh = x['n']
            copies = []
            for f in fb.methods_of(K):
                if f.mk not in ('copyassign', 'copyctor') or not f.params or f.implicit:
                    continue
                r = f.params[0][0]
                for n in f.nodes:
                    if n.k == 'CXXOperatorCallExpr' and n.o == '=' and len(n.args()) == 2 and render(strip(n.args()[0])).replace('this->', '') == sh and render(strip(n.args()[1])) == '%s.%s' % (r, sh):
                        copies.append((f, n.l))
                for fld, e, w in f.inits:
                    if fld.split('::')[-1] == sh and e is not None and re.search(r'\b%s\.%s\b' % (re.escape(r), re.escape(sh)), render(e)):
                        copies.append((f, f.line))
            if not copies:
                k += 1
                rep.ok('R17.12', '%s::%s' % (K.replace('soplex::', ''), sh), '%s:%s' % (c['file'], c['line']), 'not copied by any copy operation of its class', nontrivial=False)
                continue
            # the classes that can re-bind: K itself and the classes derived from it
            fam = [K] + [D for D, dc in fb.classes.items() if K in (dc.get('bases') or [])]
            for f, line in copies:
                k += 1
                kind = f.mk
                reb = None
                for D in fam:
                    for g in fb.methods_of(D):
                        if g.mk != kind:
                            continue
                        for n in g.nodes:
                            if n.k in ('BinaryOperator', 'CXXOperatorCallExpr') and n.o == '=':
                                l = strip(n.kids[0] if n.k == 'BinaryOperator' else n.args()[0])
                                lt = render(l).replace('this->', '')
                                if re.match(r'\(?%s\[' % re.escape(sh), lt) and not re.search(r'\b\w+\.%s\[' % re.escape(sh), render(n.kids[1] if n.k == 'BinaryOperator' else n.args()[1])):
                                    reb = (g, n)
                rep.check(reb is not None, 'R17.12', '%s::%s|%s' % (K.replace('soplex::', ''), sh, 'operator=' if kind == 'copyassign' else 'copy-ctor'), '%s:%d' % (f.file, line),
                          're-bound by %s' % (reb[0].name.replace('soplex::', '')[:50] if reb else ''),
                          '%s (%s) is copied verbatim from the source and no %s of %s re-binds its elements: the copy keeps pointers into the source object (results change when '
                          'the source is modified, freed memory is read when it is destroyed)' % (sh, x['t'].replace('soplex::', ''), 'operator=' if kind == 'copyassign' else 'copy constructor', ' / '.join(d.replace('soplex::', '') for d in fam)))
    if k < 2:
        raise AnalysisBroken('R17.12: only %d array-of-pointers members found' % k)

    rep.rule('R17.13', 'SoPlexBase::operator=: nothing executed after status and solution were copied invalidates them', floor=5)
    op = [f for f in fb.methods_of(C) if f.mk == 'copyassign'][0]
    st = [n for n in op.nodes if n.k == 'BinaryOperator' and n.o == '=' and render(strip(n.kids[0])).replace('this->', '') == '_status']
    if not st:
        raise AnalysisBroken('R17.13: SoPlexBase::operator= no longer assigns _status')
    inval = lambda c: c.short == '_invalidateSolution'
    within = lambda g: g.cls == C
    setp = fb.find(C + '::setIntParam')
    k = 0
    for n in op.nodes:
        if not (n.k == 'CXXMemberCallExpr' and n.l > st[0].l and n.obj() is not None and strip(n.obj()).k == 'CXXThisExpr'):
            continue
        k += 1
        tgt = [g for g in fb.resolve(n)]
        bad = None
        if n.short == '_invalidateSolution':
            bad = 'calls _invalidateSolution()'
        elif n.short == 'setIntParam' and n.args() and strip(n.args()[0]).k == 'DeclRefExpr' and strip(n.args()[0]).dk == 'enum':
            p = strip(n.args()[0]).short
            for g in tgt:
                arms = [cs for cs in g.nodes if cs.k == 'CaseStmt' and cs.kids and render(strip(cs.kids[0])).split('::')[-1] == p]
                if not arms:
                    bad = 'setIntParam has no case for %s' % p
                for cs in arms:
                    for m in case_arm_nodes(g, cs):
                        if m.k == 'CXXMemberCallExpr' and (inval(m) or any(transitive_calls(fb, h, inval, 3, within) for h in fb.resolve(m) if h.cls == C)):
                            bad = 'setIntParam(%s) reaches _invalidateSolution() through %s (line %d)' % (p, m.short, m.l)
        else:
            for g in tgt:
                if g.cls == C and transitive_calls(fb, g, inval, 3, within):
                    bad = '%s() reaches _invalidateSolution()' % n.short
        rep.check(bad is None, 'R17.13', 'operator=|%s#%d' % (render(n)[:40], k), '%s:%d' % (op.file, n.l), 'does not invalidate',
                  'after `_status = rhs._status` (line %d) the assignment %s: the assigned object reports UNKNOWN / no feasibility where its source is solved' % (st[0].l, bad))
    if k < 5:
        raise AnalysisBroken('R17.13: only %d member calls after the status copy in SoPlexBase::operator=' % k)

    rep.rule('R17.14', 'SoPlexBase::operator=: an owned LP pointer that is re-allocated was released (destructor call) on every path to the allocation', floor=1)
    g = Graph(op, None)
    k = 0
    for n in op.nodes:
        if not (n.k == 'CallExpr' and n.short == 'spx_alloc' and n.args()):
            continue
        m = render(strip(n.args()[0])).replace('this->', '')
        if m != '_rationalLP':
            continue          # _realLP: aliases &_solver, released by _loadRealLP(); no leaking history known (replays/hunt/c17_assign_leaks_rational_lp.cpp scenario 2)
        k += 1
        ok, path = g.must_pass(lambda x: x.k == 'CXXMemberCallExpr' and x.n and '~' in str(x.n) and m in render(x), to=g.block_of(n))
        if not ok:
            # released under `if(m != nullptr)`: the path that skips the release is the one on which there is nothing to release
            A = __import__('engine').Assume(hook=lambda nn, txt: True if re.fullmatch(r'\(?%s != (nullptr|0|NULL)\)?' % re.escape(m), txt) else None)
            ok, path = Graph(op, A).must_pass(lambda x: x.k == 'CXXMemberCallExpr' and '~' in render(x) and m in render(x), to=g.block_of(n))
        rep.check(ok, 'R17.14', 'operator=|spx_alloc(%s)' % m, '%s:%d' % (op.file, n.l), 'released before', '%s is overwritten by a fresh allocation on a path that never destroys the object it pointed to: '
                  'every assignment leaks an LP' % m)
    if k < 1:
        raise AnalysisBroken('R17.14: SoPlexBase::operator= no longer allocates _rationalLP')


RULES.update({'C17': c17})


# ================================================================================================ fifth batch (F110, F111)
def c16(fb, rep):
    """R16.7: _evaluateResult() is the one place where the outcome of a floating-point solve inside the exact solver is classified; every arm that ends the
    refinement (`return true`) leaves the solver without the row objectives of the refined LP (clearRowObjs()) - a stop at a limit is an arm like the
    others, the object must be usable for the continuation.  (F110)
    R16.8: the functions that undo an LP extension of the exact solver run after every outcome of the auxiliary solve, including a stop at a limit after
    which the solution was invalidated (dimension 0): they subscript sol._primal / _dual / _redCost / _slacks only under a condition that says a solution
    exists (a flag of sol, or the parameter that the caller derives from the solution).  (F111)"""
    rep.rule('R16.7', '_evaluateResult(): every arm that ends the refinement clears the row objectives of the refined LP', floor=4)
    fs = [f for f in fb.funcs.values() if f.name.startswith(C + '::_evaluateResult') and f.nodes]
    if not fs:
        raise AnalysisBroken('R16.7: _evaluateResult not found')
    from engine import case_arm_nodes
    k = 0
    for f in fs[:1]:
        for cs in f.nodes:
            if cs.k not in ('CaseStmt', 'DefaultStmt'):
                continue
            if cs.kids and cs.kids[-1].k in ('CaseStmt', 'DefaultStmt'):
                continue          # label chain, the inner label carries the arm
            arm = case_arm_nodes(f, cs)
            rets = [n for n in arm if n.k == 'ReturnStmt']
            if not any(render(r).replace('return ', '').strip('() ;') == 'true' for r in rets):
                continue
            k += 1
            lab = render(strip(cs.kids[0])).split('::')[-1] if cs.k == 'CaseStmt' else 'default'
            clears = [n for n in arm if n.k == 'CXXMemberCallExpr' and n.short == 'clearRowObjs']
            rep.check(bool(clears), 'R16.7', '_evaluateResult|case %s' % lab, '%s:%d' % (f.file, cs.l), 'clearRowObjs()',
                      'the arm %s stops the refinement without clearRowObjs(): the solver keeps the row objectives of the refined LP and the next optimize() of the object '
                      'starts from them (assert _solver.maxRowObj(r) == 0.0)' % lab)
    if k < 4:
        raise AnalysisBroken('R16.7: only %d terminal arms found in _evaluateResult' % k)

    rep.rule('R16.8', 'the undo functions of the exact solver subscript the solution vectors only under a condition that says a solution exists', floor=8)
    k = 0
    for tname, uname in PAIRS_EXACT:
        u = fb.one(C + '::' + uname)
        flags = set(p for p, t in u.params if t.replace('const ', '').strip() == 'bool')
        for n in u.nodes:
            if not (n.k in ('CXXOperatorCallExpr', 'ArraySubscriptExpr') and (n.o == '[]' or n.k == 'ArraySubscriptExpr')):
                continue
            base = strip(n.args()[0] if n.k == 'CXXOperatorCallExpr' else n.kids[0])
            bt = render(base)
            if not re.fullmatch(r'sol\._(primal|dual|redCost|slacks)', bt) or u.in_assert(n):
                continue
            k += 1
            guarded = None
            child = n
            for a in u.ancestors(n):
                cond = None
                if a.k in ('IfStmt', 'ForStmt', 'WhileStmt') and a.kid('cond') is not None and not any(x.i == n.i for x in a.kid('cond').walk()):
                    cond = render(a.kid('cond'))
                    if a.k == 'IfStmt' and a.kid('else') is not None and any(x.i == n.i for x in a.kid('else').walk()):
                        cond = None       # the else branch: the condition is false there
                elif a.k == 'BinaryOperator' and a.o == '&&' and any(x.i == n.i for x in a.kids[1].walk()):
                    cond = render(a.kids[0])
                if cond and (re.search(r'\bsol\.(_is|_has|is|has)\w+', cond) or any(re.search(r'\b%s\b' % re.escape(p), cond) for p in flags)):
                    guarded = cond
                    break
            rep.check(guarded is not None, 'R16.8', '%s|%s[...]#%d' % (uname, bt, k), '%s:%d' % (u.file, n.l), 'under (%s)' % (guarded or '')[:50],
                      '%s subscripts %s unconditionally: after a stop at a limit the caller invalidated the solution (dimension 0) and still calls %s - out-of-bounds read '
                      '(assertion n < dim())' % (uname, bt, uname))
    if k < 8:
        raise AnalysisBroken('R16.8: only %d subscripts of solution vectors in the undo functions' % k)


RULES.update({'C16': c16})


# ================================================================================================ sixth batch (rules written after looking at missed seeded changes, round 3)
def c02b(fb, rep):
    """R02.8: the ray / Farkas vector of an entering variable q is (Delta x_B, Delta x_q) = (-B^-1 a_q, 1) * t: in computePrimalray4Col() and
    computeDualfarkas4Row() the entry of the entering id carries the OPPOSITE sign of the multiplier the loop applies to fVec().delta() - the two
    siblings agree on that shape.  (written after seed C02-6 was missed)"""
    rep.rule('R02.8', 'entering simplex: the entry of the entering variable in the ray / Farkas vector carries the opposite sign of the multiplier of the update vector', floor=2)
    k = 0
    for f in sorted(fb.methods_of(S), key=lambda g: g.line):
        if not f.nodes or not re.fullmatch(r'compute(Primalray|Dualfarkas)4(Col|Row)', f.short or '') or not any(p == 'enterId' for p, t in f.params):
            continue
        adds = [n for n in f.nodes if n.k == 'CXXMemberCallExpr' and n.short == 'add' and len(n.args()) == 2]
        inloop = [n for n in adds if any(a.k == 'ForStmt' for a in f.ancestors(n))]
        after = [n for n in adds if not any(a.k == 'ForStmt' for a in f.ancestors(n))]
        if len(inloop) != 1 or len(after) != 1:
            rep.unrec('R02.8', f.short, f.where(), 'expected one add() inside the loop and one for the entering id')
            continue
        k += 1
        m = re.match(r'\(?(-?)\(?(\w+)\)? \* ', render(strip(inloop[0].args()[1])))
        e = re.fullmatch(r'\(?(-?)\(?(\w+)\)?\)?', render(strip(after[0].args()[1])))
        ok = bool(m and e and m.group(2) == e.group(2) and m.group(1) != e.group(1))
        rep.check(ok, 'R02.8', f.short, '%s:%d' % (f.file, after[0].l), 'loop: %s, entering id: %s' % (render(inloop[0].args()[1])[:30], render(after[0].args()[1])),
                  'the loop adds `%s` and the entering id gets `%s`: both carry the same sign - the vector is not a ray / Farkas proof (the basic part moves against the entering variable)'
                  % (render(inloop[0].args()[1])[:40], render(after[0].args()[1])))
    if k < 2:
        raise AnalysisBroken('R02.8: only %d functions found' % k)


_c02a = RULES['C02']


def _c02(fb, rep):
    _c02a(fb, rep)
    c02b(fb, rep)


RULES['C02'] = _c02


def c03d(fb, rep):
    """R03.12: the range type of a row / column of the rational LP (free, lower, upper, boxed, fixed) decides which dual signs the exact solver accepts;
    it is computed from the RATIONAL bounds: no call of _rangeTypeReal() has an argument converted from a rational (two different rationals can round
    to one double, a tiny rational to 0, a large one to infinity).  (written after seed C03-6 was missed)"""
    rep.rule('R03.12', '_rangeTypeReal() is never called with a value converted from a rational', floor=8)
    k = 0
    for f in sorted(fb.methods_of(C), key=lambda g: (g.file, g.line)):
        for n in f.nodes or []:
            if not (n.k == 'CXXMemberCallExpr' and n.short == '_rangeTypeReal'):
                continue
            k += 1
            rat = [x for a in n.args() for x in a.walk() if x.t and re.search(r'Rational|gmp_rational', x.t)]
            rep.check(not rat, 'R03.12', '%s|_rangeTypeReal#%d' % (f.short, k), '%s:%d' % (f.file, n.l), 'arguments are floating-point data',
                      '`%s`: the range type is computed from the rounded value of the rational `%s`; bounds that differ by less than a double resolves (or exceed 1e100) get the type '
                      'FIXED / a missing bound, and the exact solver then accepts dual multipliers of the wrong sign' % (render(n)[:70], render(rat[0])[:30] if rat else ''))
    if k < 8:
        raise AnalysisBroken('R03.12: only %d calls of _rangeTypeReal found' % k)


_c03b = RULES['C03']


def _c03x(fb, rep):
    _c03b(fb, rep)
    c03d(fb, rep)


RULES['C03'] = _c03x


def forest_twins(fb, rep, rule, K):
    """R10.6 / R11.9: the Forest-Tomlin update works on the column file WITHOUT values (u.col.val is not kept up to date during the update); the helpers
    that move or pack that file exist twice - packColumns()/forestPackColumns(), minColMem()/forestMinColMem() - and a member function named forest*
    calls the forest* twin of every helper that has one.  (written after seed C10-5 was missed)"""
    rep.rule(rule, '%s: a forest* member function calls the forest* twin of every helper that has one' % K.replace('soplex::', ''), floor=4)
    ms = {f.short: f for f in fb.methods_of(K) if f.nodes and f.short}
    twins = {n: 'forest' + n[0].upper() + n[1:] for n in ms if ('forest' + n[0].upper() + n[1:]) in ms}
    k = 0
    for n, f in sorted(ms.items()):
        if not n.startswith('forest'):
            continue
        for c in f.calls():
            if c.short in twins or (c.short in twins.values()):
                k += 1
                rep.check(c.short not in twins, rule, '%s|%s#%d' % (n, c.short, k), '%s:%d' % (f.file, c.l), 'calls the forest twin',
                          '%s calls %s(); during a Forest-Tomlin update the column file carries no values, the variant for that state is %s()' % (n, c.short, twins.get(c.short)))
    if k < 4:
        raise AnalysisBroken('%s: only %d calls of twinned helpers in forest* functions of %s' % (rule, k, K))


_c10a, _c11b = RULES['C10'], RULES['C11']


def _c10(fb, rep):
    _c10a(fb, rep)
    forest_twins(fb, rep, 'R10.6', 'soplex::CLUFactor<double>')


def _c11x(fb, rep):
    _c11b(fb, rep)
    forest_twins(fb, rep, 'R11.9', 'soplex::CLUFactorRational')


RULES['C10'] = _c10
RULES['C11'] = _c11x


def c11d(fb, rep):
    """R11.10: the cached rational factorization belongs to the basis of the EXTENDED LP; a function that undoes an LP extension of the exact solver and
    cuts the basis status arrays back (reSize) discards the factorization on every path from that statement to its exit (taking a non-empty extension:
    `_slackCols.num() > 0` etc. are assumed true, an empty extension changes nothing).  (written after seed C11-6 was missed)"""
    from engine import Assume
    rep.rule('R11.10', 'undo of an LP extension: after the basis status arrays are cut back the cached rational factorization is cleared on every path', floor=4)
    A = Assume(hook=lambda n, txt: True if re.fullmatch(r'\(?\w+\.(num|size)\(\) > 0\)?', txt) else None)
    k = 0
    for tname, uname in PAIRS_EXACT:
        u = fb.one(C + '::' + uname)
        g = Graph(u, A)
        for n in u.nodes:
            if n.k == 'CXXMemberCallExpr' and n.short == 'reSize' and n.obj() is not None and render(strip(n.obj())).replace('this->', '') in ('_basisStatusCols', '_basisStatusRows'):
                k += 1
                ok, path = g.must_pass(lambda x: x.k == 'CXXMemberCallExpr' and x.short == 'clear' and x.obj() is not None and render(strip(x.obj())).replace('this->', '') == '_rationalLUSolver',
                                       start=g.block_of(n))
                rep.check(ok, 'R11.10', '%s|%s#%d' % (uname, render(n)[:40], k), '%s:%d' % (u.file, n.l), 'factorization cleared afterwards',
                          '%s cuts the basis back (%s) and has a path to its exit without _rationalLUSolver.clear(): the cached factorization of the extended basis matrix answers '
                          'the next getBasisInverse*Rational() / rational factorization step' % (uname, render(n)[:40]))
    if k < 4:
        raise AnalysisBroken('R11.10: only %d re-sizes of the basis status arrays in the undo functions' % k)


_c11y = RULES['C11']


def _c11z(fb, rep):
    _c11y(fb, rep)
    c11d(fb, rep)


RULES['C11'] = _c11z


def c19b(fb, rep):
    """R19.13: a single-statement `while(v != 0 && ...) x = f(--w);` steps the counter its guard tests: the counter compared with 0 in the condition is (one
    of) the counter(s) the statement decrements - otherwise the loop walks below position 0 or never moves (merge loops of the sparse products).
    (written after seed C19-6 was missed)"""
    rep.rule('R19.13', 'containers: a one-statement while loop decrements the counter that its guard compares with 0', floor=2)
    k = 0
    for f in sorted(fb.funcs.values(), key=lambda g: (g.file, g.line, g.name)):
        if not f.nodes or not f.name.startswith('soplex::') or not re.search(r'/(ssvectorbase|svectorbase|svsetbase|dsvectorbase|vectorbase|idxset|didxset|dataset|classset|islist|idlist|nameset)\.h', f.file):
            continue
        for n in f.nodes:
            if n.k != 'WhileStmt' or n.kid('cond') is None or n.kid('body') is None or n.kid('body').k == 'CompoundStmt':
                continue
            gv = set(re.findall(r'\b(\w+) (?:!=|>) 0\b', render(n.kid('cond'))))
            decs = set(render(strip(x.kids[0])) for x in n.kid('body').walk() if x.k == 'UnaryOperator' and '--' in (x.o or ''))
            if not gv or not decs:
                continue
            k += 1
            rep.check(bool(gv & decs), 'R19.13', '%s|while(%s)#%d' % (f.short, sorted(gv)[0], k), '%s:%d' % (f.file, n.l), 'guard and step agree on %s' % sorted(gv & decs),
                      '`while(%s) %s`: the guard tests %s against 0, the statement decrements %s - the guard never changes through the loop itself and the stepped counter runs below 0'
                      % (render(n.kid('cond'))[:50], render(n.kid('body'))[:40], sorted(gv), sorted(decs)))
    if k < 2:
        raise AnalysisBroken('R19.13: only %d one-statement while loops with a zero guard found in the container headers' % k)


_c19a = RULES['C19']


def _c19(fb, rep):
    _c19a(fb, rep)
    c19b(fb, rep)


RULES['C19'] = _c19


def c15(fb, rep):
    """R15.9: setBoolParam / setIntParam / setRealParam return early when the value is unchanged - except on the initialisation path (init == true), where the
    setter must run to push the value into the components (operator=, setSettings and the constructors rely on it): the three siblings agree that the
    early return is conjoined with !init.  (written after seed C15-5 was missed)"""
    rep.rule('R15.9', 'the three typed setters skip an unchanged value only when init is false', floor=3)
    k = 0
    for nm in ('setBoolParam', 'setIntParam', 'setRealParam'):
        for f in fb.find(C + '::' + nm):
            if not f.nodes or len(f.params) < 3:
                continue
            ini = f.params[2][0]
            getter = nm[3].lower() + nm[4:]
            hits = []
            for n in f.nodes:
                if n.k == 'IfStmt' and n.kid('cond') is not None and n.kid('then') is not None and re.search(r'value == %s\(param\)|%s\(param\) == value' % (getter, getter), render(n.kid('cond'))) \
                        and any(x.k == 'ReturnStmt' for x in n.kid('then').walk()):
                    hits.append(n)
            if not hits:
                rep.unrec('R15.9', nm, f.where(), 'early return for an unchanged value not found')
                continue
            for n in hits:
                k += 1
                ct = render(n.kid('cond'))
                rep.check(bool(re.search(r'!%s\b' % re.escape(ini), ct)) and '||' not in ct, 'R15.9', nm, '%s:%d' % (f.file, n.l), ct[:60],
                          '%s returns early on `%s` also when %s is true: operator= / setSettings() / the constructors call the setter with init == true after the stored value was '
                          'already overwritten, the value then never reaches the component that uses it' % (nm, ct[:60], ini))
    if k < 3:
        raise AnalysisBroken('R15.9: only %d early returns found' % k)


RULES['C15'] = c15


# ================================================================================================ seventh batch (F113 - F116: keyed containers)
def c19c(fb, rep):
    """R19.14: a QUERY of the keyed containers (DataSet / ClassSet: a bool member function that takes a DataKey from the caller) subscripts theitem[k.idx]
    only together with comparisons of k.idx against 0 and against size() - an assert does not count, the function is the range check.  (F113)
    R19.15: a loop that fills a freshly allocated block `spx_alloc(p, N)` through p[i] is never bounded by the OLD capacity (max() / themax) alone.  (F114)
    R19.16: theitem is addressed by key index: a loop that subscripts theitem with its own counter is bounded by size() / thesize / themax, never by
    num() / thenum (which bounds loops over thekey).  (F115)
    R19.17: the address handed to setMem() (or compared with mem()) is not formed with a bounds-asserting operator[] - it may legitimately be the address
    one past the last element; get_ptr() + n is the form.  (F116; positive control in units/controls.cpp)"""
    sets = [f for f in fb.funcs.values() if f.nodes and re.match(r'soplex::(DataSet|ClassSet)<', f.name)]
    rep.rule('R19.14', 'DataSet / ClassSet: a bool query that takes a DataKey compares k.idx with 0 and size() before subscripting', floor=3)
    k = 0
    for f in sorted(sets, key=lambda g: g.name):
        if not (f.params and len(f.params) == 1 and 'DataKey' in f.params[0][1] and f.short == 'has'):
            continue
        p = f.params[0][0]
        subs = [n for n in f.nodes if n.k == 'ArraySubscriptExpr' and re.search(r'\b%s\.idx\b' % re.escape(p), render(n.kids[1])) and not f.in_assert(n)]
        if not subs:
            continue
        k += 1
        txt = ' '.join(render(n) for n in f.nodes if n.k == 'BinaryOperator' and n.o in ('<', '>=', '>', '<=') and not f.in_assert(n))
        lo = bool(re.search(r'%s\.idx >= 0|0 <= %s\.idx|%s\.idx > -1' % (p, p, p), txt))
        hi = bool(re.search(r'%s\.idx < (size\(\)|thesize|this->thesize)' % p, txt))
        rep.check(lo and hi, 'R19.14', f.name.replace('soplex::', '')[:70], f.where(), 'range test present',
                  'has(DataKey) subscripts theitem[%s.idx] without comparing %s.idx with %s: for a key the set never contained it reads beyond the array / uninitialised marks, after '
                  'clear() it answers true for every former element' % (p, p, ' and '.join(x for x, y in (('0', lo), ('size()', hi)) if not y)))
    if k < 3:
        raise AnalysisBroken('R19.14: only %d has(DataKey) bodies found' % k)

    rep.rule('R19.15', 'a loop that fills a freshly allocated block is not bounded by the old capacity alone', floor=8)
    k = 0
    for f in sorted(fb.funcs.values(), key=lambda g: (g.file, g.line, g.name)):
        if not f.nodes or not f.name.startswith('soplex::') or not re.search(r'/(classset|dataset|classarray|dataarray|dsvectorbase|nameset|svsetbase|array)\.(h|hpp|cpp)$', f.file):
            continue
        for n in f.nodes:
            if not (n.k == 'CallExpr' and n.short == 'spx_alloc' and len(n.args()) == 2):
                continue
            a = strip(n.args()[0])
            if not (a.k == 'DeclRefExpr' and a.dk == 'local'):
                continue
            N = render(strip(n.args()[1]))
            for l in f.nodes:
                if l.k != 'ForStmt' or l.l <= n.l or l.kid('body') is None or l.kid('cond') is None or l.kid('inc') is None:
                    continue
                m = re.search(r'(\w+)\+\+|\+\+(\w+)', render(l.kid('inc')))
                v = (m.group(1) or m.group(2)) if m else None
                if not v or not any(x.k == 'ArraySubscriptExpr' and render(strip(x.kids[0])) == a.short and render(strip(x.kids[1])) == v for x in l.kid('body').walk()):
                    continue
                k += 1
                ct = render(l.kid('cond'))
                conj = [c.strip() for c in re.split(r'&&', ct)]
                old_only = all(re.fullmatch(r'\(*%s < (this->)?(max\(\)|themax)\)*' % v, c) for c in conj)
                rep.check(not old_only or N in ('max()', 'themax'), 'R19.15', '%s|%s[%s]#%d' % (f.name.replace('soplex::', '')[:50], a.short, v, k), '%s:%d' % (f.file, l.l), 'bounded by (%s)' % ct[:40],
                          'the block %s has %s elements, the loop that fills it runs while %s: when the new capacity is smaller than the old one it writes behind the block' % (a.short, N, ct))
    if k < 8:
        raise AnalysisBroken('R19.15: only %d loops over freshly allocated blocks found' % k)

    rep.rule('R19.16', 'DataSet / ClassSet: a loop that subscripts theitem with its counter is bounded by size() / thesize / themax, not by num()', floor=4)
    k = 0
    for f in sorted(sets, key=lambda g: g.name):
        for l in f.nodes:
            if l.k != 'ForStmt' or l.kid('body') is None or l.kid('cond') is None or l.kid('inc') is None:
                continue
            m = re.search(r'(\w+)\+\+|\+\+(\w+)', render(l.kid('inc')))
            v = (m.group(1) or m.group(2)) if m else None
            if not v:
                continue
            hit = [x for x in l.kid('body').walk() if x.k == 'ArraySubscriptExpr' and re.search(r'(^|\.|>)theitem$', render(strip(x.kids[0]))) and render(strip(x.kids[1])) == v]
            if not hit:
                continue
            k += 1
            ct = render(l.kid('cond'))
            bad = re.search(r'%s < \(?(\w+(\.|->))?(thenum|num\(\))' % v, ct)
            rep.check(not bad, 'R19.16', '%s|loop(%s)#%d' % (f.name.replace('soplex::', '')[:60], ct[:30], k), '%s:%d' % (f.file, l.l), 'bounded by (%s)' % ct[:40],
                      'theitem[%s] is addressed by key index (occupied range [0, size())), the loop stops at the NUMBER of elements: after a removal that leaves a hole the slots '
                      'num()..size()-1 (live elements and the free list) are skipped' % v)
    if k < 4:
        raise AnalysisBroken('R19.16: only %d loops over theitem found' % k)

    rep.rule('R19.17', 'the address given to setMem() / compared with mem() is not formed with a bounds-asserting operator[]', floor=8)
    k = 0
    ctl = False
    for f in sorted(fb.funcs.values(), key=lambda g: (g.file, g.line, g.name)):
        isctl = f.name.startswith('verif_ctl::')
        if not f.nodes or not (isctl or (f.name.startswith('soplex::SVSetBase<'))):
            continue
        for n in f.nodes:
            cands = []
            if n.k == 'CXXMemberCallExpr' and n.short == 'setMem' and len(n.args()) == 2:
                cands = [n.args()[1]]
            elif n.k == 'BinaryOperator' and n.o in ('==', '!=') and any(re.search(r'(->|\.)mem\(\)$', render(strip(x))) for x in n.kids):
                cands = list(n.kids)
            else:
                continue
            if not isctl:
                k += 1
            bad = None
            for c_ in cands:
                for x in c_.walk():
                    if x.k == 'UnaryOperator' and render(x).lstrip('(').startswith('&'):
                        op = strip(x.kids[0])
                        if (op.k == 'CXXOperatorCallExpr' and op.o == '[]') or (op.k == 'CXXMemberCallExpr' and op.short == 'operator[]'):
                            bad = x
            if isctl:
                ctl = ctl or bad is not None
                continue
            rep.check(bad is None, 'R19.17', '%s|%s#%d' % (f.short, render(n)[:30], k), '%s:%d' % (f.file, n.l), 'address by pointer arithmetic',
                      '`%s` forms the address with the bounds-asserting operator[]: for a vector without memory behind the last nonzero the index equals the size and builds with '
                      'assertions abort (addRowsRational / addColsRational on LPs with empty rows or columns)' % (render(bad)[:60] if bad else ''))
    if not ctl:
        raise AnalysisBroken('R19.17: the positive control verif_ctl::address_by_checked_subscript did not match')
    if k < 8:
        raise AnalysisBroken('R19.17: only %d setMem() calls / mem() comparisons found in SVSetBase' % k)


_c19d = RULES['C19']


def _c19e(fb, rep):
    _c19d(fb, rep)
    c19c(fb, rep)


RULES['C19'] = _c19e


# ================================================================================================ eighth batch (F117 - F122: parameters)
def c15b(fb, rep):
    """R15.10: setSettings() has the effect of the typed setter calls: it does not assign the stored settings (*_currentSettings / its value arrays) before
    it calls the setters, which compare with the value still in effect.  (F117)
    R15.11: an arm of setIntParam / setRealParam that changes the stored LPs (a change* / clear call on _realLP / _rationalLP) invalidates the solution in
    the same arm.  (F118)
    R15.12: both text parsers recognise a '#' that ends the value token as the start of a comment (a test of `*line == '#'` between the value-token loop
    and the check for trailing characters).  (F119)
    R15.13: both text parsers convert the value token with the position argument of std::stoi / stod / stoul and compare the character at that position
    with NUL; the type token is compared exactly (strcmp), not by prefix.  (F120)
    R15.14: a setter arm does not forward a value through a pointer that another parameter re-targets (_scaler, _simplifier, _starter and their boosted
    twins): the object selected later never sees it.  (F121)
    R15.15: no == / != comparison against realParam(INFTY): "no limit" is >= INFTY / <= -INFTY.  (F122)"""
    from engine import case_arm_nodes
    # ---- R15.10
    rep.rule('R15.10', 'setSettings() does not overwrite the stored settings before calling the typed setters', floor=3)
    f = fb.one(C + '::setSettings')
    calls = [n for n in f.nodes if n.k == 'CXXMemberCallExpr' and re.fullmatch(r'set(Bool|Int|Real|Rational)Param', n.short or '')]
    if len(calls) < 3:
        raise AnalysisBroken('R15.10: setSettings() calls only %d typed setters' % len(calls))
    wr = [n for n in f.nodes if n.k in ('BinaryOperator', 'CXXOperatorCallExpr') and n.o == '=' and '_currentSettings' in render(n.kids[0] if n.k == 'BinaryOperator' else n.args()[0])]
    for c_ in calls:
        before = [w for w in wr if w.l < c_.l]
        rep.check(not before, 'R15.10', 'setSettings|%s' % c_.short, '%s:%d' % (f.file, c_.l), 'argument is %s' % render(c_.args()[1])[:40],
                  'the stored settings are assigned at line %d before %s() is called: the setter compares with the value "in effect" and sees the new one (SYNCMODE 0 -> 1 creates no '
                  'rational LP, a rejected value stays stored)' % (before[0].l if before else 0, c_.short))
    # ---- R15.11
    rep.rule('R15.11', 'a setter arm that changes the stored LPs invalidates the solution', floor=2)
    k = 0
    for nm in ('setIntParam', 'setRealParam', 'setBoolParam'):
        for g in fb.find(C + '::' + nm):
            for cs in g.nodes or []:
                if cs.k != 'CaseStmt' or (cs.kids and cs.kids[-1].k in ('CaseStmt', 'DefaultStmt')):
                    continue
                arm = case_arm_nodes(g, cs)
                mut = [n for n in arm if n.k == 'CXXMemberCallExpr' and re.match(r'change\w+|clear$|add\w+|remove\w+', n.short or '') and n.obj() is not None
                       and render(strip(n.obj())).replace('this->', '') in ('_realLP', '_rationalLP')]
                if not mut:
                    continue
                k += 1
                lab = render(strip(cs.kids[0])).split('::')[-1]
                inv = [n for n in arm if n.k == 'CXXMemberCallExpr' and n.short == '_invalidateSolution']
                # SYNCMODE: the arm creates / drops the rational LP, the floating-point LP and its solution are untouched
                acc = lab.startswith('SYNCMODE')
                rep.check(bool(inv) or acc, 'R15.11', '%s|case %s' % (nm, lab), '%s:%d' % (g.file, cs.l), '_invalidateSolution()' if inv else 'accepted: only the rational copy of the LP is created / dropped',
                          'the arm %s changes the stored LP (%s) and keeps status and solution: status() stays OPTIMAL and objValueReal() reports the value of the LP before the change'
                          % (lab, render(mut[0])[:40]))
    if k < 2:
        raise AnalysisBroken('R15.11: only %d setter arms that change the stored LPs' % k)
    # ---- R15.12 / R15.13
    rep.rule('R15.12', 'text parsers: a # that ends the value token starts a comment', floor=2)
    rep.rule('R15.13', 'text parsers: conversions consume the whole value token; the type token is compared exactly', floor=8)
    k13 = 0
    for nm in ('_parseSettingsLine', 'parseSettingsString'):
        g = fb.one(C + '::' + nm)
        loops = [n for n in g.nodes if n.k == 'WhileStmt' and n.kid('cond') is not None and "'#'" in render(n.kid('cond')) or (n.k == 'WhileStmt' and n.kid('cond') is not None and '35' in render(n.kid('cond')))]
        if not loops:
            rep.unrec('R15.12', nm, g.where(), 'no token loop with # in its stop set found')
        else:
            last = max(loops, key=lambda n: n.l)
            after = [n for n in g.nodes if n.k == 'IfStmt' and n.l > last.l and n.kid('cond') is not None]
            first = min(after, key=lambda n: n.l) if after else None
            ok = first is not None and re.search(r"\*line == ('#'|35)", render(first.kid('cond'))) is not None
            rep.check(ok, 'R15.12', nm, '%s:%d' % (g.file, last.l), 'tested right after the token',
                      'the value token stops at # (line %d) but the next test is `%s`: the # is overwritten and the comment text is examined as trailing garbage - "int:iterlimit = 6# c" is rejected'
                      % (last.l, render(first.kid('cond'))[:40] if first else ''))
        for n in g.nodes:
            if n.k == 'CallExpr' and n.short in ('stoi', 'stol', 'stoul', 'stoull', 'stod', 'stof', 'stold'):
                k13 += 1
                has_pos = len([a for a in n.args() if a.k != 'CXXDefaultArgExpr']) >= 2
                cmp_ = any(x.k == 'BinaryOperator' and x.o in ('!=', '==') and re.search(r'paramValueString\[\w+\]', render(x)) for x in g.nodes)
                rep.check(has_pos and cmp_, 'R15.13', '%s|%s#%d' % (nm, n.short, k13), '%s:%d' % (g.file, n.l), 'position argument compared with the end of the token',
                          'std::%s(paramValueString) converts the longest numeric prefix and the number of characters consumed is not looked at: "12abc" is 12, "7.9" is 7' % n.short)
            if n.k == 'CallExpr' and n.short in ('strncmp', 'strcmp') and re.search(r'\(paramTypeString,', render(n)):
                k13 += 1
                rep.check(n.short == 'strcmp', 'R15.13', '%s|type %s#%d' % (nm, render(n.args()[1]), k13), '%s:%d' % (g.file, n.l), 'exact',
                          '`%s` accepts every type token that starts with the literal ("integer:", "realx:")' % render(n)[:50])
    if k13 < 8:
        raise AnalysisBroken('R15.13: only %d conversions / type comparisons found' % k13)
    # ---- R15.14
    rep.rule('R15.14', 'a setter arm forwards a value to a component object, not through a pointer that another parameter re-targets', floor=2)
    RET = ('_scaler', '_simplifier', '_starter', '_boostedScaler', '_boostedSimplifier')
    k = 0
    for nm in ('setIntParam', 'setRealParam', 'setBoolParam'):
        for g in fb.find(C + '::' + nm):
            for n in g.nodes or []:
                if n.k == 'CXXMemberCallExpr' and re.fullmatch(r'set(Int|Real|Bool)Param', n.short or '') and n.obj() is not None and strip(n.obj()).k != 'CXXThisExpr':
                    k += 1
                    o = render(strip(n.obj())).replace('this->', '')
                    rep.check(o not in RET, 'R15.14', '%s|%s.%s#%d' % (nm, o, n.short, k), '%s:%d' % (g.file, n.l), 'component %s' % o,
                              'the value is forwarded through %s, which points at whatever object is selected at the moment: set while another one is selected it is lost (the getter '
                              'still returns it), so the effect depends on the order of the calls' % o)
    if k < 2:
        raise AnalysisBroken('R15.14: only %d forwards to components found' % k)
    # ---- R15.15
    rep.rule('R15.15', 'no == / != comparison against realParam(INFTY)', floor=20)
    k = 0
    for g in sorted(fb.methods_of(C), key=lambda h: (h.file, h.line)):
        for n in g.nodes or []:
            # one operand IS the threshold (possibly negated / cast), not an expression that contains it
            if n.k == 'BinaryOperator' and n.o in ('==', '!=', '<', '>', '<=', '>=') and not g.in_assert(n) \
                    and any(re.fullmatch(r'\(?(\(\w+\))?-?\(?(\(\w+\))?realParam\((SoPlexBase<\w+>::)?INFTY\)\)?\)?', render(strip(x))) for x in n.kids):
                k += 1
                rep.check(n.o not in ('==', '!='), 'R15.15', '%s|%s#%d' % (g.short, render(n)[:40], k), '%s:%d' % (g.file, n.l), n.o,
                          '`%s`: the infinity threshold is a parameter ([1e10, 1e100]) while defaults and user data use 1e100 - equality fails for every other threshold (the '
                          'simplifier was silently skipped)' % render(n)[:70])
    if k < 20:
        raise AnalysisBroken('R15.15: only %d comparisons with realParam(INFTY)' % k)


_c15a = RULES['C15']


def _c15(fb, rep):
    _c15a(fb, rep)
    c15b(fb, rep)


RULES['C15'] = _c15


# ================================================================================================ ninth batch (containers, readers: F123 ...)
def c19d(fb, rep):
    """R19.18: DataArray / ClassArray ::reMax(newMax, newSize): the new capacity is clamped against the size IN EFFECT (thesize / size()), not against the
    newSize argument, whose default -1 means "keep the size".
    R19.19: an assignment-like member of SVectorBase that fills m_elem[] from a source (operator=, assign*, scaleAssign) sets the size afterwards.
    R19.20: Array::insert(i, ...) - "before the i'th element" - inserts at begin() + i."""
    rep.rule('R19.18', 'DataArray / ClassArray: reMax() clamps the new capacity against the size in effect', floor=2)
    k = 0
    for f in sorted(fb.funcs.values(), key=lambda g: g.name):
        if not f.nodes or not re.match(r'soplex::(DataArray|ClassArray)<', f.name) or f.short != 'reMax' or len(f.params) != 2:
            continue
        cap, siz = f.params[0][0], f.params[1][0]
        cl = [n for n in f.nodes if n.k == 'IfStmt' and n.kid('cond') is not None and re.search(r'\b%s < ' % re.escape(cap), render(n.kid('cond')))
              and any(x.k == 'BinaryOperator' and x.o == '=' and render(strip(x.kids[0])) == cap for x in n.kid('then').walk())]
        cl = [n for n in cl if not re.search(r'< \(?[01]\)?\)?$', render(n.kid('cond')))]
        if not cl:
            continue
        k += 1
        ct = render(cl[0].kid('cond'))
        # either against the size in effect, or against the size argument after it was normalised (`if(newSize < 0) newSize = size();`)
        norm = any(x.k == 'BinaryOperator' and x.o == '=' and render(strip(x.kids[0])) == siz and re.search(r'(this->)?(thesize|size\(\))', render(x.kids[1])) and x.l < cl[0].l for x in f.nodes)
        ok = bool(re.search(r'< \(?(this->)?(thesize|size\(\))', ct)) or (norm and re.search(r'< \(?%s\b' % re.escape(siz), ct) is not None)
        rep.check(ok, 'R19.18', f.name.replace('soplex::', '')[:60], '%s:%d' % (f.file, cl[0].l), ct[:40],
                  'reMax() clamps the capacity with `%s`: %s is -1 when the caller keeps the size, so the capacity can drop below size() and the block is re-allocated smaller than its '
                  'contents' % (ct[:40], siz))
    if k < 2:
        raise AnalysisBroken('R19.18: only %d reMax(newMax, newSize) bodies with a clamp found' % k)

    rep.rule('R19.19', 'SVectorBase: a member that fills m_elem[] from a source vector sets the size afterwards', floor=5)
    k = 0
    for f in sorted(fb.funcs.values(), key=lambda g: (g.name, g.line)):
        if not f.nodes or not re.match(r'soplex::SVectorBase<', f.name) or not f.params:
            continue
        writes = [n for n in f.nodes if n.k in ('BinaryOperator', 'CXXOperatorCallExpr') and n.o == '=' and re.match(r'\(?(this->)?m_elem\[', render(n.kids[0] if n.k == 'BinaryOperator' else n.args()[0]))
                  and any(a.k in ('ForStmt', 'WhileStmt') for a in f.ancestors(n))]
        writes += [n for n in f.nodes if n.k in ('BinaryOperator', 'CXXOperatorCallExpr') and n.o == '=' and re.search(r'^\(?\w+->(val|idx) = ', render(n)) and any(a.k in ('ForStmt', 'WhileStmt') for a in f.ancestors(n))]
        if not writes or not re.match(r'operator=|assign|scaleAssign', f.short or ''):
            continue
        k += 1
        ss = [n for n in f.nodes if n.k == 'CXXMemberCallExpr' and n.short == 'set_size' and n.l >= min(w.l for w in writes)]
        rep.check(bool(ss), 'R19.19', '%s(%s)' % (f.name.replace('soplex::', '')[:50], ','.join(t[:18] for _, t in f.params)), f.where(), 'set_size() after the copy',
                  '%s copies entries into m_elem[] and never calls set_size(): size() keeps its old value, the result looks empty / has a stale length' % f.short)
    if k < 5:
        raise AnalysisBroken('R19.19: only %d filling members of SVectorBase found' % k)

    rep.rule('R19.20', 'Array::insert(i, ...) inserts at begin() + i', floor=2)
    k = 0
    for f in sorted(fb.funcs.values(), key=lambda g: (g.name, g.line)):
        if not f.nodes or not re.match(r'soplex::Array<', f.name) or f.short != 'insert':
            continue
        for n in f.nodes:
            if n.k == 'CXXMemberCallExpr' and n.short == 'insert' and n.args():
                k += 1
                a0 = render(strip(n.args()[0]))
                a0 = re.sub(r'__gnu_cxx::__normal_iterator<[^()]*>\(', '(', a0)
                rep.check(not re.search(r'begin\(\) \+ \w+\) - 1\)', a0), 'R19.20', '%s|%s#%d' % (f.name.replace('soplex::', '')[:40], a0[:30], k), '%s:%d' % (f.file, n.l), a0[:40],
                          'insert(i, ...) is documented as "before the i\'th element" and inserts at `%s`: one position too early, and before begin() for i == 0' % a0[:40])
    if k < 2:
        raise AnalysisBroken('R19.20: only %d insert calls found in Array<T>::insert' % k)


_c19f = RULES['C19']


def _c19g(fb, rep):
    _c19f(fb, rep)
    c19d(fb, rep)


RULES['C19'] = _c19g


def c13(fb, rep):
    """R13.15: the MPS readers decide on the indicator field (mps.field1()) with the whole token or with its first character inside a test that pins the
    token; a test of a LATER character alone (`field1()[1] == 'I'`) also matches other valid indicators ("MI").
    R13.16: MPSreadCols: a (row, value) pair is added to the column vector only in a chain that first tests whether the column already has that row.
    R13.17: ratFromString(): the numerator/denominator branch tests the denominator before the number is returned."""
    readers = [f for f in fb.funcs.values() if f.nodes and re.search(r'/spxlpbase_(real|rational)\.hpp$', f.file) and (f.short or '').startswith('MPSread')]
    rep.rule('R13.15', 'MPS readers: no decision on a later character of the indicator field alone', floor=6)
    k = 0
    for f in sorted(readers, key=lambda g: (g.file, g.line)):
        for n in f.nodes:
            if n.k == 'BinaryOperator' and n.o in ('==', '!=') and re.search(r'field1\(\)\[(\d+)\]|\*(mps\.)?field1\(\)', render(n.kids[0])):
                k += 1
                m = re.search(r'field1\(\)\[(\d+)\]', render(n.kids[0]))
                later = bool(m and int(m.group(1)) >= 1)
                pinned = False
                if later:
                    for a in f.ancestors(n):
                        if a.k == 'BinaryOperator' and a.o == '&&' and re.search(r'\*(mps\.)?field1\(\) ==|field1\(\)\[0\] ==|strcmp', render(a)):
                            pinned = True
                        if a.k in ('CaseStmt',) or (a.k == 'IfStmt' and a.kid('cond') is not None and not any(x.i == n.i for x in a.kid('cond').walk())
                                                    and re.search(r'\*(mps\.)?field1\(\) ==|field1\(\)\[0\] ==', render(a.kid('cond')))):
                            pinned = True
                rep.check(not later or pinned, 'R13.15', '%s|%s#%d' % (f.short, render(n)[:30], k), '%s:%d' % (f.file, n.l), 'first character or pinned',
                          '`%s` looks at a later character of the indicator only: it also matches other valid indicators with that letter (MI = lower bound minus infinity was taken '
                          'for an integer bound)' % render(n)[:40])
            elif n.k == 'CallExpr' and n.short == 'strcmp' and 'field1()' in render(n):
                k += 1
                rep.ok('R13.15', '%s|%s#%d' % (f.short, render(n)[:30], k), '%s:%d' % (f.file, n.l), 'whole token', nontrivial=False)
    if k < 6:
        raise AnalysisBroken('R13.15: only %d tests of the indicator field found' % k)
    rep.rule('R13.16', 'MPSreadCols: an entry is added to the column only after testing that the column does not have the row yet', floor=4)
    k = 0
    for f in sorted(readers, key=lambda g: (g.file, g.line)):
        if f.short != 'MPSreadCols':
            continue
        for n in f.nodes:
            if n.k == 'CXXMemberCallExpr' and n.short == 'add' and n.obj() is not None and render(strip(n.obj())) == 'vec' and len(n.args()) == 2:
                k += 1
                idx = render(strip(n.args()[0]))
                chain = [a for a in f.ancestors(n) if a.k == 'IfStmt']
                tested = any(re.search(r'vec\.pos\(%s\) (>=|<) 0' % re.escape(idx), render(a.kid('cond'))) for a in chain if a.kid('cond') is not None)
                rep.check(tested, 'R13.16', '%s|vec.add(%s)#%d' % (f.file.split('_')[-1][:8], idx, k), '%s:%d' % (f.file, n.l), 'vec.pos(%s) tested' % idx,
                          'vec.add(%s, val) without looking whether the column already has an entry in row %s: a file that names a row twice gives a sparse vector with a duplicate index '
                          '(the LU update aborts / solves with a wrong matrix)' % (idx, idx))
    if k < 4:
        raise AnalysisBroken('R13.16: only %d vec.add calls in MPSreadCols' % k)
    rep.rule('R13.17', 'ratFromString(): a numerator/denominator token is checked for a non-positive denominator', floor=1)
    fs = [f for f in fb.funcs.values() if f.nodes and f.name == 'soplex::ratFromString']
    if not fs:
        raise AnalysisBroken('R13.17: ratFromString not found')
    f = fs[0]
    den = [n for n in f.nodes if n.k in ('BinaryOperator', 'CXXOperatorCallExpr') and re.search(r'denominator\(\w+\) (<=|==|<) \(?0|mpz_sgn|is_zero', render(n)) and not f.in_assert(n)]
    rep.check(bool(den), 'R13.17', 'ratFromString|denominator', f.where(), 'denominator tested',
              'the token "n/d" goes to the GMP string constructor, which stores d = 0 unchecked; every later operation on that number is undefined (std::domain_error out of readFile(), '
              'segmentation fault in __gmpn_mul_basecase)')


_c13a = RULES.get('C13')


def _c13(fb, rep):
    if _c13a:
        _c13a(fb, rep)
    c13(fb, rep)


RULES['C13'] = _c13


def c14(fb, rep):
    """R14.7: saveSettingsFile() writes the real parameters with at least 16 digits after the point in scientific notation (17 significant digits: a double
    survives the round trip); the last precision set on the stream before the loop over the real parameters decides."""
    rep.rule('R14.7', 'saveSettingsFile(): real parameters are written with a precision that round-trips a double', floor=1)
    f = fb.one(C + '::saveSettingsFile')
    loops = [n for n in f.nodes if n.k == 'ForStmt' and n.kid('cond') is not None and 'REALPARAM_COUNT' in render(n.kid('cond'))]
    if not loops:
        raise AnalysisBroken('R14.7: loop over the real parameters not found in saveSettingsFile')
    lp = loops[0]
    sets = [n for n in f.nodes if n.k == 'CallExpr' and n.short in ('setScientific', 'setFixed') and n.l < lp.l] + \
           [n for n in f.nodes if n.k in ('CXXMemberCallExpr', 'CallExpr') and n.short in ('precision', 'setprecision') and n.l < lp.l]
    if not sets:
        raise AnalysisBroken('R14.7: no precision setting before the loop over the real parameters')
    last = max(sets, key=lambda n: n.l)
    args = [a for a in last.args() if a.k != 'CXXDefaultArgExpr']
    prec = None
    for a in args:
        t = render(strip(a)).strip('()')
        if re.fullmatch(r'\d+', t):
            prec = int(t)
    if last.short in ('setScientific', 'setFixed') and prec is None:
        prec = 8        # default argument of SPxOut::setScientific / setFixed
    rep.check(prec is not None and prec >= 16, 'R14.7', 'saveSettingsFile|real parameters', '%s:%d' % (f.file, last.l), 'precision %s' % prec,
              'the last precision set before the real parameters are written is %s (`%s`): 3.333333333333333e-07 comes back as 3.33333333e-07, the restored solver does not have the '
              'saved parameter values' % (prec, render(last)[:40]))


_c14a = RULES.get('C14')


def _c14(fb, rep):
    if _c14a:
        _c14a(fb, rep)
    c14(fb, rep)


RULES['C14'] = _c14


# ================================================================================================ tenth batch (F133 - F140)
def c20d(fb, rep):
    """R20.8: an array allocated with new[] inside a function of the C interface and held in a LOCAL pointer is released (delete[]) on every path to the
    function's exit, unless the pointer itself is returned / handed to the caller (SoPlex_getPrimalRationalString, SoPlex_objValueRationalString return the
    string).  (F135)"""
    rep.rule('R20.8', 'C interface: memory from new held in a local pointer is deleted on every path unless the pointer is returned to the caller', floor=4)
    k = 0
    for f in sorted(fb.funcs.values(), key=lambda g: (g.file, g.line)):
        if not f.nodes or not f.file.endswith('soplex_interface.cpp'):
            continue
        g = None
        for n in f.nodes:
            if n.k != 'CXXNewExpr':
                continue
            par = f.parent_of(n)
            while par is not None and par.k in ('ImplicitCastExpr', 'ParenExpr', 'ExprWithCleanups'):
                par = f.parent_of(par)
            name = None
            if par is not None and par.k == 'VarDecl':
                name = par.n if isinstance(par.n, str) else par.short
            elif par is not None and par.k == 'BinaryOperator' and par.o == '=' and strip(par.kids[0]).k == 'DeclRefExpr':
                name = strip(par.kids[0]).short
            if not name:
                continue
            name = str(name).split('::')[-1]
            k += 1
            returned = any(x.k == 'ReturnStmt' and x.c and render(strip(x.kids[0])) == name for x in f.nodes)
            if returned:
                rep.ok('R20.8', '%s|%s' % (f.short, name), '%s:%d' % (f.file, n.l), 'returned to the caller', nontrivial=False)
                continue
            if g is None:
                g = Graph(f, None)
            ok, path = g.must_pass(lambda x: x.k == 'CXXDeleteExpr' and name in render(x), start=g.block_of(n))
            rep.check(ok, 'R20.8', '%s|%s' % (f.short, name), '%s:%d' % (f.file, n.l), 'delete[] on every path',
                      '%s allocates `%s` with new[] and has a path to its exit without delete[]: every call leaks the array (and the GMP limbs of its rationals)' % (f.short, name))
    if k < 4:
        raise AnalysisBroken('R20.8: only %d local new[] arrays found in the C interface' % k)


_c20a = RULES['C20']


def _c20(fb, rep):
    _c20a(fb, rep)
    c20d(fb, rep)


RULES['C20'] = _c20


def c14b(fb, rep):
    """R14.8: writeBasisFile() hands the job to the floating-point solver (which writes ITS basis) only if this object has a basis: the forwarding call is
    governed by _hasBasis / hasBasis().  (F134)"""
    rep.rule('R14.8', 'writeBasisFile(): the solver\'s own basis is written only if the object has a basis', floor=1)
    f = fb.one(C + '::writeBasisFile')
    fw = [n for n in f.nodes if n.k == 'CXXMemberCallExpr' and n.short == 'writeBasisFile' and n.obj() is not None and render(strip(n.obj())).replace('this->', '') == '_solver']
    if not fw:
        raise AnalysisBroken('R14.8: writeBasisFile() no longer forwards to _solver.writeBasisFile()')
    for n in fw:
        conds = [render(a.kid('cond')) for a in f.ancestors(n) if a.k == 'IfStmt' and a.kid('cond') is not None and a.kid('then') is not None and any(x.i == n.i for x in a.kid('then').walk())]
        ok = any(re.search(r'\b_hasBasis\b|\bhasBasis\(\)', c) for c in conds)
        rep.check(ok, 'R14.8', 'writeBasisFile|forward', '%s:%d' % (f.file, n.l), 'under %s' % conds[:1],
                  'the solver\'s basis is written under %s only: after a solve that discarded the basis (hasBasis() false, getBasis() = slack basis) the file holds the solver\'s stale '
                  'basis, not what the object reports' % (conds[:1] or 'no condition'))


_c14b0 = RULES['C14']


def _c14x(fb, rep):
    _c14b0(fb, rep)
    c14b(fb, rep)


RULES['C14'] = _c14x


def c13b(fb, rep):
    """R13.18: the gz-capable input stream throws from its constructor (missing file, directory) and from reads on damaged data; the readers are written for
    a stream that reports through its state.  No function constructs an spxifstream directly from a file name - the stream is opened through
    spxOpenInputFile(), the one place that converts the exceptions.  (F137)"""
    rep.rule('R13.18', 'input files are opened through spxOpenInputFile(), never by constructing spxifstream from a name', floor=3)
    k = 0
    opens = 0
    for f in sorted(fb.funcs.values(), key=lambda g: (g.file, g.line, g.name)):
        if not f.nodes or not f.file.startswith('/') or '/src/' not in f.file or '/external/' in f.file:
            continue
        for n in f.nodes:
            if n.k == 'CallExpr' and n.short == 'spxOpenInputFile':
                opens += 1
                k += 1
                rep.ok('R13.18', '%s|spxOpenInputFile#%d' % (f.short, k), '%s:%d' % (f.file, n.l), 'opened through the helper', nontrivial=False)
            if n.k == 'VarDecl' and n.t and re.search(r'(spxifstream|zstr::ifstream)\b', n.t) and n.c:
                if re.search(r'ifstream\([^)]', render(n)):
                    k += 1
                    rep.bad('R13.18', '%s|%s#%d' % (f.short, render(n)[:30], k), '%s:%d' % (f.file, n.l),
                            '`%s` constructs the stream from a file name: for a missing file, a directory or a damaged gz stream the constructor / the reads throw and the documented '
                            '"returns false" of the reader never happens (the binary terminates)' % render(n)[:60])
    # (a tree in which the streams are constructed directly again has no such calls: that is the violation reported above, not a blind rule)
    if opens < 3 and k == opens:
        raise AnalysisBroken('R13.18: only %d calls of spxOpenInputFile found' % opens)


_c13b0 = RULES['C13']


def _c13x(fb, rep):
    _c13b0(fb, rep)
    c13b(fb, rep)


RULES['C13'] = _c13x


def c08(fb, rep):
    """R08.12: SPxMainSM claims UNBOUNDED / DUAL_INFEASIBLE from the sign of an objective coefficient only if that coefficient exceeds the dual feasibility
    tolerance: every `return UNBOUNDED` (or DUAL_INFEASIBLE) is governed by a condition that involves opttol().  (F138)
    R08.13: inside unsimplify() all vectors are in minimisation form: no PostStep::execute() branches on m_maxSense.  (F139)
    R08.14: FixVariablePS::execute() consults the sign of the reduced cost when it labels the variable (bounds that agree within the tolerance).  (F140)"""
    SM = [f for f in fb.funcs.values() if f.nodes and f.name.startswith('soplex::SPxMainSM<double>::')]
    rep.rule('R08.12', 'SPxMainSM: a verdict UNBOUNDED / DUAL_INFEASIBLE is governed by a comparison that uses the dual feasibility tolerance', floor=6)
    # duplicateCols never fires (m_dupCols[..].add(k, 0.0) adds nothing, see DESIGN section 6): its raw objDif tests cannot be reached with parallel columns
    ACC = {'duplicateCols': 'dead reduction: the classes of parallel columns are never filled (add(k, 0.0) adds nothing)'}
    k = 0
    for f in sorted(SM, key=lambda g: g.line):
        for n in f.nodes:
            if n.k != 'ReturnStmt' or not n.c or not re.search(r'\b(UNBOUNDED|DUAL_INFEASIBLE)\b', render(n)):
                continue
            conds = []
            for a in f.ancestors(n):
                if a.k == 'IfStmt' and a.kid('cond') is not None:
                    conds.append(render(a.kid('cond')))
            if not conds:
                continue          # forwarding the verdict of a callee
            k += 1
            ok = any('opttol()' in c for c in conds)
            acc = ACC.get(f.short)
            rep.check(ok or acc is not None, 'R08.12', '%s|return#%d' % (f.short, k), '%s:%d' % (f.file, n.l), 'opttol() in the governing conditions' if ok else 'accepted: %s' % acc,
                      '%s returns %s under (%s): the sign of an objective coefficient that presolve itself has updated decides without the dual tolerance - a rounding residue of 2e-16 '
                      'made an LP with optimum -6 "unbounded"' % (f.short, render(n)[:30], ' && '.join(c[:40] for c in conds[:2])))
    if k < 6:
        raise AnalysisBroken('R08.12: only %d guarded UNBOUNDED / DUAL_INFEASIBLE returns found in SPxMainSM' % k)
    rep.rule('R08.13', 'SPxMainSM post steps: execute() never branches on the objective sense', floor=12)
    k = 0
    for f in sorted(SM, key=lambda g: g.line):
        if f.short != 'execute':
            continue
        k += 1
        uses = [n for n in f.nodes if n.k == 'MemberExpr' and re.search(r'[mM]axSense|[mM]inSense|m_sense', n.short or '')]
        rep.check(not uses, 'R08.13', f.name.replace('soplex::SPxMainSM<double>::', '')[:50], f.where(), 'no sense test',
                  '%s reads %s (line %d): unsimplify() negates dual and reduced costs on entry, every vector inside a post step is in minimisation form, a sense switch inverts the test '
                  'for maximisation problems' % (f.name.split('::')[-2], uses[0].short if uses else '', uses[0].l if uses else 0))
    if k < 12:
        raise AnalysisBroken('R08.13: only %d PostStep::execute bodies found' % k)
    rep.rule('R08.14', 'FixVariablePS::execute(): the reduced cost decides the side of a variable whose bounds agree within the tolerance', floor=1)
    fx = [f for f in SM if f.short == 'execute' and 'FixVariablePS' in f.name]
    if not fx:
        raise AnalysisBroken('R08.14: FixVariablePS::execute not found')
    f = fx[0]
    st = [n for n in f.nodes if n.k in ('BinaryOperator', 'CXXOperatorCallExpr') and n.o == '=' and re.match(r'\(?cStatus\[', render(n.kids[0] if n.k == 'BinaryOperator' else n.args()[0]))]
    rc = [n for n in f.nodes if n.k == 'BinaryOperator' and n.o in ('<', '>', '<=', '>=') and re.search(r'\br\[m_j\]', render(n)) and not f.in_assert(n)]
    rep.check(bool(st) and bool(rc), 'R08.14', 'FixVariablePS::execute', f.where(), 'sign of r[m_j] consulted',
              'the status of the fixed variable is chosen from the position of the value alone: with bounds that agree only within the tolerance it is always ON_LOWER, also with a '
              'reduced cost of the wrong sign (dual infeasible postsolved basis)')


_c08a = RULES.get('C08')


def _c08(fb, rep):
    if _c08a:
        _c08a(fb, rep)
    c08(fb, rep)


RULES['C08'] = _c08


# ================================================================================================ eleventh batch (F141, F142)
def c13c(fb, rep):
    """R13.19: the floating-point MPS reader converts a value field only through MPSreadValue() (complete, finite decimal number or syntax error): no
    atof / atoi / strtod call in the MPSread* functions themselves.  (F141)"""
    rep.rule('R13.19', 'MPS reader (floating-point): value fields are converted by MPSreadValue(), never by atof()', floor=6)
    k = 0
    nbad = 0
    for f in sorted(fb.funcs.values(), key=lambda g: (g.file, g.line)):
        if not f.nodes or not f.file.endswith('spxlpbase_real.hpp') or not (f.short or '').startswith('MPSread') or f.short == 'MPSreadValue':
            continue
        for n in f.nodes:
            if n.k == 'CallExpr' and n.short in ('atof', 'atoi', 'atol', 'strtod', 'strtol', 'stod', 'stoi', 'MPSreadValue'):
                k += 1
                nbad += (n.short != 'MPSreadValue')
                rep.check(n.short == 'MPSreadValue', 'R13.19', '%s|%s#%d' % (f.short, n.short, k), '%s:%d' % (f.file, n.l), 'checked conversion',
                          '%s(%s) accepts "nan", "inf", "abc" (0) and "1/3" (1) without an error: readFile() returns true and the LP holds NaN / infinity / another number' %
                          (n.short, render(n.args()[0])[:30] if n.args() else ''))
    if k < 6:
        raise AnalysisBroken('R13.19: only %d value conversions found in the MPS reader' % k)
    h = [f for f in fb.funcs.values() if f.nodes and f.short == 'MPSreadValue']
    if not h and nbad:
        return            # the unchecked conversions reported above are the finding; there is no helper to look at
    if not h:
        raise AnalysisBroken('R13.19: MPSreadValue not found')
    txt = ' '.join(render(n) for n in h[0].nodes if n.k in ('BinaryOperator', 'CallExpr', 'UnaryOperator'))
    rep.check('isfinite' in txt and re.search(r'\*end != |end\[0\] != ', txt) is not None, 'R13.19', 'MPSreadValue|complete and finite', h[0].where(), 'end of token and finiteness tested',
              'MPSreadValue() does not test that the whole field was consumed and that the result is finite')


_c13c0 = RULES['C13']


def _c13y(fb, rep):
    _c13c0(fb, rep)
    c13c(fb, rep)


RULES['C13'] = _c13y


def c08b(fb, rep):
    """R08.15: a post step stores "this reduction tightened the lower / upper bound" (m_strictLo / m_strictUp) for one purpose: to decide in execute() whether
    a bound the variable sits on is one the reduction itself supplied.  Every PostStep class that has these members reads both of them in execute().  (F142)"""
    rep.rule('R08.15', 'SPxMainSM post steps: the stored m_strictLo / m_strictUp are read by execute()', floor=4)
    k = 0
    for K, c in sorted(fb.classes.items()):
        if not K.startswith('soplex::SPxMainSM<double>::'):
            continue
        fl = [x['n'] for x in c['fields'] if x['n'] in ('m_strictLo', 'm_strictUp')]
        if not fl:
            continue
        ex = [f for f in fb.methods_of(K) if f.short == 'execute' and f.nodes]
        if not ex:
            continue
        for m in fl:
            k += 1
            rd = [n for n in ex[0].nodes if n.k == 'MemberExpr' and n.short == m]
            rep.check(bool(rd), 'R08.15', '%s|%s' % (K.split('::')[-1], m), ex[0].where(), 'read in execute()',
                      '%s stores %s and execute() never reads it: the step cannot tell a bound it supplied itself from one produced by another reduction (a row that supplies the '
                      'binding bound is called redundant; OPTIMAL with a wrong dual solution through optimize())' % (K.split('::')[-1], m))
    if k < 4:
        raise AnalysisBroken('R08.15: only %d m_strict* members found' % k)


_c08b0 = RULES['C08']


def _c08x(fb, rep):
    _c08b0(fb, rep)
    c08b(fb, rep)


RULES['C08'] = _c08x


# ================================================================================================ twelfth batch (F143)
def c12(fb, rep):
    """R12.9: readLPF (both twins): a term `coefficient variable` is added to the vector under construction only after looking whether the vector already has
    that variable (vec.pos(colidx)) - in the objective section as in the constraints section; otherwise a variable that occurs twice gives a vector with a
    duplicate index and the last term wins.  (F143)"""
    rep.rule('R12.9', 'LP-format reader: every vec.add(colidx, ..) is governed by a look-up vec.pos(colidx)', floor=4)
    k = 0
    for f in sorted(fb.funcs.values(), key=lambda g: (g.file, g.line, g.name)):
        if not f.nodes or f.short != 'readLPF':
            continue
        for n in f.nodes:
            if n.k == 'CXXMemberCallExpr' and n.short == 'add' and n.obj() is not None and render(strip(n.obj())) == 'vec' and len(n.args()) == 2:
                idx = render(strip(n.args()[0]))
                k += 1
                tested = False
                for a in f.ancestors(n):
                    if a.k == 'IfStmt' and a.kid('cond') is not None:
                        ct = render(a.kid('cond'))
                        if re.search(r'vec\.pos\(%s\) (<|>=) 0' % re.escape(idx), ct):
                            tested = True
                        m = re.fullmatch(r'\(?(\w+) (<|>=) 0\)?', ct)
                        if m and any(x.k == 'VarDecl' and str(x.n).split('::')[-1] == m.group(1) and re.search(r'vec\.pos\(%s\)' % re.escape(idx), render(x)) for x in f.nodes):
                            tested = True
                rep.check(tested, 'R12.9', '%s|vec.add(%s)#%d' % (f.name.replace('soplex::', '')[:40], idx, k), '%s:%d' % (f.file, n.l), 'vec.pos(%s) consulted' % idx,
                          'vec.add(%s, val) without looking whether the vector already has that variable: for "x + x" the vector gets a duplicate index and the last term wins '
                          '(objective) - the file is read as another LP without a message' % idx)
    if k < 4:
        raise AnalysisBroken('R12.9: only %d vec.add calls in readLPF' % k)


_c12a = RULES.get('C12')


def _c12(fb, rep):
    if _c12a:
        _c12a(fb, rep)
    c12(fb, rep)


RULES['C12'] = _c12


def c12b(fb, rep):
    """R12.10: LPRowSetBase::type() reports a row WITHOUT sides as GREATER_EQUAL (the right-hand side is tested first).  A consumer that switches on the
    type and uses lhs(i) as a number in the GREATER_EQUAL arm tests lhs(i) against -infinity there (an assert is not a test).  (F144)"""
    from engine import case_arm_nodes
    rep.rule('R12.10', 'a GREATER_EQUAL arm that uses lhs(i) as a number handles the free row (lhs(i) <= -infinity)', floor=1)
    k = 0
    for f in sorted(fb.funcs.values(), key=lambda g: (g.file, g.line, g.name)):
        if not f.nodes or not f.name.startswith('soplex::SPxLPBase<') or re.search(r'::LPRow(Set)?Base<', f.name):
            continue
        for cs in f.nodes:
            if cs.k != 'CaseStmt' or not cs.kids or not render(strip(cs.kids[0])).endswith('GREATER_EQUAL'):
                continue
            arm = case_arm_nodes(f, cs)
            uses = [n for n in arm if n.is_call() and any(re.fullmatch(r'\(?(this->)?lhs\(\w+\)\)?', render(strip(a))) for a in n.args()) and not f.in_assert(n)]
            if not uses:
                continue
            k += 1
            tests = [n for n in arm if n.k in ('BinaryOperator', 'CXXOperatorCallExpr') and re.search(r'lhs\(\w+\) (<=|>|<|>=) .*infinity', render(n)) and not f.in_assert(n)]
            rep.check(bool(tests), 'R12.10', '%s|case GREATER_EQUAL#%d' % (f.name.replace('soplex::', '')[:50], k), '%s:%d' % (f.file, cs.l), 'free row handled',
                      'the arm passes lhs(i) on as a number (`%s`) without testing it against -infinity: type() also reports a free row as GREATER_EQUAL, the dual LP gets the '
                      'objective coefficient -1e100 (assertion lhs(i) > -infinity in builds that keep assertions)' % render(uses[0])[:60])
    if k < 1:
        raise AnalysisBroken('R12.10: no GREATER_EQUAL arm that uses lhs(i) found')


_c12c = RULES['C12']


def _c12x(fb, rep):
    _c12c(fb, rep)
    c12b(fb, rep)


RULES['C12'] = _c12x


# ================================================================================================ thirteenth batch (F145)
def c17b(fb, rep):
    """R17.15: SLUFactor / SLUFactorRational do not copy their temporary vectors vec / ssvec (rightly), but every solve with a sparse right-hand side writes
    into them: assign() - the one function behind copy constructor, clone() and operator= - gives both the dimension of the copied factorization
    (reDim(thedim)) before it takes `work = vec.get_ptr()`, as load() does.  (F145)"""
    rep.rule('R17.15', 'SLUFactor / SLUFactorRational::assign(): the temporary vectors get the dimension of the copied factorization', floor=4)
    k = 0
    for K in ('soplex::SLUFactor<double>', 'soplex::SLUFactorRational'):
        fs = [f for f in fb.methods_of(K) if f.short == 'assign' and f.nodes]
        if not fs:
            raise AnalysisBroken('R17.15: %s::assign not found' % K)
        f = fs[0]
        wk = [n for n in f.nodes if n.k == 'BinaryOperator' and n.o == '=' and re.search(r'(this->)?work$', render(strip(n.kids[0]))) and 'vec.get_ptr()' in render(n.kids[1])]
        if not wk:
            rep.unrec('R17.15', K.replace('soplex::', '') + '|work', f.where(), '`work = vec.get_ptr()` not found in assign()')
            continue
        for v in ('vec', 'ssvec'):
            k += 1
            rd = [n for n in f.nodes if n.k == 'CXXMemberCallExpr' and n.short == 'reDim' and n.obj() is not None and render(strip(n.obj())).replace('this->', '') == v
                  and 'thedim' in render(n) and n.l <= wk[0].l]
            rep.check(bool(rd), 'R17.15', '%s::assign|%s' % (K.replace('soplex::', ''), v), '%s:%d' % (f.file, wk[0].l), 'reDim(thedim) before work is taken',
                      '%s is not copied and never re-dimensioned in assign(): on a copy it keeps dimension 1 (copy constructor) or its old dimension, and every solve with a sparse '
                      'right-hand side writes beyond it (assertion vec.index(i) < dim(); a copied SoPlex cannot answer getBasisInverse*Rational)' % v)
    if k < 4:
        raise AnalysisBroken('R17.15: only %d obligations' % k)


_c17a = RULES['C17']


def _c17(fb, rep):
    _c17a(fb, rep)
    c17b(fb, rep)


RULES['C17'] = _c17


def c03e(fb, rep):
    """R03.13: the unboundedness test accepts the auxiliary solution without a ray when tau <= feastol (_performUnboundedIRStable); the function that undoes
    the transformation keeps the dual multipliers under the same test - every comparison of tau with _rationalFeastol that decides the no-ray case uses
    the same operator in both functions (with the exact tolerances 0, `<` and `<=` differ on tau = 0).  (F146)
    R03.14: dual multipliers follow the sign convention of the objective sense: where _untransformUnbounded() normalises the multipliers by the multiplier
    of the objective row (a scalar read from sol._dual[..] that it divides by), it consults OBJSENSE.  (F147)"""
    rep.rule('R03.13', 'unboundedness test: tau is compared with the feasibility tolerance by the same operator where the solution is accepted and where it is used', floor=2)
    ops = {}
    k = 0
    for nm in ('_performUnboundedIRStable', '_untransformUnbounded'):
        f = fb.one(C + '::' + nm)
        taus = set(['tau'])
        for n in f.nodes:
            cp = None
            if n.k == 'BinaryOperator' and n.o in ('<', '<='):
                cp = (n.o, n.kids[0], n.kids[1])
            elif n.k == 'CXXOperatorCallExpr' and n.o in ('<', '<=') and len(n.args()) == 2:
                cp = (n.o, n.args()[0], n.args()[1])
            if not cp or f.in_assert(n):
                continue
            l, r = render(strip(cp[1])), render(strip(cp[2]))
            if r.replace('this->', '') == '_rationalFeastol' and (l in taus or re.fullmatch(r'\(?sol\._primal\[\(?(numOrigCols|numColsRational\(\) - 1)\)?\]\)?', l)):
                k += 1
                ops.setdefault(cp[0], []).append((f, n))
    if k < 2:
        raise AnalysisBroken('R03.13: only %d comparisons of tau with _rationalFeastol found' % k)
    for o, lst in sorted(ops.items()):
        for f, n in lst:
            rep.check(len(ops) == 1, 'R03.13', '%s|tau %s feastol' % (f.short, o), '%s:%d' % (f.file, n.l), 'one operator (%s)' % o,
                      'tau is compared with the feasibility tolerance by %s here and by %s elsewhere: with feastol = 0 and tau = 0 the solution is accepted as "no ray" but its '
                      'multipliers are thrown away (assert(false) "Not dual infeasible" in _optimizeRational)' % (o, sorted(set(ops) - {o})))
    rep.rule('R03.14', '_untransformUnbounded(): the normalisation of the dual multipliers by the multiplier of the objective row consults the objective sense', floor=1)
    f = fb.one(C + '::_untransformUnbounded')
    div = [n for n in f.nodes if n.k in ('CompoundAssignOperator', 'CXXOperatorCallExpr') and n.o == '/=' and re.search(r'sol\._(dual|redCost)', render(n.kids[0] if n.k == 'CompoundAssignOperator' else n.args()[0]))]
    if not div:
        raise AnalysisBroken('R03.14: no normalisation of sol._dual / sol._redCost found in _untransformUnbounded')
    sense = [n for n in f.nodes if n.k == 'DeclRefExpr' and n.dk == 'enum' and n.short in ('OBJSENSE_MINIMIZE', 'OBJSENSE_MAXIMIZE')]
    rep.check(bool(sense), 'R03.14', '_untransformUnbounded|alpha', '%s:%d' % (f.file, div[0].l), 'objective sense consulted',
              'the dual multipliers are divided by the (negated) multiplier of the objective row without looking at the objective sense: that multiplier is -1 for maximization and '
              '+1 for minimization, the assertion alpha <= -1 + feastol fails for every infeasible minimization LP with bool:testdualinf')


_c03y = RULES['C03']


def _c03z(fb, rep):
    _c03y(fb, rep)
    c03e(fb, rep)


RULES['C03'] = _c03z


def c13d(fb, rep):
    """R13.20: readLPF (both twins) registers a row name when "name:" is read and the row when it is complete; it compares the number of names with the number
    of rows (rnames->num() against rset.num()) after a row was completed and once more behind the sections, and treats a difference as a syntax error -
    otherwise readFile() returns true with name sets that do not match the dimensions.  (F148)"""
    rep.rule('R13.20', 'LP-format reader: names and rows are counted against each other (after a row, and before success is returned)', floor=4)
    k = 0
    for f in sorted(fb.funcs.values(), key=lambda g: (g.file, g.line, g.name)):
        if not f.nodes or f.short != 'readLPF':
            continue
        cmps = [n for n in f.nodes if n.k == 'BinaryOperator' and n.o in ('!=', '==') and re.search(r'rnames->num\(\)', render(n)) and re.search(r'rset\.num\(\)', render(n)) and not f.in_assert(n)]
        inloop = [n for n in cmps if any(a.k in ('ForStmt', 'WhileStmt', 'DoStmt') for a in f.ancestors(n))]
        after = [n for n in cmps if n not in inloop]
        for what, lst in (('after every completed row', inloop), ('before success is returned', after)):
            k += 1
            rep.check(bool(lst), 'R13.20', '%s|%s' % (f.name.replace('soplex::', '')[:40], what), f.where(), 'rnames->num() compared with rset.num()',
                      'readLPF never compares the number of row names with the number of rows %s: an unfinished last row or a name used twice leaves the name set out of step with '
                      'the rows and readFile() still returns true (row nRows() is indexed when the names are used for a basis file)' % what)
    if k < 4:
        raise AnalysisBroken('R13.20: readLPF twins not found')


_c13d0 = RULES['C13']


def _c13w(fb, rep):
    _c13d0(fb, rep)
    c13d(fb, rep)


RULES['C13'] = _c13w


# ================================================================================================ tenth batch (hash table: seed C19-1)
def c19e(fb, rep):
    """R19.21: DataHashTable is an open-addressing table: index() walks a probe chain until it meets the END-OF-CHAIN status (read from index()'s own loop
    guard, `stat != FREE` today).  Vacating ONE slot with that status cuts every chain that runs through it - names registered later are no longer found -
    so the end-of-chain status is only ever assigned inside a loop over all slots (clear()), and remove() assigns some other status (the tombstone).
    R19.22: the fill counter follows the status: a single-slot assignment of the HIT status (the one index() requires for a match) increments m_used, a
    single-slot assignment of any other status decrements it.
    R19.23: insertion and lookup walk the same probe sequence: the start slot and the step of add()'s probe loop equal those of index()."""
    H = {f.short: f for f in fb.funcs.values() if f.nodes and re.match(r'soplex::DataHashTable<', f.name) and f.short in ('add', 'remove', 'index')}
    if set(H) != {'add', 'remove', 'index'}:
        raise AnalysisBroken('R19.21: DataHashTable::add/remove/index not found (%s)' % sorted(H))
    idx = H['index']
    guard = [re.match(r'\(m_elem\[(\w+)\]\.stat != (\w+)\)$', render(n.kid('cond'))) for n in idx.nodes if n.k == 'WhileStmt' and n.kid('cond') is not None]
    guard = [m for m in guard if m]
    hit = [re.search(r'\(m_elem\[\w+\]\.stat == (\w+)\) &&', render(n)) for n in idx.nodes if n.k == 'BinaryOperator' and n.o == '&&']
    hit = [m for m in hit if m]
    if len(guard) != 1 or not hit:
        raise AnalysisBroken('R19.21: the probe loop of DataHashTable::index() (while(m_elem[i].stat != <end>) ... stat == <hit> && item == h) was not recognised')
    END, HIT = guard[0].group(2), hit[0].group(1)
    rep.rule('R19.21', 'DataHashTable: the end-of-chain status (%s) is assigned only by a loop over all slots; remove() leaves a tombstone' % END, floor=3)
    rep.rule('R19.22', 'DataHashTable: a single-slot status assignment is accompanied by the matching change of m_used', floor=2)
    k = k2 = 0
    for f in sorted(fb.funcs.values(), key=lambda g: (g.name, g.line)):
        if not f.nodes or not re.match(r'soplex::DataHashTable<', f.name):
            continue
        for n in f.nodes:
            m = re.match(r'\(m_elem\[(\w+)\]\.stat = (\w+)\)$', render(n)) if n.k == 'BinaryOperator' and n.o == '=' else None
            if not m:
                continue
            k += 1
            loops = [a for a in list(f.ancestors(n)) if a.k in ('ForStmt', 'WhileStmt') and a.kid('cond') is not None and re.search(r'\b%s < \(?(this->)?m_elem\.size\(\)' % re.escape(m.group(1)), render(a.kid('cond')))]
            if m.group(2) == END:
                rep.check(bool(loops), 'R19.21', '%s|stat=%s#%d' % (f.short, END, k), '%s:%d' % (f.file, n.l), 'inside a loop over all slots',
                          '%s() marks the single slot m_elem[%s] %s, the status at which index() stops probing: every element whose probe chain passes this slot becomes '
                          'unreachable (has()/number() by name fail for registered names, add() registers a name twice)' % (f.short, m.group(1), END))
            else:
                rep.check(True, 'R19.21', '%s|stat=%s#%d' % (f.short, m.group(2), k), '%s:%d' % (f.file, n.l), 'not the end-of-chain status', '')
            if not loops:
                k2 += 1
                want = 'post++|pre++' if m.group(2) == HIT else 'post--|pre--'
                cnt = [x for x in f.nodes if x.k == 'UnaryOperator' and re.match(want.replace('+', r'\+'), x.o or '') and re.match(r'\(?(this->)?m_used', render(x).replace('++', '').replace('--', ''))]
                cnt += [x for x in f.nodes if x.k in ('CompoundAssignOperator', 'BinaryOperator') and re.match(r'\(?(this->)?m_used (\+=|-=|= )', render(x))]
                rep.check(bool(cnt), 'R19.22', '%s|stat=%s#%d' % (f.short, m.group(2), k2), '%s:%d' % (f.file, n.l), 'm_used follows',
                          '%s() sets a slot to %s and does not %s m_used: index() answers "not found" for everything once the counter reads 0, and the fill factor test of add() '
                          'no longer sees the load' % (f.short, m.group(2), 'increment' if m.group(2) == HIT else 'decrement'))
    rm = [n for n in H['remove'].nodes if n.k == 'BinaryOperator' and n.o == '=' and re.match(r'\(m_elem\[\w+\]\.stat = ', render(n))]
    k += 1
    rep.check(bool(rm), 'R19.21', 'remove|tombstone', H['remove'].where(), 'a status is assigned', 'remove() no longer changes the status of the slot it vacates')
    if k < 3 or k2 < 2:
        raise AnalysisBroken('R19.21/22: only %d status assignments (%d single-slot) found in DataHashTable' % (k, k2))

    rep.rule('R19.23', 'DataHashTable: add() and index() walk the same probe sequence (same start slot, same step)', floor=2)

    def probe(f):
        start = [render(n.kids[1]) for n in f.nodes if n.k in ('BinaryOperator', 'VarDecl') and re.search(r'm_hashfun\(&\w+\) % ', render(n)) and n.k == 'BinaryOperator' and n.o == '=']
        start += [m.group(0) for m in [re.search(r'\(\*m_hashfun\(&\w+\) % [^;]*?size\(\)\)', render(n)) for n in f.nodes if n.k == 'BinaryOperator' and n.o == '%'] if m]
        step = [render(n.kids[1]) for n in f.nodes if n.k == 'BinaryOperator' and n.o == '=' and re.match(r'\((\w+) = \(\(\1 \+ ', render(n))]
        return (start[0] if start else None), (step[0] if step else None)
    pa, pi = probe(H['add']), probe(H['index'])
    if None in pa or None in pi:
        raise AnalysisBroken('R19.23: probe start/step of add() %s or index() %s not recognised' % (pa, pi))
    for what, a, b in (('start', pa[0], pi[0]), ('step', pa[1], pi[1])):
        rep.check(a == b, 'R19.23', 'probe|%s' % what, H['index'].where(), a[:50],
                  'add() probes with %s `%s`, index() with `%s`: an element that collided on insertion is looked for along a different chain' % (what, a[:60], b[:60]))


_c19h = RULES['C19']


def _c19i(fb, rep):
    _c19h(fb, rep)
    c19e(fb, rep)


RULES['C19'] = _c19i


# ================================================================================================ eleventh batch (LU twins: seed C11-1)
def _lu_zero_twins(fb):
    """Pairs (CLUFactor<double>::f, CLUFactorRational::f) of uniquely named member functions with, for each, the multiset of subscripted lvalues that are
    assigned the constant zero (`vec[r] = 0;`), parameter names replaced by their position (the twins name their parameters differently)."""
    from collections import Counter

    def zeros(f, positional):
        pn = {}
        if positional:      # pointer parameters numbered within their class (index arrays / value arrays): the rational twins drop the scalar eps parameters
            cnt = {'i': 0, 'v': 0}
            for name, ty in f.params:
                if name and ty.rstrip().endswith('*'):
                    cl = 'i' if re.match(r'(const )?int\b', ty) else 'v'
                    cnt[cl] += 1
                    pn[name] = '$%s%d' % (cl, cnt[cl])
        c, where = Counter(), {}
        for n in f.nodes:
            if n.k not in ('BinaryOperator', 'CXXOperatorCallExpr') or n.o != '=' or f.in_assert(n):
                continue
            kids = n.kids if n.k == 'BinaryOperator' else n.args()
            if len(kids) < 2:
                continue
            lhs, rhs = render(strip(kids[0])), render(strip(kids[1]))
            if '[' not in lhs or not re.match(r'^\(?(Rational|R|double)?\(?0(\.0*)?\)?\)?$', rhs):
                continue
            lhs = re.sub(r'\b([A-Za-z_]\w*)\b', lambda m: pn.get(m.group(1), m.group(1)), lhs)
            c[lhs] += 1
            where.setdefault(lhs, n.l)
        return c, where
    real, rat = {}, {}
    for f in fb.funcs.values():
        if not f.nodes:
            continue
        if re.match(r'soplex::CLUFactor<double>::', f.name):
            real.setdefault(f.short, []).append(f)
        elif re.match(r'soplex::CLUFactorRational::', f.name):
            rat.setdefault(f.short, []).append(f)
    out = []
    for s in sorted(set(real) & set(rat)):
        if len(real[s]) != 1 or len(rat[s]) != 1:
            continue
        # the twins mostly use the same parameter names; where they do not (rhs / rhs2), compare by the position among the pointer parameters
        a, b = zeros(real[s][0], False), zeros(rat[s][0], False)
        if a[0] != b[0]:
            a2, b2 = zeros(real[s][0], True), zeros(rat[s][0], True)
            if sum(((a2[0] - b2[0]) + (b2[0] - a2[0])).values()) < sum(((a[0] - b[0]) + (b[0] - a[0])).values()):
                a, b = a2, b2
        if a[0] or b[0]:
            out.append((s, real[s][0], rat[s][0], a, b))
    return out


def _lu_zero_rule(fb, rep, rid, side):
    """side 0: the floating-point function must reset what its rational twin resets (C10); side 1: the rational one what the floating-point twin resets (C11)."""
    who = ('CLUFactor<R>', 'CLUFactorRational')
    rep.rule(rid, 'LU twins: %s resets (assigns zero to) every work-vector / table entry that the same function of %s resets' % (who[side], who[1 - side]), floor=20)
    pairs = _lu_zero_twins(fb)
    if len(pairs) < 20:
        raise AnalysisBroken('%s: only %d twin functions of CLUFactor<R> / CLUFactorRational with zeroing assignments found' % (rid, len(pairs)))
    for s, fr, fq, a, b in pairs:
        mine, other = (a, b) if side == 0 else (b, a)
        f = fr if side == 0 else fq
        g = fq if side == 0 else fr
        missing = other[0] - mine[0]
        rep.check(not missing, rid, '%s|zeroing' % s, f.where(), '%d resets on both sides' % sum(mine[0].values()),
                  '%s::%s does not reset %s, which %s::%s (%s:%d) sets to zero: the solve routines consume their right-hand side / work vector and the callers '
                  '(assign() of a sparse vector, the next solve) rely on finding it all-zero - stale entries are added to the next right-hand side'
                  % (who[side], s, ', '.join('%s (x%d)' % kv for kv in sorted(missing.items()))[:120], who[1 - side], s, g.file, other[1].get(sorted(missing)[0], g.line) if missing else 0))


def c10e(fb, rep):
    """R10.7: see _lu_zero_rule (side 0)."""
    _lu_zero_rule(fb, rep, 'R10.7', 0)


def c11e(fb, rep):
    """R11.11: see _lu_zero_rule (side 1)."""
    _lu_zero_rule(fb, rep, 'R11.11', 1)


_c10p, _c11p = RULES['C10'], RULES['C11']


def _c10q(fb, rep):
    _c10p(fb, rep)
    c10e(fb, rep)


def _c11q(fb, rep):
    _c11p(fb, rep)
    c11e(fb, rep)


RULES['C10'] = _c10q
RULES['C11'] = _c11q


# ================================================================================================ twelfth batch (generic shape S13: seed C07-2)
def _s13_scan(fb):
    """S13: a sign flip `X *= -1` inside a loop, where X is an element (a subscript or an accessor call with arguments), addresses a DIFFERENT element in
    every iteration: some variable in X's index is changed inside the loop.  Flipping the same element on every pass leaves it flipped or not by the parity
    of the trip count and never touches the others.  Plain variables (locals recomputed per pass) are not elements and are skipped."""
    out, seen = [], set()
    for f in sorted(fb.funcs.values(), key=lambda g: (g.file, g.line, g.name)):
        if not f.nodes or '/src/soplex/' not in f.file:
            continue
        for n in f.nodes:
            if n.k not in ('CompoundAssignOperator', 'CXXOperatorCallExpr') or n.o != '*=':
                continue
            kids = n.kids if n.k != 'CXXOperatorCallExpr' else n.args()
            if len(kids) < 2 or not re.match(r'^\(?-1(\.0*)?\)?$', render(strip(kids[1]))):
                continue
            lhs = render(strip(kids[0]))
            m = re.search(r'[\[(](.*)[\])]\)?$', lhs)
            if not m or not re.search(r'[A-Za-z_]', m.group(1)):
                continue
            loops = [a for a in list(f.ancestors(n)) if a.k in ('ForStmt', 'WhileStmt', 'DoStmt')]
            if not loops or (f.file, n.l) in seen:
                continue
            seen.add((f.file, n.l))
            ivars = set(re.findall(r'\b[A-Za-z_]\w*\b(?!\s*\()', m.group(1)))
            changed = set()
            for x in loops[0].walk():
                if x.k == 'UnaryOperator' and (x.o or '').replace('post', '').replace('pre', '') in ('++', '--'):
                    changed |= set(re.findall(r'\b[A-Za-z_]\w*\b', render(x)))
                elif x.k in ('BinaryOperator', 'CompoundAssignOperator') and (x.o or '') in ('=', '+=', '-='):
                    changed |= set(re.findall(r'\b[A-Za-z_]\w*\b', render(strip(x.kids[0]))))
                elif x.k == 'VarDecl' and x.n:
                    changed.add(str(x.n).split('::')[-1])
            out.append((f, '%s|%s *= -1' % (f.short, lhs[:40]), '%s:%d' % (f.file, n.l), bool(ivars & changed), lhs, sorted(ivars)))
    return out


def s13(pid, fb, rep):
    from shapes import owner
    res = _s13_scan(fb)
    if len(res) < 10:
        raise AnalysisBroken('S13: only %d sign flips of an element inside a loop found in the program' % len(res))
    mine = [t for t in res if owner(t[0]) == pid]
    if not mine:
        return
    rid = 'R%s.S13' % pid[1:]
    rep.rule(rid, 'a sign flip `X[..] *= -1` inside a loop addresses an element that depends on a variable the loop changes (generic shape rule over the functions this property owns)', floor=1)
    for f, key, where, ok, lhs, iv in mine:
        rep.check(ok, rid, key, where, 'index varies with the loop',
                  'the loop flips the sign of the SAME element `%s` on every pass (none of %s changes inside the loop): that element ends up flipped or not by the parity of '
                  'the trip count and the other elements keep their sign' % (lhs[:50], iv))


def run(pid, fb, rep):      # noqa: F811 - the dispatcher of the top of the file, extended by the generic shape S13
    if pid in RULES:
        RULES[pid](fb, rep)
    s13(pid, fb, rep)
