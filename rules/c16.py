"""C16 — limits and interrupts stop the solve honestly (guard, mapping, budget, plumbing clauses)."""
import re
from engine import render, strip, Graph, Assume, must, reachable_events, case_arm_nodes
from facts import AnalysisBroken, CALL_KINDS
import modifiers as M

EXPLANATION = (
    "Decides structural necessary conditions of C16: R16.1 in SPxSolverBase::solve no pivot (enter/leave) is reachable once the iteration "
    "limit test `maxIters >= 0 && iterations() >= maxIters` or the interrupt test `interrupt != nullptr && *interrupt` holds (CFG pruned "
    "under the assumption that the test is true; a weakened comparison is no longer recognised as the test and leaves the pivot reachable), "
    "the true arms set ABORT_ITER / ABORT_TIME and stop; in performSolutionPolishing no second pivot is reachable from a pivot without "
    "passing the limit tests, whose true arms set the stop flag that every enclosing loop tests; R16.2 _evaluateSolutionReal never rewrites "
    "an abort status to OPTIMAL/INFEASIBLE/UNBOUNDED and stores the solution in every abort arm; ABORT_VALUE is taken from the solver only; "
    "R16.3 in the exact solver every test of stoppedTime / stoppedIter maps to ABORT_TIME / ABORT_ITER, _isSolveStopped compares used "
    "amounts with the limits using >=, and every refinement loop tests it; R16.4 every iteration / time budget handed to a solver is 'limit "
    "minus amount already used' or the unlimited constant; R16.5 the interrupt pointer is forwarded by every caller that has one to every "
    "callee that takes one. NOT decided: resumability and equality of results after lifting a limit, truth of objective-limit aborts, the "
    "re-solves started from functions that have no interrupt parameter (listed).")

C = M.CLS
S = 'soplex::SPxSolverBase<double>'


def pivot(n):
    return n.k == 'CXXMemberCallExpr' and n.short in ('enter', 'leave') and n.n.startswith(S + '::') and n.obj() is not None and n.obj().k == 'CXXThisExpr'


def run(fb, rep, tier):
    rep.extra['explanation'] = EXPLANATION
    solve = fb.one(S + '::solve')
    rep.rule('R16.1', 'no pivot reachable once the iteration-limit / interrupt test holds; true arms abort with the right status', floor=20)
    piv = [n for n in solve.nodes if pivot(n)]
    if len(piv) < 2:
        raise AnalysisBroken('solve(): expected enter() and leave() pivots, found %d' % len(piv))
    for name, atoms, status in (('iteration-limit', {'(maxIters >= 0)': True, '(iterations() >= maxIters)': True}, 'ABORT_ITER'),
                                ('interrupt', {'(interrupt != nullptr)': True, '*interrupt': True}, 'ABORT_TIME')):
        A = Assume(atoms=atoms)
        g = Graph(solve, A)
        if not g.pruned:
            rep.unrec('R16.1', 'solve|%s|test-found' % name, solve.where(), 'the %s test was not found in solve()' % name)
            continue
        ev = reachable_events(solve, A, pivot)
        rep.check(not ev, 'R16.1', 'solve|%s|no-pivot' % name, solve.where(), 'enter()/leave() unreachable when the %s test holds (%d edges pruned)' % (name, len(g.pruned)),
                  'a pivot (%s, line %s) is reachable although the %s test holds: an iteration is performed beyond the limit' % (render(ev[0]) if ev else '', ev[0].l if ev else '', name))
        # every pivot is guarded: removing the guards one by one is covered by reachability; the true arms:
        last = list(atoms)[-1]
        guards = [n for n in solve.nodes if n.k == 'IfStmt' and render(n.kid('cond')).endswith(last + ')') or (n.k == 'IfStmt' and render(n.kid('cond')) == '(%s && %s)' % tuple(atoms))]
        guards = [n for n in solve.nodes if n.k == 'IfStmt' and all(a.strip('()') in render(n.kid('cond')) for a in atoms)]
        rep.check(len(guards) >= 2, 'R16.1', 'solve|%s|guards' % name, solve.where(), '%d guards (one per pivoting loop)' % len(guards), 'only %d %s guards found for %d pivots' % (len(guards), name, len(piv)))
        for k, gd in enumerate(guards):
            th = gd.kid('then')
            txt = [render(x) for x in th.walk() if x.k == 'BinaryOperator' and x.o == '=']
            brk = any(x.k == 'BreakStmt' for x in th.walk())
            rep.check('(m_status = %s)' % status in txt and '(stop = true)' in txt and brk, 'R16.1', 'solve|%s|arm#%d' % (name, k), '%s:%d' % (solve.file, gd.l), 'sets %s, stop and breaks' % status,
                      'the true arm does %s (break=%s), expected m_status = %s; stop = true; break' % (txt, brk, status))
    # terminate() after each pivot inside the loops
    for p in piv:
        g = Graph(solve, None, drop_back_edges=True)
        b = g.block_of(p)
        r = g.reach(b)
        term = any(n.k == 'CXXMemberCallExpr' and n.short == 'terminate' for bb in r for n in [solve.nodes[e] for e in g.blocks[bb].e])
        rep.check(term, 'R16.1', 'solve|terminate-after|%s' % p.short, '%s:%d' % (solve.file, p.l), 'terminate() follows the pivot', 'terminate() is not evaluated after %s()' % p.short)
    # polishing
    pol = fb.one(S + '::performSolutionPolishing')
    ppiv = [n for n in pol.nodes if pivot(n)]
    g = Graph(pol, None)
    lim_blocks = set()
    for b in g.blocks.values():
        if b.cond is not None and render(pol.nodes[b.cond]) in ('(iterations() >= maxIters)', '((maxIters >= 0) && (iterations() >= maxIters))'):
            lim_blocks.add(b.id)
    tim_blocks = set(b.id for b in g.blocks.values() if b.cond is not None and render(pol.nodes[b.cond]) == 'isTimeLimitReached()')
    if len(ppiv) < 4 or not lim_blocks or not tim_blocks:
        rep.unrec('R16.1', 'polishing|shape', pol.where(), 'pivots %d, iteration tests %d, time tests %d' % (len(ppiv), len(lim_blocks), len(tim_blocks)))
    else:
        pb = {}
        for p in ppiv:
            pb.setdefault(g.block_of(p), []).append(p)
        for b0, ps in sorted(pb.items()):
            # (an unsuccessful pivot does not count as an iteration, so only the time test must lie on every path)
            for what, avoid in (('time-limit', tim_blocks),):
                r = g.reach(g.succ[b0], avoid=avoid)
                hit = [b for b in pb if b in r]
                rep.check(not hit, 'R16.1', 'polishing|%s|between-pivots|%s@%d' % (what, ps[0].short, sorted(pb).index(b0)), '%s:%d' % (pol.file, ps[0].l), 'the %s test lies between this pivot and the next' % what,
                          'after the pivot at line %d another pivot (line %d) is reachable without evaluating the %s test' % (ps[0].l, pb[hit[0]][0].l if hit else 0, what))
        ig = [n for n in pol.nodes if n.k == 'IfStmt' and render(n.kid('cond')) == '((maxIters >= 0) && (iterations() >= maxIters))']
        # each pivoting loop tests the iteration limit after a successful pivot
        for k, lp in enumerate([n for n in pol.nodes if n.k in ('ForStmt', 'WhileStmt') and any(pivot(x) for x in (n.kid('body').walk() if n.kid('body') is not None else [])) and
                                not any(y.k in ('ForStmt', 'WhileStmt') and any(pivot(x) for x in y.walk()) for y in list(n.kid('body').walk())[1:])]):
            inside = [x for x in ig if any(y.i == x.i for y in lp.walk())]
            succ_guard = [x for x in inside if any(a.k == 'IfStmt' and render(a.kid('cond')) == 'success' for a in pol.ancestors(x))]
            rep.check(bool(succ_guard), 'R16.1', 'polishing|pivot-loop#%d|iteration-test' % k, '%s:%d' % (pol.file, lp.l), 'iteration limit tested after a successful pivot', 'a pivoting loop of the polishing never tests the iteration limit after a successful pivot')
        guards = [n for n in pol.nodes if n.k == 'IfStmt' and render(n.kid('cond')) in ('((maxIters >= 0) && (iterations() >= maxIters))', 'isTimeLimitReached()')]
        for k, gd in enumerate(guards):
            txt = [render(x) for x in gd.kid('then').walk() if x.k == 'BinaryOperator' and x.o == '=']
            rep.check('(stop = true)' in txt, 'R16.1', 'polishing|arm#%d' % k, '%s:%d' % (pol.file, gd.l), 'sets stop', 'the true arm of the limit test does not set the stop flag (%s)' % txt)
        loops = [n for n in pol.nodes if n.k in ('ForStmt', 'WhileStmt') and any(pivot(x) for x in n.walk())]
        for k, lp in enumerate(loops):
            c = render(lp.kid('cond')) if lp.kid('cond') is not None else ''
            rep.check('!stop' in c, 'R16.1', 'polishing|loop#%d|tests-stop' % k, '%s:%d' % (pol.file, lp.l), 'loop condition tests !stop', 'a pivoting loop does not test the stop flag: %s' % c)

    status_mapping(fb, rep)
    exact(fb, rep)
    budgets(fb, rep)
    plumbing(fb, rep)
    limit_setters(fb, rep)


def status_mapping(fb, rep):
    rep.rule('R16.2', 'abort statuses are never rewritten to a definite verdict; abort arms store the solution', floor=8)
    f = fb.one(C + '::_evaluateSolutionReal')
    enum = fb.enums.get('soplex::SPxSolverBase<double>::Status')
    if enum is None:
        raise AnalysisBroken('enum SPxSolverBase::Status not found')
    val = dict(enum['items'])
    sw = [n for n in f.nodes if n.k == 'SwitchStmt' and render(n.kid('cond')) == '_status']
    if len(sw) != 1:
        rep.unrec('R16.2', '_evaluateSolutionReal|switch', f.where(), 'switch(_status) not found')
        return
    cases = {}
    for c in sw[0].walk():
        if c.k == 'CaseStmt':
            cases[c.v] = c
    for st in ('ABORT_TIME', 'ABORT_ITER', 'ABORT_VALUE'):
        c = cases.get(val[st])
        if c is None:
            rep.bad('R16.2', '_evaluateSolutionReal|%s|arm' % st, f.where(), 'no arm for %s' % st)
            continue
        arm = case_arm_nodes(f, c)
        # follow fallthrough labels: case A: case B: ... the statements after the last label
        asg = [render(x) for x in arm if x.k == 'BinaryOperator' and x.o == '=' and render(x.kids[0]) == '_status']
        store = any(M.is_this_call(x, '_storeSolutionReal') for x in arm)
        nobasis = any(x.k == 'BinaryOperator' and x.o == '=' and render(x) == '(_hasBasis = false)' for x in arm)
        rep.check(not asg, 'R16.2', '_evaluateSolutionReal|%s|not-rewritten' % st, '%s:%d' % (f.file, c.l), 'status kept', '%s is rewritten: %s' % (st, asg))
        rep.check(store and not nobasis, 'R16.2', '_evaluateSolutionReal|%s|stores-solution' % st, '%s:%d' % (f.file, c.l), 'solution and basis stored', 'the abort arm does not store the solution / drops the basis')
    # the status comes from the solver only in the OKAY arm
    inside_sw = set(y.i for y in sw[0].walk())
    asg = [x for x in f.nodes if x.k == 'BinaryOperator' and x.o == '=' and render(x.kids[0]) == '_status' and x.i not in inside_sw]
    srcs = sorted(set(render(x.kids[1]) for x in asg))
    rep.check(set(srcs) <= {'_solver.status()', 'OPTIMAL', 'INFEASIBLE', 'UNBOUNDED', 'INForUNBD'} and '_solver.status()' in srcs, 'R16.2', '_evaluateSolutionReal|status-source', f.where(), 'status sources %s' % srcs, 'unexpected status sources %s' % srcs)
    # in SPxSolverBase::solve an abort status is final: after the main loop m_status ABORT_* is not overwritten
    solve = fb.one(S + '::solve')
    finals = [x for x in solve.nodes if x.k == 'BinaryOperator' and x.o == '=' and render(x.kids[0]) == 'm_status' and render(x.kids[1]) in ('OPTIMAL', 'INFEASIBLE', 'UNBOUNDED')]
    for k, x in enumerate(finals):
        # must be control dependent on a condition that excludes an abort: inside if(... priced ...) / status() tests, never directly under a limit guard
        under_limit = any(a.k == 'IfStmt' and ('maxIters' in render(a.kid('cond')) or 'interrupt' in render(a.kid('cond'))) and any(y.i == x.i for y in a.kid('then').walk()) for a in solve.ancestors(x))
        rep.check(not under_limit, 'R16.2', 'solve|definite-status#%d|not-under-limit-guard' % k, '%s:%d' % (solve.file, x.l), render(x), 'a definite status is assigned inside the true arm of a limit test: %s' % render(x))


def exact(fb, rep):
    rep.rule('R16.3', 'exact solver: stoppedTime -> ABORT_TIME, stoppedIter -> ABORT_ITER; _isSolveStopped uses >= against the limits; refinement loops test it', floor=14)
    f = fb.one(C + '::_optimizeRational')
    for flag, st in (('stoppedTime', 'ABORT_TIME'), ('stoppedIter', 'ABORT_ITER')):
        ifs = [n for n in f.nodes if n.k == 'IfStmt' and render(n.kid('cond')) == flag]
        if len(ifs) < 3:
            rep.unrec('R16.3', '_optimizeRational|%s|tests' % flag, f.where(), 'only %d tests of %s found' % (len(ifs), flag))
            continue
        for k, n in enumerate(ifs):
            asg = [render(x.kids[1]) for x in n.kid('then').walk() if x.k == 'BinaryOperator' and x.o == '=' and render(x.kids[0]) == '_status']
            rep.check(asg == [st], 'R16.3', '_optimizeRational|%s|arm#%d' % (flag, k), '%s:%d' % (f.file, n.l), '_status = %s' % st, 'when %s is set the status becomes %s, expected %s' % (flag, asg, st))
    g = fb.one(C + '::_isSolveStopped')
    txt = {}
    for n in g.nodes:
        if n.k == 'BinaryOperator' and n.o == '=' and render(n.kids[0]) in ('stoppedTime', 'stoppedIter'):
            txt[render(n.kids[0])] = render(n.kids[1])
    t = txt.get('stoppedTime', '')
    rep.check('(_statistics->solvingTime->time() >= realParam(TIMELIMIT))' in t and '(realParam(TIMELIMIT) < realParam(INFTY))' in t, 'R16.3', '_isSolveStopped|time', g.where(), t[:120],
              'stoppedTime is computed as %s: expected "time limit finite and used time >= limit"' % t)
    t = txt.get('stoppedIter', '')
    rep.check('(_statistics->iterations >= intParam(ITERLIMIT))' in t and '(intParam(ITERLIMIT) >= 0)' in t and '(_statistics->refinements >= intParam(REFLIMIT))' in t, 'R16.3', '_isSolveStopped|iterations', g.where(), t[:160],
              'stoppedIter is computed as %s: expected "limit set and used >= limit" for iterations and refinements' % t)
    rets = [n for n in g.nodes if n.k == 'ReturnStmt']
    rep.check(len(rets) == 1 and render(rets[0]) == 'return (stoppedTime || stoppedIter)', 'R16.3', '_isSolveStopped|result', g.where(), 'returns stoppedTime || stoppedIter', 'returns %s' % [render(r) for r in rets])
    # refinement loops
    for nm in ('_optimizeRational', '_performOptIRStable', '_performOptIRStableBoosted'):
        fs = fb.find(C + '::' + nm)
        if not fs:
            continue
        f = fs[0]
        loops = [n for n in f.nodes if n.k in ('DoStmt', 'WhileStmt') and n.parent is not None and not any(a.k in ('DoStmt', 'WhileStmt', 'ForStmt') for a in f.ancestors(n))]
        for k, lp in enumerate(loops):
            inside = any(M.is_this_call(x, '_isSolveStopped') or M.is_this_call(x, '_isRefinementOver') or (x.k == 'CXXMemberCallExpr' and x.short in ('_performOptIRStable', '_performOptIRWrapper', '_performOptIRStableBoosted')) for x in lp.walk())
            rep.check(inside, 'R16.3', '%s|loop#%d|tests-limits' % (nm, k), '%s:%d' % (f.file, lp.l), 'loop evaluates the stop test', 'an outer solving loop never evaluates _isSolveStopped / _isRefinementOver')


def budgets(fb, rep):
    rep.rule('R16.4', 'every iteration/time budget handed to a solver is limit minus amount used, or the unlimited constant', floor=8)
    n_sites = 0
    for f in fb.methods_of(C):
        for n in f.nodes:
            if n.k == 'CXXMemberCallExpr' and n.short in ('setTerminationIter', 'setTerminationTime'):
                n_sites += 1
                a = render(n.args()[0])
                key = '%s|%s.%s|%s' % (f.short, M.obj_text(n), n.short, 'unlimited' if ('-1' in a and 'ITERLIMIT' not in a) or 'INFTY' in a else 'limited')
                wh = '%s:%d' % (f.file, n.l)
                if n.short == 'setTerminationIter':
                    good = a in ('-1',) or ('intParam(ITERLIMIT)' in a and '- _statistics->iterations' in a)
                    rep.check(good, 'R16.4', key, wh, a, 'iteration budget is %s: expected intParam(ITERLIMIT) - _statistics->iterations (iterations of earlier runs of the same solve count against the limit) or -1' % a)
                else:
                    good = 'realParam(INFTY)' in a and 'TIMELIMIT' not in a or ('realParam(TIMELIMIT)' in a and '- ' in a and 'solvingTime->time()' in a)
                    rep.check(good, 'R16.4', key, wh, a, 'time budget is %s: expected realParam(TIMELIMIT) - _statistics->solvingTime->time() or infinity' % a)
                # the limited / unlimited choice tests the parameter itself
                conds = [render(x.kid('cond')) for x in f.ancestors(n) if x.k == 'IfStmt']
                if conds:
                    par = 'ITERLIMIT' if n.short == 'setTerminationIter' else 'TIMELIMIT'
                    rep.check(par in conds[0], 'R16.4', key + '|guard', wh, conds[0][:80], 'the choice between limited and unlimited budget tests %s' % conds[0][:100])
    if n_sites < 8:
        raise AnalysisBroken('only %d budget call sites found' % n_sites)


def plumbing(fb, rep):
    rep.rule('R16.5', 'the interrupt pointer is forwarded by every caller that has one to every callee that takes one', floor=5)
    def ipar(f):
        for k, (n, t) in enumerate(f.params):
            if t.replace(' ', '') in ('volatilebool*',):
                return k, n
        return None
    takers = {f.u: ipar(f) for f in fb.funcs.values() if ipar(f) is not None and f.name.startswith('soplex::')}
    if len(takers) < 5:
        raise AnalysisBroken('only %d functions take an interrupt pointer' % len(takers))
    # functions reachable from the public optimize(interrupt)
    entry = [f for f in fb.methods_of('soplex::SoPlexBase<double>') if f.short == 'optimize' and ipar(f) is not None]
    if len(entry) != 1:
        raise AnalysisBroken('SoPlexBase::optimize(volatile bool*) not found')
    reach_opt = set()
    work = [entry[0]]
    while work:
        g = work.pop()
        if g.u in reach_opt:
            continue
        reach_opt.add(g.u)
        for c in g.calls():
            h = fb.funcs.get(c.u)
            if h is not None and h.cls == 'soplex::SoPlexBase<double>':
                work.append(h)
    reach_unused = {}
    for g0 in fb.methods_of('soplex::SoPlexBase<double>'):
        ip = ipar(g0)
        if ip is None or not g0.nodes or g0.u not in reach_opt:
            continue
        if any(n.k == 'DeclRefExpr' and n.dk == 'parm' and n.n == ip[1] for n in g0.nodes):
            continue
        work = [g0]
        seen = set()
        while work:
            g = work.pop()
            if g.u in seen:
                continue
            seen.add(g.u)
            reach_unused.setdefault(g.u, g0.short)
            for c in g.calls():
                h = fb.funcs.get(c.u)
                if h is not None and h.cls == 'soplex::SoPlexBase<double>' and ipar(h) is None:
                    work.append(h)
    for f in fb.funcs.values():
        if not f.name.startswith('soplex::') or 'mpfr' in f.name:
            continue
        mine = ipar(f)
        for c in f.calls():
            if c.u in takers:
                k, pname = takers[c.u]
                args = c.args() if c.k != 'CXXConstructExpr' else c.kids
                a = args[k] if k < len(args) else None
                at = render(a) if a is not None and a.k != 'CXXDefaultArgExpr' else 'default(nullptr)'
                key = '%s|%s' % (f.name.replace('soplex::', '').replace('SoPlexBase<double>::', '').replace('SPxSolverBase<double>::', 'SPxSolver::'), c.short)
                wh = '%s:%d' % (f.file, c.l)
                if mine is not None:
                    rep.check(at == mine[1], 'R16.5', key, wh, 'forwards ' + at, '%s is called with %s although the caller has the interrupt pointer `%s`: a raised flag is ignored in this solve' % (c.short, at, mine[1]))
                elif f.u in reach_unused:
                    rep.check(at not in ('default(nullptr)', 'nullptr', '0'), 'R16.5', key + '|dropped', wh, 'passes ' + at,
                              '%s is reached from %s, which takes the interrupt pointer and never forwards it, and starts %s(%s): a flag raised before or during this solve is never seen' % (key.split('|')[0], reach_unused[f.u], c.short, at))
                else:
                    rep.not_decided.append('R16.5: %s calls %s(%s) and has no interrupt parameter to forward' % (key.split('|')[0], c.short, at))
        if mine is not None and f.nodes and f.cls == 'soplex::SoPlexBase<double>':
            used = any(n.k == 'DeclRefExpr' and n.dk == 'parm' and n.n == mine[1] for n in f.nodes)
            rep.check(used, 'R16.5', '%s|uses-its-interrupt-parameter' % f.short, f.where(), 'the interrupt parameter is read or forwarded',
                      '%s takes the interrupt pointer `%s` and never reads or forwards it: every solve started below it ignores a raised flag' % (f.short, mine[1]))
    rep.not_decided[:] = sorted(set(rep.not_decided))


def limit_setters(fb, rep):
    """R16.6: a limit of zero is a limit (no iteration / no time), only a negative argument stands for something else.  The solver's limit setters
    normalise their argument under a guard; that guard is `argument < 0` - `<= 0` would turn the limit 0 into "no limit" (-1)."""
    rep.rule('R16.6', 'the solver\'s limit setters normalise only negative arguments (guard `arg < 0`), so that a limit of 0 stays a limit', floor=2)
    k = 0
    for nm in ('setTerminationIter', 'setTerminationTime'):
        for f in fb.find('soplex::SPxSolverBase<double>::' + nm):
            if not f.params:
                continue
            p = f.params[0][0]
            for n in f.nodes:
                if n.k != 'IfStmt' or n.kid('then') is None:
                    continue
                asg = [x for x in n.kid('then').walk() if x.k == 'BinaryOperator' and x.o == '=' and render(strip(x.kids[0])) == p]
                if not asg:
                    continue
                k += 1
                c = render(strip(n.kid('cond')))
                ok = re.fullmatch(r'\(?%s < \(?0(\.0*)?\)?\)?' % re.escape(p), c) is not None
                rep.check(ok, 'R16.6', '%s|normalising-guard' % nm, '%s:%d' % (f.file, n.l), 'guard is %s' % c,
                          '%s replaces its argument by %s under the guard `%s`: a limit of 0 is no longer a limit of 0' % (nm, render(strip(asg[0].kids[1])), c))
    if k < 2:
        raise AnalysisBroken('R16.6: the normalising guards of setTerminationIter / setTerminationTime were not found')
