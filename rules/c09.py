"""C09 — scaling is invisible: exponent algebra, power-of-two only, access discipline."""
import re
from engine import render, strip, Graph, Assume, must, reachable_events
from facts import AnalysisBroken, CALL_KINDS
import modifiers as M

EXPLANATION = (
    "Decides structural necessary conditions of C09: R09.1 exponent algebra - every spxLdexp call in SPxScaler and SPxLPBase applies the "
    "exponent that its quantity and direction demand: with weights (row, col) = element (+1,+1), lhs/rhs/slack (+1,0), dual/Farkas (-1,0), "
    "objective/reduced cost (0,+1), lower/upper/primal/ray (0,-1), a scaling function applies +w.(r_i, c_j) and an unscaling function "
    "-w.(r_i, c_j); the exponent expression is reduced to a linear form over the row / column exponent arrays (locals resolved to the "
    "nearest preceding definition) and every subscript of an exponent array is in that array's index domain (row index vs column index vs "
    "position inside a sparse vector); R09.2 power of two only - inside the scaler classes and the scaling paths of SPxLPBase LP numbers are "
    "written only as spxLdexp(old, int) and the exponent arrays only from integer expressions (no floating multiply/divide touches LP data); "
    "R09.3 the user-level accessors of the real LP reach scaled storage only through an *Unscaled method of SPxLPBase or the ...Internal "
    "accessors documented as scaled, never through the _scaler pointer (which is null after the scaler parameter is switched off); R09.4 "
    "writeFile(unscale=true) on a scaled LP writes an unscaled copy; R09.7 doAddRow(s)/doAddCol(s) read the other dimension's exponents only after creating missing columns / rows; R09.8 the mirrored copy of a new entry is taken after the entry was scaled; R09.5 per-row / per-column arrays of LPRowSetBase / LPColSetBase, the "
    "scale exponents among them, move together in every permutation / removal / resize, and the single-index setters of a scaled LP compare "
    "the new value with the unscaled stored value before skipping an unchanged update. NOT decided: that the scalers choose good exponents, "
    "overflow of ldexp.")

C = M.CLS
SC = 'soplex::SPxScaler<double>'
LP = 'soplex::SPxLPBase<double>'

# (row weight, col weight) of a quantity in the scaled LP: scaled = original * 2^(w . (r, c))
W = {'element': (1, 1), 'side': (1, 0), 'bound': (0, -1), 'obj': (0, 1), 'primal': (0, -1), 'slack': (1, 0), 'dual': (-1, 0), 'redcost': (0, 1)}


def quantity_of(fn, value_txt):
    t = value_txt.lower()
    nm = fn.short
    if nm in ('unscalePrimal', 'unscalePrimalray'):
        return 'primal'
    if nm == 'unscaleSlacks':
        return 'slack'
    if nm in ('unscaleDual', 'unscaleDualray'):
        return 'dual'
    if nm == 'unscaleRedCost':
        return 'redcost'
    if 'maxrowobj' in t:
        return 'rowobj'
    if re.search(r'\b(rhs|lhs)(_w)?\b|\.rhs\(|\.lhs\(|^rhs|^lhs', t):
        return 'side'
    if re.search(r'upper|lower', t):
        return 'bound'
    if re.search(r'maxobj|origobj|\bobj', t):
        return 'obj'
    if re.search(r'\.value\(|^val$|colvector\(|rowvector\(|newval', t):
        return 'element'
    return None


def direction_of(fn):
    nm = fn.short
    if nm in ('applyScaling', 'scaleObj', 'scaleElement', 'scaleLower', 'scaleUpper', 'scaleLhs', 'scaleRhs', 'changeRow', 'changeCol') or nm.startswith('doAdd'):
        return +1
    if nm == 'unscale' or nm.endswith('Unscaled') or nm.startswith('unscale'):
        return -1
    return None


def array_kind(node):
    """'row' / 'col' for a subscript expression of an exponent array, by the resolved declaration it reads"""
    for x in node.walk():
        if x.k == 'MemberExpr' and x.dk == 'field' and x.short == 'scaleExp':
            return 'row' if 'LPRowSetBase' in x.n else 'col' if 'LPColSetBase' in x.n else None
        if x.k == 'DeclRefExpr' and x.n in ('rowscaleExp', 'colscaleExp'):
            return 'row' if x.n.startswith('row') else 'col'
        if x.k == 'DeclRefExpr' and x.n in ('newRowScaleExp',):
            return 'row'
        if x.k == 'DeclRefExpr' and x.n in ('newColScaleExp',):
            return 'col'
    return None


def definition_before(fn, name, node):
    """the nearest definition (VarDecl init or assignment) of local `name` that precedes node in source order"""
    best = None
    for n in fn.nodes:
        if n.l > node.l or (n.l == node.l and n.i > node.i):
            continue
        if n.k == 'VarDecl' and n.n == name and n.c:
            if best is None or (n.l, n.i) > (best[0].l, best[0].i):
                best = (n, n.kids[0])
        if n.k == 'BinaryOperator' and n.o == '=' and render(n.kids[0]) == name:
            if best is None or (n.l, n.i) > (best[0].l, best[0].i):
                best = (n, n.kids[1])
    return best[1] if best else None


def linear_form(fn, e, at, depth=0):
    """{'row': k, 'col': k} or None; terms carry the subscript node for the index-domain check"""
    e = strip(e)
    if e is None or depth > 6:
        return None
    if e.k == 'UnaryOperator' and e.o == '-':
        f = linear_form(fn, e.kids[0], at, depth + 1)
        return None if f is None else {'row': -f['row'], 'col': -f['col'], 'subs': f['subs']}
    if e.k == 'BinaryOperator' and e.o in ('+', '-'):
        a, b = linear_form(fn, e.kids[0], at, depth + 1), linear_form(fn, e.kids[1], at, depth + 1)
        if a is None or b is None:
            return None
        s = 1 if e.o == '+' else -1
        return {'row': a['row'] + s * b['row'], 'col': a['col'] + s * b['col'], 'subs': a['subs'] + b['subs']}
    if e.k in ('ArraySubscriptExpr', 'CXXOperatorCallExpr') and (e.k == 'ArraySubscriptExpr' or e.o == '[]'):
        base = e.kids[0] if e.k == 'ArraySubscriptExpr' else e.args()[0]
        idx = e.kids[1] if e.k == 'ArraySubscriptExpr' else e.args()[1]
        k = array_kind(base)
        if k is None:
            return None
        return {'row': 1 if k == 'row' else 0, 'col': 1 if k == 'col' else 0, 'subs': [(k, idx)]}
    if e.k == 'DeclRefExpr' and e.dk == 'local':
        if e.n == 'newRowScaleExp':
            return {'row': 1, 'col': 0, 'subs': []}
        if e.n == 'newColScaleExp':
            return {'row': 0, 'col': 1, 'subs': []}
        d = definition_before(fn, e.n, at)
        if d is None:
            return None
        return linear_form(fn, d, d, depth + 1)
    if e.k == 'IntegerLiteral' and e.v == 0:
        return {'row': 0, 'col': 0, 'subs': []}
    return None


def index_kinds(fn):
    """kind of int locals/params: 'row', 'col', 'pos' (position in a sparse vector)"""
    kinds = {}
    vec_kind = {}      # local vector alias -> 'rowvec' / 'colvec'
    for n in fn.nodes:
        if n.k == 'VarDecl' and n.c:
            t = render(n.kids[0])
            if re.search(r'rowVector(_w)?\(', t):
                vec_kind[n.n] = 'rowvec'
            elif re.search(r'colVector(_w)?\(', t):
                vec_kind[n.n] = 'colvec'
    for pn, pt in fn.params:
        if pt == 'int':
            if pn in ('row',):
                kinds[pn] = 'row'
            elif pn in ('col',):
                kinds[pn] = 'col'
    for n in fn.nodes:
        if n.k == 'ForStmt':
            init, cond = n.kid('init'), n.kid('cond')
            it = render(init) if init is not None else ''
            ct = render(cond) if cond is not None else ''
            vs = [v.n for v in (init.walk() if init is not None else []) if v.k == 'VarDecl']
            if init is not None and not vs:
                m = re.match(r'^\((\w+) = ', it)
                if m:
                    vs = [m.group(1)]
            for v in vs:
                both = it + ' ' + ct
                if re.search(r'nRows\(\)|numRows\(\)|rowSet\(\)|\.num\(\)', both) and 'nRows' in both:
                    kinds[v] = 'row'
                elif 'nCols()' in both:
                    kinds[v] = 'col'
                elif re.search(r'\.size\(\)', both):
                    kinds[v] = 'pos'
                elif re.search(r'\b(rowscaleExp|colscaleExp)\.size\(\)', both):
                    pass
    # locals defined from vec.index(pos)
    for n in fn.nodes:
        if (n.k == 'VarDecl' and n.c) or (n.k == 'BinaryOperator' and n.o == '='):
            name = n.n if n.k == 'VarDecl' else render(n.kids[0])
            rhs = n.kids[0] if n.k == 'VarDecl' else n.kids[1]
            s = strip(rhs)
            if s.k == 'CXXMemberCallExpr' and s.short == 'index' and s.obj() is not None:
                o = render(s.obj())
                vk = vec_kind.get(o)
                if vk is None and re.search(r'rowVector(_w)?\(', o):
                    vk = 'rowvec'
                if vk is None and re.search(r'colVector(_w)?\(', o):
                    vk = 'colvec'
                if vk:
                    kinds[name] = 'col' if vk == 'rowvec' else 'row'
            if re.match(r'^\(nRows\(\) - 1\)$', render(s)):
                kinds[name] = 'row'
            if re.match(r'^\(nCols\(\) - 1\)$', render(s)):
                kinds[name] = 'col'
    return kinds, vec_kind


def loop_kind_of(fn, var, at):
    """kind of loop variable `var` from the innermost enclosing for-loop (of node `at`) that initialises it"""
    for a in fn.ancestors(at):
        if a.k != 'ForStmt':
            continue
        init, cond = a.kid('init'), a.kid('cond')
        it = render(init) if init is not None else ''
        ct = render(cond) if cond is not None else ''
        defines = any(v.k == 'VarDecl' and v.n == var for v in (init.walk() if init is not None else [])) or re.match(r'^\(%s = ' % re.escape(var), it)
        if not defines:
            continue
        both = it + ' ' + ct
        if 'nRows()' in both or 'numRows()' in both:
            return 'row'
        if 'nCols()' in both or 'numCols()' in both:
            return 'col'
        if re.search(r'\.size\(\)', both):
            return 'pos'
        return None
    return None


def subscript_kind(fn, idx, kinds, vec_kind, depth=0):
    s = strip(idx)
    if s.k == 'DeclRefExpr':
        lk = loop_kind_of(fn, s.n, s)
        if lk is not None:
            return lk
        if s.dk == 'local' and depth < 3:
            d = definition_before(fn, s.n, s)
            if d is not None and strip(d).k != 'IntegerLiteral':
                dk = subscript_kind(fn, d, kinds, vec_kind, depth + 1)
                if dk is not None:
                    return dk
                t = render(strip(d))
                if t == '(nRows() - 1)':
                    return 'row'
                if t == '(nCols() - 1)':
                    return 'col'
        return kinds.get(s.n) if s.dk == 'parm' else None
    if s.k == 'CXXMemberCallExpr' and s.short == 'index' and s.obj() is not None:
        ob = strip(s.obj())
        o = render(ob)
        vk = None
        if ob.k == 'DeclRefExpr' and ob.dk == 'local':
            d = definition_before(fn, ob.n, s)
            if d is not None:
                o = render(d)
        if re.search(r'rowVector(_w)?\(', o):
            vk = 'rowvec'
        elif re.search(r'colVector(_w)?\(', o):
            vk = 'colvec'
        elif ob.k == 'DeclRefExpr' and ob.dk == 'parm':
            vk = vec_kind.get(ob.n)
        if vk:
            return 'col' if vk == 'rowvec' else 'row'
    return None


def run(fb, rep, tier):
    try:
        _run(fb, rep, tier)
    finally:
        pass
    grow_before_index(fb, rep)
    scale_then_mirror(fb, rep)


def _run(fb, rep, tier):
    rep.extra['explanation'] = EXPLANATION
    rep.extra['assumptions'] = ['maxRowObj is excluded from the exponent table: it is scaled with +r_i although a cost on a slack would call for -r_i; it is always 0 in user LPs',
                                'the orientation of vector aliases (row vector vs column vector) is taken from their defining accessor call']
    rep.rule('R09.1', 'exponent algebra: every spxLdexp applies dir * w(quantity) . (row exp, col exp); exponent-array subscripts are in the array\'s index domain', floor=60)
    sites = 0
    for cls in (SC, LP):
        for fn in sorted(fb.methods_of(cls), key=lambda f: (f.file, f.line)):
            lds = [n for n in fn.nodes if n.k == 'CallExpr' and n.short == 'spxLdexp']
            if not lds:
                continue
            d = direction_of(fn)
            kinds, vec_kind = index_kinds(fn)
            ordn = {}
            for n in lds:
                a = n.args()
                vt = render(a[0])
                q = quantity_of(fn, vt)
                base = '%s::%s(%s)' % (cls.split('::')[1].split('<')[0], fn.short, ','.join(M.short_t(t) for _, t in fn.params))
                ordn[(base, q)] = ordn.get((base, q), 0) + 1
                key = '%s|%s#%d' % (base, q, ordn[(base, q)])
                wh = '%s:%d' % (fn.file, n.l)
                if fn.short in ('minAbsColscale', 'maxAbsColscale', 'minAbsRowscale', 'maxAbsRowscale'):
                    continue      # report the scale factors themselves: 2^exp, no LP quantity involved
                if fn.short == 'computeScaleExp':
                    # half-scaled element: only the other dimension's exponent is applied, sign +
                    lf = linear_form(fn, a[1], n)
                    rep.check(render(a[1]) == 'oldScaleExp[vec.index(i)]', 'R09.1', key, wh, 'half-scaled element uses the other dimension\'s exponent at the entry\'s index',
                              'computeScaleExp scales an entry with %s, expected oldScaleExp[vec.index(i)]' % render(a[1]))
                    sites += 1
                    continue
                if q == 'rowobj':
                    continue
                if d is None or q is None:
                    rep.unrec('R09.1', key, wh, 'cannot classify spxLdexp(%s, %s) in %s (direction %s, quantity %s)' % (vt[:40], render(a[1])[:50], fn.short, d, q))
                    continue
                lf = linear_form(fn, a[1], n)
                if lf is None:
                    rep.unrec('R09.1', key, wh, 'exponent %s is not a linear form over the exponent arrays' % render(a[1])[:80])
                    continue
                sites += 1
                w = W[q]
                want = (d * w[0], d * w[1])
                got = (lf['row'], lf['col'])
                if got != want:
                    rep.bad('R09.1', key, wh, '%s of a %s applies exponent %s = %+d*row %+d*col, expected %+d*row %+d*col: the value is off by a power of two whenever the exponents are non-zero' % (
                        'scaling' if d > 0 else 'unscaling', q, render(a[1])[:60], got[0], got[1], want[0], want[1]))
                    continue
                # index domains
                bad = None
                unk = None
                for k, idx in lf['subs']:
                    sk = subscript_kind(fn, idx, kinds, vec_kind)
                    it = render(idx)
                    if sk is None:
                        # a plain index parameter of a per-row / per-column accessor: i in lhsUnscaled(lp, i)
                        if strip(idx).k == 'DeclRefExpr' and strip(idx).dk == 'parm':
                            continue
                        # dense quantities: the value and its exponent are addressed by the same index
                        if q != 'element' and re.search(r'[\[(]%s[\])]' % re.escape(it), vt):
                            continue
                        unk = (k, it)
                    elif sk != k:
                        bad = (k, it, sk)
                if bad:
                    rep.bad('R09.1', key, wh, 'the %s exponent array is subscripted with %s, which is a %s: the exponent of another %s is applied' % (
                        'row' if bad[0] == 'row' else 'column', bad[1], {'pos': 'position inside the sparse vector', 'row': 'row index', 'col': 'column index'}[bad[2]], 'row' if bad[0] == 'row' else 'column'))
                elif unk:
                    rep.unrec('R09.1', key, wh, 'index domain of %s (subscript of the %s exponents) unknown' % (unk[1], unk[0]))
                else:
                    rep.ok('R09.1', key, wh, 'spxLdexp(%s, %s): %+d*row %+d*col as required for %s' % (vt[:30], render(a[1])[:40], got[0], got[1], q))
    rep.extra['ldexp_sites_classified'] = sites
    if sites < 60:
        raise AnalysisBroken('only %d classified spxLdexp sites (>= 60 confirmed)' % sites)

    power_of_two(fb, rep)
    accessors(fb, rep)
    writers(fb, rep)
    parallel_arrays(fb, rep)
    unchanged_guards(fb, rep)


# ---------------------------------------------------------------------------------------------------
LPDATA = ('lhs_w', 'rhs_w', 'lower_w', 'upper_w', 'maxObj_w', 'maxRowObj_w')


def power_of_two(fb, rep):
    rep.rule('R09.2', 'scalers write LP numbers only as spxLdexp(old, int); exponent arrays are written only from integer expressions', floor=20)
    n_w = 0
    for cls in (SC, 'soplex::SPxEquiliSC<double>', 'soplex::SPxGeometSC<double>', 'soplex::SPxLeastSqSC<double>'):
        for fn in fb.methods_of(cls):
            for n in fn.nodes:
                if not ((n.k in ('BinaryOperator', 'CompoundAssignOperator') and (n.o == '=' or n.o in ('*=', '/=', '+=', '-='))) or (n.k == 'CXXOperatorCallExpr' and n.o in ('=', '*=', '/='))):
                    continue
                l = strip(n.kids[0] if n.k != 'CXXOperatorCallExpr' else n.args()[0])
                r = n.kids[1] if n.k != 'CXXOperatorCallExpr' else n.args()[1]
                lt = render(l)
                is_lp = any(x.k == 'CXXMemberCallExpr' and x.short in LPDATA for x in l.walk()) or \
                    (re.search(r'\.value\(', lt) and any(x.k == 'CXXMemberCallExpr' and x.short in ('rowVector_w', 'colVector_w') for x in fn.nodes) and re.match(r'^vec\.value', lt))
                is_exp = any(x.k == 'DeclRefExpr' and x.n in ('rowscaleExp', 'colscaleExp') for x in l.walk()) or 'scaleExp[' in lt
                key = '%s::%s|%s' % (cls.split('::')[1].split('<')[0], fn.short, lt[:40])
                wh = '%s:%d' % (fn.file, n.l)
                if is_lp:
                    n_w += 1
                    rs = strip(r)
                    good = n.o == '=' and rs.k == 'CallExpr' and rs.short == 'spxLdexp' and strip(rs.args()[1]).t in ('int',)
                    rep.check(good, 'R09.2', key, wh, '%s = spxLdexp(..., int)' % lt[:30], 'LP data %s is written as `%s %s %s`, not as spxLdexp(old, int): scaling is no longer an exact power of two' % (lt[:40], lt[:30], n.o, render(r)[:60]))
                elif is_exp and not fn.in_assert(n):
                    n_w += 1
                    good = strip(r).t in ('int', 'const int') or r.t in ('int',)
                    rep.check(good, 'R09.2', key, wh, 'exponent from an integer expression', 'scale exponent %s is assigned from the non-integer expression %s' % (lt[:30], render(r)[:60]))
    if n_w < 15:
        raise AnalysisBroken('only %d writes to LP data / exponent arrays found in the scaler classes' % n_w)


def accessors(fb, rep):
    rep.rule('R09.3', 'user-level accessors of the real LP never go through the _scaler pointer; they use the LP\'s own *Unscaled methods', floor=15)
    names = ('coefReal', 'getRowVectorReal', 'getColVectorReal', 'rhsReal', 'getRhsReal', 'lhsReal', 'getLhsReal', 'upperReal', 'getUpperReal', 'lowerReal', 'getLowerReal',
             'objReal', 'getObjReal', 'maxObjReal', 'getRowReal', 'getColReal', 'getRowsReal', 'getColsReal', 'minAbsNonzeroReal', 'maxAbsNonzeroReal')
    for nm in names:
        for f in fb.find(C + '::' + nm):
            uses = [n for n in f.nodes if n.k == 'MemberExpr' and n.dk == 'field' and n.short == '_scaler' and not f.in_assert(n)]
            key = '%s(%s)' % (nm, ','.join(M.short_t(t) for _, t in f.params))
            if uses:
                # accepted only when dominated by a non-null test of _scaler
                guarded = all(any(a.k == 'IfStmt' and re.search(r'_scaler( != nullptr)?\b', render(a.kid('cond'))) and '_scaler->' not in render(a.kid('cond')) for a in f.ancestors(u)) for u in uses)
                rep.check(guarded, 'R09.3', key, f.where(), '_scaler tested before use', 'dereferences _scaler guarded only by _realLP->isScaled(): _scaler is null after setIntParam(SCALER, SCALER_OFF) while a persistently scaled LP stays scaled')
            else:
                internal = [n for n in f.nodes if n.k == 'CXXMemberCallExpr' and M.obj_text(n) == '_realLP' and n.short in ('lhs', 'rhs', 'lower', 'upper', 'maxObj', 'obj', 'rowVector', 'colVector', 'getRow', 'getCol', 'getRows', 'getCols')]
                unsc = [n for n in f.nodes if n.k == 'CXXMemberCallExpr' and M.obj_text(n) == '_realLP' and ('Unscaled' in n.short or n.short in ('minAbsNzo', 'maxAbsNzo'))]
                if internal and not unsc:
                    # reading scaled storage directly is only right when the branch is the not-scaled one
                    okb = all(any(a.k == 'IfStmt' and 'isScaled()' in render(a.kid('cond')) for a in f.ancestors(n)) for n in internal)
                    rep.check(okb, 'R09.3', key, f.where(), 'scaled storage read only in the not-scaled branch', 'returns scaled storage (%s) without unscaling' % render(internal[0])[:60])
                else:
                    rep.ok('R09.3', key, f.where(), 'uses %s' % sorted(set(n.short for n in unsc))[:3])


def writers(fb, rep):
    rep.rule('R09.4', 'writeFile(unscale=true) on a scaled LP writes an unscaled copy; the state writer asks for the unscaled LP', floor=3)
    for f in fb.find(C + '::writeFile'):
        A = Assume(atoms={'unscale': True, '_realLP->isScaled()': True})
        ok, p, _ = must(f, A, lambda n: n.k == 'CXXMemberCallExpr' and n.short == 'unscaleLP')
        rep.check(ok, 'R09.4', 'writeFile|unscales-copy', f.where(), 'unscaleLP() on the copy before writing', 'with unscale=true and a scaled LP the file is written without unscaling', path=p)
        cp = [n for n in f.nodes if n.k == 'VarDecl' and 'SPxLPBase<double>' in n.t and not n.x.get('ref') and n.c]
        un = [n for n in f.nodes if n.k == 'CXXMemberCallExpr' and n.short == 'unscaleLP']
        rep.check(bool(un) and all(n.obj() is not None and strip(n.obj()).k == 'DeclRefExpr' and strip(n.obj()).dk == 'local' or '->' in render(n.obj()) and 'origLP' in render(n.obj()) for n in un), 'R09.4', 'writeFile|copy-not-original', f.where(),
                  'the LP that is unscaled is a local copy', 'unscaleLP() is applied to the solver\'s own LP: writing a file would change the stored LP')
        # both branches forward the same arguments to the writer
        wcalls = [n for n in f.nodes if n.k == 'CXXMemberCallExpr' and n.short in ('writeFileLPBase', 'writeFile') and n is not None]
        if len(wcalls) >= 2:
            tails = [tuple(render(a) for a in n.args()) for n in wcalls]
            pn = [p[0] for p in f.params]
            good = all(t == tuple(pn[:len(t)]) or list(t) == [x for x in pn if x != 'unscale'][:len(t)] for t in tails)
            rep.check(good, 'R09.4', 'writeFile|same-arguments', f.where(), 'both branches forward %s' % (tails[0],), 'the scaled and the unscaled branch forward different arguments to the writer: %s' % tails)


# ---------------------------------------------------------------------------------------------------
def parallel_arrays(fb, rep):
    rep.rule('R09.5', 'per-row / per-column arrays (sides, bounds, objective, scale exponents) move together in every permutation, removal and resize', floor=8)
    for cls, fields in (('soplex::LPRowSetBase<double>', ('left', 'right', 'object', 'scaleExp')), ('soplex::LPColSetBase<double>', ('low', 'up', 'object', 'scaleExp'))):
        if cls not in fb.classes:
            raise AnalysisBroken(cls + ' not found')
        have = set(x['n'] for x in fb.classes[cls]['fields'])
        if not set(fields) <= have:
            raise AnalysisBroken('%s: expected fields %s, have %s' % (cls, fields, sorted(have)))
        for f in fb.methods_of(cls):
            if f.mk in ('copyctor', 'copyassign', 'ctor', 'defctor', 'dtor') or f.const:
                continue
            touched = {}
            for n in f.nodes:
                if f.in_assert(n):
                    continue
                # element move  a[x] = a[y]  within this object
                if n.k in ('BinaryOperator', 'CXXOperatorCallExpr') and n.o == '=':
                    lhs = strip(n.kids[0] if n.k == 'BinaryOperator' else n.args()[0])
                    rhs = strip(n.kids[1] if n.k == 'BinaryOperator' else n.args()[1])
                    if lhs.k == 'CXXOperatorCallExpr' and lhs.o == '[]' and rhs.k == 'CXXOperatorCallExpr' and rhs.o == '[]':
                        lb, rb = strip(lhs.args()[0]), strip(rhs.args()[0])
                        own = lambda m: m.k == 'MemberExpr' and m.dk == 'field' and m.short in fields and (m.obj() is None or m.obj().k == 'CXXThisExpr')
                        if own(lb) and own(rb) and lb.u == rb.u:
                            touched.setdefault('move[%s<-%s]' % (render(lhs.args()[1]), render(rhs.args()[1])), set()).add(lb.short)
                if n.k == 'CXXMemberCallExpr' and n.obj() is not None:
                    ob = strip(n.obj())
                    if ob.k == 'MemberExpr' and ob.dk == 'field' and ob.short in fields and (ob.obj() is None or ob.obj().k == 'CXXThisExpr'):
                        grp = {'reDim': 'resize', 'reSize': 'resize', 'reMax': 'remax', 'removeLast': 'removeLast', 'clear': 'clear'}.get(n.short)
                        if grp:
                            a0 = render(n.args()[0]) if n.args() else ''
                            label = '%s(%s)' % (grp, a0)
                            if f.short == 'clear':
                                label = 'reset'      # x.clear() and x.reDim(num()) with num()==0 are the same effect
                            touched.setdefault(label, set()).add(ob.short)
            for kind, fs in sorted(touched.items()):
                key = '%s::%s(%s)|%s' % (cls.split('::')[1].split('<')[0], f.short, ','.join(M.short_t(t) for _, t in f.params), kind)
                miss = [x for x in fields if x not in fs]
                rep.check(not miss, 'R09.5', key, f.where(), 'all of %s' % (fields,), '%s is applied to %s but not to %s: the per-%s arrays get out of step (a row/column keeps another one\'s %s)' % (
                    kind, sorted(fs), miss, 'row' if 'Row' in cls else 'column', 'scale exponent' if 'scaleExp' in miss else 'data'))


def unchanged_guards(fb, rep):
    rep.rule('R09.6', 'single-index setters skip an update only when the new value equals the stored value in the caller\'s space: scale ? xUnscaled(i) : x(i)', floor=4)
    S = 'soplex::SPxSolverBase<double>'
    for nm, q in (('changeLhs', 'lhs'), ('changeRhs', 'rhs'), ('changeLower', 'lower'), ('changeUpper', 'upper')):
        fs = [f for f in fb.find(S + '::' + nm) if len(f.params) == 3 and f.params[0][1] == 'int']
        if len(fs) != 1:
            rep.unrec('R09.6', nm, 'changesoplex.hpp', 'single-index override not found')
            continue
        f = fs[0]
        ifs = [n for n in f.nodes if n.k == 'IfStmt' and render(n.kid('cond')).startswith('(new')]
        if len(ifs) != 1:
            rep.unrec('R09.6', nm + '|guard', f.where(), 'unchanged-value guard not found')
            continue
        c = render(ifs[0].kid('cond'))
        pv = f.params[1][0]
        want = '(%s != (scale ? %sUnscaled(i) : %s(i)))' % (pv, q, q)
        rep.check(c == want, 'R09.6', 'SPxSolverBase::%s(int,..)|guard' % nm, '%s:%d' % (f.file, ifs[0].l), c, 'the guard is %s, expected %s: with persistent scaling an update is skipped (or applied) by comparing values from different spaces' % (c, want))


def grow_before_index(fb, rep):
    """R09.7: doAddRow / doAddCol (and the set versions) grow the *other* dimension on demand when the new vector refers to an index that
    does not exist yet.  Every read of that dimension's scale-exponent array (a subscript, or handing the array to computeScaleExp) must be
    dominated by the growth: otherwise the exponent of a column / row that is about to be created is read beyond the array."""
    rep.rule('R09.7', 'in doAddRow(s) / doAddCol(s) the scale exponents of the other dimension are read only after missing columns / rows have been created', floor=6)
    k = 0
    for f in sorted(fb.funcs.values(), key=lambda g: (g.name, g.sig)):
        if not re.match(r'^soplex::SPxLPBase<double>::doAdd(Row|Col)s?$', f.name) or not f.nodes:
            continue
        other = 'LPColSetBase' if 'Row' in f.short else 'LPRowSetBase'
        # growth: a call <other>::add(empty) with one argument of LPColBase/LPRowBase type inside a loop
        grow = [n for n in f.nodes if n.k == 'CXXMemberCallExpr' and n.short == 'add' and other in (n.n or '') and len(n.args()) == 1
                and re.search(r'LP(Col|Row)Base<', n.args()[0].t or '') and any(a.k in ('ForStmt', 'WhileStmt') for a in f.ancestors(n))]
        # the exponent array of the other dimension: local references bound to <other>::scaleExp
        aliases = set()
        for n in f.nodes:
            if n.k == 'VarDecl' and n.c:
                for x in n.kids[0].walk():
                    if x.k == 'MemberExpr' and x.dk == 'field' and x.short == 'scaleExp' and other in (x.n or ''):
                        aliases.add(n.n)
        reads = []
        for n in f.nodes:
            if n.k == 'DeclRefExpr' and n.n in aliases and not f.in_assert(n):
                p_ = n.parent
                while p_ is not None and p_.k in ('ImplicitCastExpr', 'ParenExpr'):
                    p_ = p_.parent
                if p_ is not None and p_.k != 'VarDecl':
                    reads.append(n)
        if not grow or not reads:
            rep.unrec('R09.7', f.short + '(%d)' % len(f.params), f.where(), 'growth of the other dimension (%d) or reads of its scale exponents (%d) not found' % (len(grow), len(reads)))
            continue
        g = Graph(f, None)
        dom = g.dominators()
        gb = set(g.block_of(x) for x in grow)
        # the loop that contains the growth: its header dominates everything after the loop; accept if some block of a growth loop
        # (the for statement that encloses the add) dominates the read and is not the read's own block, or the growth precedes in-block
        heads = set()
        for x in grow:
            loops = [a for a in f.ancestors(x) if a.k in ('ForStmt', 'WhileStmt')]
            outer = loops[-1]
            hb = g.block_of(outer.kid('cond')) if outer.kid('cond') is not None else None
            if hb is not None:
                heads.add((hb, outer))
        for r in reads:
            k += 1
            rb = g.block_of(r)
            ok = False
            for hb, outer in heads:
                inside = any(x.i == r.i for x in outer.walk())
                if not inside and rb in dom and hb in dom[rb]:
                    ok = True
            rep.check(ok, 'R09.7', '%s(%d)|%s@%d' % (f.short, len(f.params), r.n, r.l), '%s:%d' % (f.file, r.l), 'the growth loop dominates this read',
                      '%s reads %s (the scale exponents of the %s) at line %d before / while the missing %s are created: for an index that does not exist yet the read is beyond the array' % (f.short, r.n, 'columns' if other == 'LPColSetBase' else 'rows', r.l, 'columns' if other == 'LPColSetBase' else 'rows'))
    if k < 6:
        raise AnalysisBroken('R09.7: only %d reads of the other dimension\'s scale exponents found in doAdd*' % k)


def scale_then_mirror(fb, rep):
    """R09.8: doAddRow(s) / doAddCol(s) store every new coefficient twice (row file and column file).  Under persistent scaling the new
    entry is scaled in place (`vec.value(j) = spxLdexp(vec.value(j), ..)`); the copy into the other file has to read the entry AFTER that
    write, otherwise the two files hold different numbers (scaled in one, raw in the other)."""
    rep.rule('R09.8', 'in doAddRow(s) / doAddCol(s) the mirrored copy of a new entry is taken after the entry has been scaled', floor=6)
    k = 0
    for f in sorted(fb.funcs.values(), key=lambda g: (g.name, g.sig)):
        if not re.match(r'^soplex::SPxLPBase<double>::doAdd(Row|Col)s?$', f.name) or not f.nodes:
            continue
        for lp in f.nodes:
            if lp.k != 'ForStmt' or lp.kid('body') is None:
                continue
            body = list(lp.kid('body').walk())
            writes = [x for x in body if x.k in ('BinaryOperator', 'CXXOperatorCallExpr') and x.o == '=' and re.match(r'^\w+\.value\(\w+\)$', render(strip(x.kids[0] if x.k == 'BinaryOperator' else x.args()[0])))
                      and 'spxLdexp' in render(x.kids[1] if x.k == 'BinaryOperator' else x.args()[1])]
            # only the innermost loop that directly contains the write
            writes = [w for w in writes if [a for a in f.ancestors(w) if a.k == 'ForStmt'][0].i == lp.i]
            for w in writes:
                tgt = render(strip(w.kids[0] if w.k == 'BinaryOperator' else w.args()[0]))
                inside_w = set(y.i for y in w.walk())
                reads = [x for x in body if x.k in ('CXXMemberCallExpr',) and render(x) == tgt and x.i not in inside_w]
                for r in reads:
                    k += 1
                    rep.check(r.i > w.i, 'R09.8', '%s(%d)|%s read@%d' % (f.short, len(f.params), tgt, r.l), '%s:%d' % (f.file, r.l), 'read after the scaling write at line %d' % w.l,
                              '%s is copied at line %d, before it is scaled at line %d: the other file receives the unscaled coefficient while this one holds the scaled one' % (tgt, r.l, w.l))
    if k < 6:
        raise AnalysisBroken('R09.8: only %d mirrored reads of freshly scaled entries found' % k)
